"""C15 helper: documents that fail (or nearly fail) DEEP INSIDE an extractor instead of at its front door.

Truncated files are rejected while the container is opened; these are well-formed and are rejected - if at all - by the
interpreter in the middle of the recursive walk over the document tree, after the extractor has allocated, patched,
cached or reconfigured whatever it needs. Shape x depth ladder:

  shapes   html-div, html-list, html-table, mhtml-div, epub-div, odt-span, docx-sdt, docx-smarttag, pptx-group, rtf-group,
           zip-html (archive member), eml-multipart (depth/10 nested multipart/mixed entities), odf-mrow (formula document
           whose MathML has no StarMath annotation - the reader has to render the <mrow> tree itself)
  depths   q = L0/4 (extracted on the unchanged tree), 2 = 2*L0, 16 = 16*L0, 128 = 128*L0 nested elements around the one
           text token, L0 = 1000 = CPython's default recursion limit (a constant, NOT sys.getrecursionlimit(): the bytes
           of a document must not depend on the state of the process that writes them)

id: "deep:<shape>:<depth>".
"""
from __future__ import annotations

import io
import zipfile

L0 = 1000
MULT = {"q": L0 // 4, "2": 2 * L0, "16": 16 * L0, "128": 128 * L0}
TOKEN = "Bbcdfg"
_DOC = ["doc", {"title": "Tt"}, [["unit", [["p", [["t", TOKEN]]]], {}]]]
_GRP = '<p:grpSp><p:nvGrpSpPr><p:cNvPr id="9" name="G"/><p:cNvGrpSpPr/><p:nvPr/></p:nvGrpSpPr><p:grpSpPr/>'

SHAPES = ("html-div", "html-list", "html-table", "mhtml-div", "epub-div", "odt-span", "docx-sdt", "docx-smarttag", "pptx-group",
          "rtf-group", "zip-html", "eml-multipart", "odf-mrow")
NAMES = {"html-div": "deep/div.html", "html-list": "deep/list.html", "html-table": "deep/table.html", "mhtml-div": "deep/div.mhtml",
         "epub-div": "deep/div.epub", "odt-span": "deep/span.odt", "docx-sdt": "deep/sdt.docx", "docx-smarttag": "deep/smarttag.docx",
         "pptx-group": "deep/group.pptx", "rtf-group": "deep/group.rtf", "zip-html": "deep/member.zip", "eml-multipart": "deep/multipart.eml", "odf-mrow": "deep/mrow.odf"}


def _nest(zb: bytes, member: str, target: str, o: str, c: str, d: int, stored: bool = False) -> bytes:
    """re-pack a package with `target` (first occurrence in `member`) wrapped in d nested o...c pairs"""
    zin = zipfile.ZipFile(io.BytesIO(zb))
    out = io.BytesIO()
    with zipfile.ZipFile(out, "w") as zout:
        for it in zin.infolist():
            data = zin.read(it.filename)
            if it.filename == member:
                s = data.decode("utf-8")
                if target not in s:
                    raise ValueError(f"{member}: wrap target not found")
                data = s.replace(target, o * d + target + c * d, 1).encode("utf-8")
            zi = zipfile.ZipInfo(it.filename, date_time=it.date_time)
            zi.compress_type = zipfile.ZIP_STORED if stored else it.compress_type
            zi.external_attr = it.external_attr
            zout.writestr(zi, data)
    return out.getvalue()


def _html(d: int, o: str = "<div>", c: str = "</div>") -> str:
    from verif.gen import htmlfam
    return htmlfam.html_page(o * d + TOKEN + c * d)


def build(shape: str, depth: str) -> bytes:
    from verif.gen import htmlfam, odf, ooxml
    d = MULT[depth]
    if shape == "html-div":
        return _html(d).encode()
    if shape == "html-list":
        return _html(d, "<ul><li>", "</li></ul>").encode()
    if shape == "html-table":
        return htmlfam.html_page("<table>" + "<tr><td><table>" * d + f"<tr><td>{TOKEN}</td></tr>" + "</table></td></tr>" * d + "</table>").encode()
    if shape == "mhtml-div":
        return htmlfam.mhtml(_html(d))
    if shape == "epub-div":
        ep = htmlfam.epub([htmlfam.xhtml_page("<div>" * d + TOKEN + "</div>" * d, "t")], {"title": "t"})
        return _nest(ep, "-", "-", "", "", 0, stored=True)      # stored: the compression-ratio guard is not the subject here
    if shape == "odt-span":
        return _nest(odf.odt(_DOC), "content.xml", TOKEN, "<text:span>", "</text:span>", d)
    if shape in ("docx-sdt", "docx-smarttag"):
        zb = ooxml.docx(_DOC)
        s = zipfile.ZipFile(io.BytesIO(zb)).read("word/document.xml").decode("utf-8")
        if shape == "docx-sdt":
            a, b = s.index("<w:p>"), s.index("</w:p>") + len("</w:p>")
            return _nest(zb, "word/document.xml", s[a:b], "<w:sdt><w:sdtContent>", "</w:sdtContent></w:sdt>", d)
        a, b = s.index("<w:r>"), s.index("</w:r>") + len("</w:r>")
        return _nest(zb, "word/document.xml", s[a:b], "<w:smartTag>", "</w:smartTag>", d)
    if shape == "pptx-group":
        zb = ooxml.pptx(_DOC)
        s = zipfile.ZipFile(io.BytesIO(zb)).read("ppt/slides/slide1.xml").decode("utf-8")
        a, b = s.index("<p:sp>"), s.index("</p:sp>") + len("</p:sp>")
        return _nest(zb, "ppt/slides/slide1.xml", s[a:b], _GRP, "</p:grpSp>", d)
    if shape == "rtf-group":
        return ("{\\rtf1\\ansi " + "{" * d + TOKEN + "}" * d + "}").encode()
    if shape == "zip-html":
        out = io.BytesIO()
        with zipfile.ZipFile(out, "w", zipfile.ZIP_STORED) as z:
            z.writestr(zipfile.ZipInfo("a.html", (2020, 1, 1, 0, 0, 0)), _html(d))
            z.writestr(zipfile.ZipInfo("b.txt", (2020, 1, 1, 0, 0, 0)), "Bcdfgh")
        return out.getvalue()
    if shape == "odf-mrow":
        return odf.odf(["doc", {"title": "Tt"}, [["unit", [["p", [["t", "Bbcdfg"], ["t", "Cdfghj"]]]], {}]]],
                       opts={"formula_annotation": False, "formula_nesting": d})
    if shape == "eml-multipart":
        n = d // 10
        head = "From: a@b.example\r\nTo: c@d.example\r\nSubject: Sbcdfg\r\nDate: Mon, 01 Jan 2024 00:00:00 +0000\r\nMIME-Version: 1.0\r\n"
        body = ("".join(f'Content-Type: multipart/mixed; boundary="b{i}"\r\n\r\n--b{i}\r\n' for i in range(n))
                + f"Content-Type: text/plain; charset=us-ascii\r\n\r\n{TOKEN}\r\n" + "".join(f"--b{i}--\r\n" for i in reversed(range(n))))
        return (head + body).encode()
    raise KeyError(shape)


def load(doc: str):
    """"deep:<shape>:<depth>" | "midfail:<kind>" -> (bytes, path argument)"""
    if doc.startswith("midfail:"):
        kind = doc.split(":")[1]
        return build_midfail(kind), MIDFAIL_NAMES[kind]
    _, shape, depth = doc.split(":")
    return build(shape, depth), NAMES[shape]


def family(tier: str) -> list:
    if tier == "quick":
        return ["deep:html-div:2", "deep:html-div:16", "deep:odt-span:16", "deep:docx-sdt:2"]
    out = [f"deep:{s}:{m}" for s in SHAPES for m in ("q", "2", "16") if not (s == "html-table" and m == "16")]
    return out + ["deep:html-div:128", "deep:odt-span:128", "deep:docx-sdt:128"]


# ----------------------------------------------------------------------------------------------------------------------
# archives that fail AFTER the container has been opened and listed ("midfail:<kind>")
#
# The header / central directory / first tar member are intact, so the extractor opens the archive, lists it, selects the
# members and sets up whatever it needs to unpack them (scratch directory, decompressor, member files already written) -
# and only then meets packed data that cannot be decoded. kinds = container x coder x folder layout x damage:
#   7z-<coder>-<layout>      coder lzma | lzma2 | copy, layout solid | perfile | two (verif.gen.sevenz); the bytes of the
#                            (last) pack stream are XOR-ed with 0xA5 from 1/3 to 2/3 of its length - signature header, end
#                            header and their CRCs stay valid ("copy": only the member CRC can notice)
#   7z-<coder>-solid-size    intact pack stream, forged folder unpack size (one byte more than there is)
#   zip-deflate / zip-stored one member's packed bytes damaged in the same way, central directory intact
#   tgz / txz / tbz2         the compressed tar stream damaged behind its first quarter (the container is recognised by its magic)
# ----------------------------------------------------------------------------------------------------------------------
_MF_MEMBERS = [("a.txt", "Bbcdfg " + " ".join(f"w{i * 7919 % 1000}" for i in range(60))),
               ("b.html", "<html><body><p>Cdfghj " + " ".join(f"v{i * 104729 % 1000}" for i in range(60)) + "</p></body></html>"),
               ("c.txt", "Dfghjk " + " ".join(f"u{i * 1299709 % 1000}" for i in range(60)))]
MIDFAIL = ("7z-lzma-solid", "7z-lzma2-solid", "7z-copy-solid", "7z-lzma-perfile", "7z-lzma2-two", "7z-lzma-solid-size", "7z-lzma2-solid-size",
           "zip-deflate", "zip-stored", "tgz", "txz", "tbz2")
MIDFAIL_NAMES = {k: "midfail/" + k + (".7z" if k.startswith("7z") else ".zip" if k.startswith("zip") else ".tar." + {"tgz": "gz", "txz": "xz", "tbz2": "bz2"}[k])
                 for k in MIDFAIL}


def _damage(b: bytes, start: int, end: int) -> bytes:
    """XOR 0xA5 over the middle third of b[start:end]"""
    n = end - start
    a, z = start + n // 3, start + (2 * n) // 3
    if z - a < 8:
        raise ValueError("nothing to damage")
    return b[:a] + bytes(x ^ 0xA5 for x in b[a:z]) + b[z:]


def build_midfail(kind: str) -> bytes:
    import struct
    import tarfile
    if kind.startswith("7z-"):
        from verif.gen import sevenz
        parts = kind.split("-")
        coder, layout = parts[1], {"solid": "solid", "perfile": "per_file", "two": "two_folders"}[parts[2]]
        members = [{"name": n, "data": d.encode(), "mtime": 1577836800} for n, d in _MF_MEMBERS]
        opts = {"coder": coder, "layout": layout}
        if parts[-1] == "size":
            blob = sum(len(m["data"]) for m in members)
            return sevenz.sevenz(members, dict(opts, unpack_size_override=blob + 1))
        good = sevenz.sevenz(members, opts)
        (next_header_offset,) = struct.unpack("<Q", good[12:20])
        end = 32 + next_header_offset                 # the pack streams lie between the signature header and the end header
        if layout == "solid":
            return _damage(good, 32, end)
        # several folders: damage the LAST pack stream only (its length = packed size of the last folder)
        last = len(sevenz.encode(members[-1]["data"] if layout == "per_file" else b"".join(m["data"] for m in members[2:]), coder)[0])
        return _damage(good, end - last, end)
    if kind.startswith("zip-"):
        out = io.BytesIO()
        with zipfile.ZipFile(out, "w", zipfile.ZIP_DEFLATED if kind == "zip-deflate" else zipfile.ZIP_STORED) as z:
            for n, d in _MF_MEMBERS:
                z.writestr(zipfile.ZipInfo(n, (2020, 1, 1, 0, 0, 0)), d, compress_type=z.compression)
        good = out.getvalue()
        zi = zipfile.ZipFile(io.BytesIO(good)).infolist()[1]
        start = zi.header_offset + 30 + len(zi.filename.encode())
        return _damage(good, start, start + zi.compress_size)
    mode = {"tgz": "gz", "txz": "xz", "tbz2": "bz2"}[kind]
    raw = io.BytesIO()
    with tarfile.open(fileobj=raw, mode="w", format=tarfile.USTAR_FORMAT) as t:
        for n, d in _MF_MEMBERS:
            ti = tarfile.TarInfo(n)
            ti.size = len(d.encode())
            ti.mtime = 1577836800
            t.addfile(ti, io.BytesIO(d.encode()))
    raw = raw.getvalue()
    if mode == "gz":
        import zlib
        co = zlib.compressobj(6, zlib.DEFLATED, 31)
        good = co.compress(raw) + co.flush()
        good = good[:4] + bytes(4) + good[8:]        # gzip MTIME = 0: the bytes do not depend on the clock
    elif mode == "xz":
        import lzma
        good = lzma.compress(raw, preset=6)
    else:
        import bz2
        good = bz2.compress(raw, 9)
    return _damage(good, len(good) // 4, len(good))


def midfail_family(tier: str) -> list:
    if tier == "quick":
        return ["midfail:7z-lzma-solid", "midfail:7z-lzma2-solid", "midfail:7z-lzma2-two", "midfail:zip-deflate"]
    return ["midfail:" + k for k in MIDFAIL]
