"""C15 helper: documents that fail (or nearly fail) DEEP INSIDE an extractor instead of at its front door.

Truncated files are rejected while the container is opened; these are well-formed and are rejected - if at all - by the
interpreter in the middle of the recursive walk over the document tree, after the extractor has allocated, patched,
cached or reconfigured whatever it needs. Shape x depth ladder:

  shapes   html-div, html-list, html-table, mhtml-div, epub-div, odt-span, docx-sdt, docx-smarttag, pptx-group, rtf-group,
           zip-html (archive member), eml-multipart (depth/10 nested multipart/mixed entities), odf-mrow (formula document
           whose MathML has no StarMath annotation - the reader has to render the <mrow> tree itself)
  depths   q = L0/4 (extracted on the unchanged tree), 2 = 2*L0, 16 = 16*L0, 128 = 128*L0 nested elements around the one
           text token, L0 = 1000 = CPython's default recursion limit (a constant, NOT sys.getrecursionlimit(): the bytes
           of a document must not depend on the state of the process that writes them)

id: "deep:<shape>:<depth>".

Further families (described at their builders below): "midfail:<kind>" archives that fail after they were opened and listed,
"drawobj:<container>:<object>" drawing objects (with / without svg:title, svg:desc) anchored in the running text of an
OpenDocument paragraph, "encpdf:<form>" one PDF under every form of the standard security handler.
"""
from __future__ import annotations

import io
import zipfile

L0 = 1000
MULT = {"q": L0 // 4, "2": 2 * L0, "16": 16 * L0, "128": 128 * L0}
TOKEN = "Bbcdfg"
_DOC = ["doc", {"title": "Tt"}, [["unit", [["p", [["t", TOKEN]]]], {}]]]
_GRP = '<p:grpSp><p:nvGrpSpPr><p:cNvPr id="9" name="G"/><p:cNvGrpSpPr/><p:nvPr/></p:nvGrpSpPr><p:grpSpPr/>'

SHAPES = ("html-div", "html-list", "html-table", "mhtml-div", "epub-div", "odt-span", "docx-sdt", "docx-smarttag", "pptx-group",
          "rtf-group", "zip-html", "eml-multipart", "odf-mrow")
NAMES = {"html-div": "deep/div.html", "html-list": "deep/list.html", "html-table": "deep/table.html", "mhtml-div": "deep/div.mhtml",
         "epub-div": "deep/div.epub", "odt-span": "deep/span.odt", "docx-sdt": "deep/sdt.docx", "docx-smarttag": "deep/smarttag.docx",
         "pptx-group": "deep/group.pptx", "rtf-group": "deep/group.rtf", "zip-html": "deep/member.zip", "eml-multipart": "deep/multipart.eml", "odf-mrow": "deep/mrow.odf"}


def _nest(zb: bytes, member: str, target: str, o: str, c: str, d: int, stored: bool = False) -> bytes:
    """re-pack a package with `target` (first occurrence in `member`) wrapped in d nested o...c pairs"""
    zin = zipfile.ZipFile(io.BytesIO(zb))
    out = io.BytesIO()
    with zipfile.ZipFile(out, "w") as zout:
        for it in zin.infolist():
            data = zin.read(it.filename)
            if it.filename == member:
                s = data.decode("utf-8")
                if target not in s:
                    raise ValueError(f"{member}: wrap target not found")
                data = s.replace(target, o * d + target + c * d, 1).encode("utf-8")
            zi = zipfile.ZipInfo(it.filename, date_time=it.date_time)
            zi.compress_type = zipfile.ZIP_STORED if stored else it.compress_type
            zi.external_attr = it.external_attr
            zout.writestr(zi, data)
    return out.getvalue()


def _html(d: int, o: str = "<div>", c: str = "</div>") -> str:
    from verif.gen import htmlfam
    return htmlfam.html_page(o * d + TOKEN + c * d)


def build(shape: str, depth: str) -> bytes:
    from verif.gen import htmlfam, odf, ooxml
    d = MULT[depth]
    if shape == "html-div":
        return _html(d).encode()
    if shape == "html-list":
        return _html(d, "<ul><li>", "</li></ul>").encode()
    if shape == "html-table":
        return htmlfam.html_page("<table>" + "<tr><td><table>" * d + f"<tr><td>{TOKEN}</td></tr>" + "</table></td></tr>" * d + "</table>").encode()
    if shape == "mhtml-div":
        return htmlfam.mhtml(_html(d))
    if shape == "epub-div":
        ep = htmlfam.epub([htmlfam.xhtml_page("<div>" * d + TOKEN + "</div>" * d, "t")], {"title": "t"})
        return _nest(ep, "-", "-", "", "", 0, stored=True)      # stored: the compression-ratio guard is not the subject here
    if shape == "odt-span":
        return _nest(odf.odt(_DOC), "content.xml", TOKEN, "<text:span>", "</text:span>", d)
    if shape in ("docx-sdt", "docx-smarttag"):
        zb = ooxml.docx(_DOC)
        s = zipfile.ZipFile(io.BytesIO(zb)).read("word/document.xml").decode("utf-8")
        if shape == "docx-sdt":
            a, b = s.index("<w:p>"), s.index("</w:p>") + len("</w:p>")
            return _nest(zb, "word/document.xml", s[a:b], "<w:sdt><w:sdtContent>", "</w:sdtContent></w:sdt>", d)
        a, b = s.index("<w:r>"), s.index("</w:r>") + len("</w:r>")
        return _nest(zb, "word/document.xml", s[a:b], "<w:smartTag>", "</w:smartTag>", d)
    if shape == "pptx-group":
        zb = ooxml.pptx(_DOC)
        s = zipfile.ZipFile(io.BytesIO(zb)).read("ppt/slides/slide1.xml").decode("utf-8")
        a, b = s.index("<p:sp>"), s.index("</p:sp>") + len("</p:sp>")
        return _nest(zb, "ppt/slides/slide1.xml", s[a:b], _GRP, "</p:grpSp>", d)
    if shape == "rtf-group":
        return ("{\\rtf1\\ansi " + "{" * d + TOKEN + "}" * d + "}").encode()
    if shape == "zip-html":
        out = io.BytesIO()
        with zipfile.ZipFile(out, "w", zipfile.ZIP_STORED) as z:
            z.writestr(zipfile.ZipInfo("a.html", (2020, 1, 1, 0, 0, 0)), _html(d))
            z.writestr(zipfile.ZipInfo("b.txt", (2020, 1, 1, 0, 0, 0)), "Bcdfgh")
        return out.getvalue()
    if shape == "odf-mrow":
        return odf.odf(["doc", {"title": "Tt"}, [["unit", [["p", [["t", "Bbcdfg"], ["t", "Cdfghj"]]]], {}]]],
                       opts={"formula_annotation": False, "formula_nesting": d})
    if shape == "eml-multipart":
        n = d // 10
        head = "From: a@b.example\r\nTo: c@d.example\r\nSubject: Sbcdfg\r\nDate: Mon, 01 Jan 2024 00:00:00 +0000\r\nMIME-Version: 1.0\r\n"
        body = ("".join(f'Content-Type: multipart/mixed; boundary="b{i}"\r\n\r\n--b{i}\r\n' for i in range(n))
                + f"Content-Type: text/plain; charset=us-ascii\r\n\r\n{TOKEN}\r\n" + "".join(f"--b{i}--\r\n" for i in reversed(range(n))))
        return (head + body).encode()
    raise KeyError(shape)


def load(doc: str):
    """"deep:<shape>:<depth>" | "midfail:<kind>" | "drawobj:<container>:<object>" | "encpdf:<form>" -> (bytes, path argument)"""
    if doc.startswith("midfail:"):
        kind = doc.split(":")[1]
        return build_midfail(kind), MIDFAIL_NAMES[kind]
    if doc.startswith("drawobj:"):
        _, container, obj = doc.split(":")
        return build_drawobj(container, obj), f"drawobj/{obj}.{container}"
    if doc.startswith("encpdf:"):
        form = doc.split(":")[1]
        return build_encpdf(form), f"encpdf/{form}.pdf"
    _, shape, depth = doc.split(":")
    return build(shape, depth), NAMES[shape]


def family(tier: str) -> list:
    if tier == "quick":
        return ["deep:html-div:2", "deep:html-div:16", "deep:odt-span:16", "deep:docx-sdt:2"]
    out = [f"deep:{s}:{m}" for s in SHAPES for m in ("q", "2", "16") if not (s == "html-table" and m == "16")]
    return out + ["deep:html-div:128", "deep:odt-span:128", "deep:docx-sdt:128"]


# ----------------------------------------------------------------------------------------------------------------------
# archives that fail AFTER the container has been opened and listed ("midfail:<kind>")
#
# The header / central directory / first tar member are intact, so the extractor opens the archive, lists it, selects the
# members and sets up whatever it needs to unpack them (scratch directory, decompressor, member files already written) -
# and only then meets packed data that cannot be decoded. kinds = container x coder x folder layout x damage:
#   7z-<coder>-<layout>      coder lzma | lzma2 | copy, layout solid | perfile | two (verif.gen.sevenz); the bytes of the
#                            (last) pack stream are XOR-ed with 0xA5 from 1/3 to 2/3 of its length - signature header, end
#                            header and their CRCs stay valid ("copy": only the member CRC can notice)
#   7z-<coder>-solid-size    intact pack stream, forged folder unpack size (one byte more than there is)
#   zip-deflate / zip-stored one member's packed bytes damaged in the same way, central directory intact
#   tgz / txz / tbz2         the compressed tar stream damaged behind its first quarter (the container is recognised by its magic)
# ----------------------------------------------------------------------------------------------------------------------
_MF_MEMBERS = [("a.txt", "Bbcdfg " + " ".join(f"w{i * 7919 % 1000}" for i in range(60))),
               ("b.html", "<html><body><p>Cdfghj " + " ".join(f"v{i * 104729 % 1000}" for i in range(60)) + "</p></body></html>"),
               ("c.txt", "Dfghjk " + " ".join(f"u{i * 1299709 % 1000}" for i in range(60)))]
MIDFAIL = ("7z-lzma-solid", "7z-lzma2-solid", "7z-copy-solid", "7z-lzma-perfile", "7z-lzma2-two", "7z-lzma-solid-size", "7z-lzma2-solid-size",
           "zip-deflate", "zip-stored", "tgz", "txz", "tbz2")
MIDFAIL_NAMES = {k: "midfail/" + k + (".7z" if k.startswith("7z") else ".zip" if k.startswith("zip") else ".tar." + {"tgz": "gz", "txz": "xz", "tbz2": "bz2"}[k])
                 for k in MIDFAIL}


def _damage(b: bytes, start: int, end: int) -> bytes:
    """XOR 0xA5 over the middle third of b[start:end]"""
    n = end - start
    a, z = start + n // 3, start + (2 * n) // 3
    if z - a < 8:
        raise ValueError("nothing to damage")
    return b[:a] + bytes(x ^ 0xA5 for x in b[a:z]) + b[z:]


def build_midfail(kind: str) -> bytes:
    import struct
    import tarfile
    if kind.startswith("7z-"):
        from verif.gen import sevenz
        parts = kind.split("-")
        coder, layout = parts[1], {"solid": "solid", "perfile": "per_file", "two": "two_folders"}[parts[2]]
        members = [{"name": n, "data": d.encode(), "mtime": 1577836800} for n, d in _MF_MEMBERS]
        opts = {"coder": coder, "layout": layout}
        if parts[-1] == "size":
            blob = sum(len(m["data"]) for m in members)
            return sevenz.sevenz(members, dict(opts, unpack_size_override=blob + 1))
        good = sevenz.sevenz(members, opts)
        (next_header_offset,) = struct.unpack("<Q", good[12:20])
        end = 32 + next_header_offset                 # the pack streams lie between the signature header and the end header
        if layout == "solid":
            return _damage(good, 32, end)
        # several folders: damage the LAST pack stream only (its length = packed size of the last folder)
        last = len(sevenz.encode(members[-1]["data"] if layout == "per_file" else b"".join(m["data"] for m in members[2:]), coder)[0])
        return _damage(good, end - last, end)
    if kind.startswith("zip-"):
        out = io.BytesIO()
        with zipfile.ZipFile(out, "w", zipfile.ZIP_DEFLATED if kind == "zip-deflate" else zipfile.ZIP_STORED) as z:
            for n, d in _MF_MEMBERS:
                z.writestr(zipfile.ZipInfo(n, (2020, 1, 1, 0, 0, 0)), d, compress_type=z.compression)
        good = out.getvalue()
        zi = zipfile.ZipFile(io.BytesIO(good)).infolist()[1]
        start = zi.header_offset + 30 + len(zi.filename.encode())
        return _damage(good, start, start + zi.compress_size)
    mode = {"tgz": "gz", "txz": "xz", "tbz2": "bz2"}[kind]
    raw = io.BytesIO()
    with tarfile.open(fileobj=raw, mode="w", format=tarfile.USTAR_FORMAT) as t:
        for n, d in _MF_MEMBERS:
            ti = tarfile.TarInfo(n)
            ti.size = len(d.encode())
            ti.mtime = 1577836800
            t.addfile(ti, io.BytesIO(d.encode()))
    raw = raw.getvalue()
    if mode == "gz":
        import zlib
        co = zlib.compressobj(6, zlib.DEFLATED, 31)
        good = co.compress(raw) + co.flush()
        good = good[:4] + bytes(4) + good[8:]        # gzip MTIME = 0: the bytes do not depend on the clock
    elif mode == "xz":
        import lzma
        good = lzma.compress(raw, preset=6)
    else:
        import bz2
        good = bz2.compress(raw, 9)
    return _damage(good, len(good) // 4, len(good))


def midfail_family(tier: str) -> list:
    if tier == "quick":
        return ["midfail:7z-lzma-solid", "midfail:7z-lzma2-solid", "midfail:7z-lzma2-two", "midfail:zip-deflate"]
    return ["midfail:" + k for k in MIDFAIL]


# ----------------------------------------------------------------------------------------------------------------------
# drawing objects anchored in running text ("drawobj:<container>:<object>")
#
# One paragraph of an OpenDocument package (text document, presentation text box, spreadsheet cell, drawing text box) holds,
# between two words, ONE drawing object with svg:title, svg:desc and a paragraph of its own. The extractors walk such a
# paragraph with per-format, module-level configuration (tag sets that say what belongs to the running text); what the
# walk of ONE object kind does to that configuration shows in the text of the NEXT document with ANOTHER object kind.
#   containers  odt | odp | ods | odg
#   objects     frame-box   draw:frame > draw:text-box > text:p, svg:title + svg:desc behind it (schema order)
#               frame-bare  the same frame without title / desc
#               rect | ellipse | cshape (draw:custom-shape + enhanced geometry) | group (draw:g > draw:rect): svg:title + svg:desc
#               first, then text:p
#               rect-bare   draw:rect without title / desc
# Every word is distinct, so any part that goes missing or moves shows in the digest.
# ----------------------------------------------------------------------------------------------------------------------
DRAWOBJ_CONTAINERS = ("odt", "odp", "ods", "odg")
DRAWOBJ_OBJECTS = ("frame-box", "frame-bare", "rect", "rect-bare", "ellipse", "cshape", "group")
_GEOM = 'svg:width="3cm" svg:height="1cm" svg:x="1cm" svg:y="1cm"'
_TD = "<svg:title>Wbcdfg</svg:title><svg:desc>Xcdfgh</svg:desc>"
_INNER = "<text:p>Ydfghj</text:p>"


def _drawobj_xml(obj: str, anchor: str) -> str:
    if obj in ("frame-box", "frame-bare"):
        return (f'<draw:frame draw:name="Fr1" {anchor}{_GEOM}><draw:text-box>{_INNER}</draw:text-box>'
                f'{_TD if obj == "frame-box" else ""}</draw:frame>')
    if obj in ("rect", "rect-bare"):
        return f'<draw:rect draw:name="Sh1" {anchor}{_GEOM}>{_TD if obj == "rect" else ""}{_INNER}</draw:rect>'
    if obj == "ellipse":
        return f'<draw:ellipse draw:name="Sh1" {anchor}{_GEOM}>{_TD}{_INNER}</draw:ellipse>'
    if obj == "cshape":
        return (f'<draw:custom-shape draw:name="Sh1" {anchor}{_GEOM}>{_TD}{_INNER}<draw:enhanced-geometry svg:viewBox="0 0 21600 21600" '
                f'draw:type="rectangle" draw:enhanced-path="M 0 0 L 21600 0 21600 21600 0 21600 0 0 Z N"/></draw:custom-shape>')
    if obj == "group":
        return f'<draw:g draw:name="Gr1" {anchor}>{_TD}<draw:rect draw:name="Sh1" {_GEOM}>{_INNER}</draw:rect></draw:g>'
    raise KeyError(obj)


def build_drawobj(container: str, obj: str) -> bytes:
    from verif.gen import odf
    body = ["doc", {"title": "Tt"}, [["unit", [["p", [["t", TOKEN]]]], {}]]]
    if container == "ods":
        zb = odf.ods(["doc", {}, [["sheet", "Nbcdfg", [[["s", TOKEN], ["i", 5]]]]]])
    else:
        zb = {"odt": odf.odt, "odp": odf.odp, "odg": odf.odg}[container](body)
    anchor = 'text:anchor-type="as-char" ' if container == "odt" else ""
    return _nest(zb, "content.xml", TOKEN, "Zfghjk " + _drawobj_xml(obj, anchor) + " ", "", 1)      # Zfghjk <object> TOKEN


def drawobj_family(tier: str) -> list:
    if tier == "quick":
        return [f"drawobj:{c}:{o}" for c in ("odt", "odp", "ods") for o in ("frame-box", "rect")] + ["drawobj:odt:cshape"]
    return [f"drawobj:{c}:{o}" for c in DRAWOBJ_CONTAINERS for o in DRAWOBJ_OBJECTS]


# ----------------------------------------------------------------------------------------------------------------------
# encrypted PDFs, one per form of the standard security handler ("encpdf:<form>")
#
# The same two-paragraph document under every encryption form verif.gen.pdfw writes (deterministic, AES from verif.ref.aes,
# nothing of pypdf or of the library is used for writing). The forms differ in WHICH third-party machinery a reader needs
# and WHEN it needs it (password check vs. string / stream decryption), i.e. in what a reader has to have set up - or may
# find already set up by an earlier document.
#   rc4-40   /V 1 /R 2            rc4-128  /V 2 /R 3         cf-v2    /V 4 crypt filter /CFM /V2 (RC4)
#   aesv2    /V 4 /CFM /AESV2 (AES-128-CBC: password check is RC4/MD5, AES only for strings and streams)
#   aesv3    /V 5 /R 5 /CFM /AESV3 (AES-256: AES already in the password check)
#   <form>-pw   the same with a non-empty user password (the reader has to refuse: aesv2-pw, aesv3-pw, rc4-128-pw)
# ----------------------------------------------------------------------------------------------------------------------
ENCPDF_FORMS = ("rc4-40", "rc4-128", "cf-v2", "aesv2", "aesv3", "rc4-128-pw", "aesv2-pw", "aesv3-pw")


def build_encpdf(form: str) -> bytes:
    from verif.gen import pdfw
    pw = form.endswith("-pw")
    base = form[:-3] if pw else form
    enc = {"user": "Verif-user" if pw else "", "owner": "Verif-owner", "algorithm": "RC4-40" if base == "rc4-40" else "RC4-128"}
    if base in ("cf-v2", "aesv2", "aesv3"):
        enc["crypt_filter"] = {"name": "StdCF", "cfm": {"cf-v2": "V2", "aesv2": "AESV2", "aesv3": "AESV3"}[base]}
    elif base not in ("rc4-40", "rc4-128"):
        raise KeyError(form)
    doc = ["doc", {"title": "Tt"}, [["unit", [["p", [["t", TOKEN]]], ["p", [["t", "Cdfghj"]]]], {}]]]
    return pdfw.pdf(doc, opts={"encrypt": enc})


def encpdf_family(tier: str) -> list:
    if tier == "quick":
        return ["encpdf:rc4-128", "encpdf:aesv2", "encpdf:aesv3", "encpdf:aesv2-pw"]
    return ["encpdf:" + f for f in ENCPDF_FORMS]
