"""C05 - to_json is JSON-serialisable, from_json restores the same object, markers cannot be confused,
include_binary=False nulls exactly the binary fields, the CLI emits that JSON.

Space I, bounded-exhaustive, four parts (fmt of a failure names the part):

  fixture        every file under the library's test resources that the extractors accept (read_file), x 2 histories
  gen:<format>   one rich generated document per writer format (19 ADM formats, 4 eml, 2 mbox, zip/tar/7z of generated
                 members), x 2 histories; plus the spreadsheet lattice for xlsx / xls / ods: a 2-column sheet whose first
                 column ranges over  header vocabulary {token, _type, _bytes, _bytesio, a registered class name, "value",
                 a number, empty} x body vocabulary {token, class name, valid base64, "_type", "", every typed cell kind
                 (int float bool date datetime time duration error formula empty)}  (thorough: also both columns over the
                 marker pairs, and 3-row sheets); plus typed cell x position (c05_corpus.typed_position_grids): each of the 9
                 typed cell kinds at EVERY (row, column) of a sheet of plain tokens, shapes {1x1, 1x2, 2x1, 2x2, 3x1} = 12
                 positions (first = label row, inner, last row; only / first / last column), x 3 formats = 324 sheets
                 (thorough: also 1x3 and 3x3 = 24 positions, and every ordered pair of typed kinds at two positions of the
                 2x2 sheet = 486 per format). Results of supported mail attachments count as results too.
                 plus the decorated texts (c05_corpus.edge_cases): a text  pre + tok [+ mid + tok'] + suf  whose decorations are
                 sequences over DECOR = {sp nl cr tab bom nbsp zwsp nul} - the characters that normalising constructors
                 (strip & co.) act on - placed before / after / inside / mirrored around the text, as the raw bytes of a plain
                 file (quick: c05.txt all sequences of length <= 2, csv md json tsv length 1; thorough: txt <= 3 and <= 2 in
                 utf-8-sig / utf-16, the others <= 2) and as the base64 text/plain body of a one-part eml (length <= 2, no cr;
                 thorough also mbox). from_json runs every constructor a second time: a normalisation that is not idempotent
                 on some decorated text shows as json-equal / content-equal. What the extractor's decoder made of the text is
                 counted in the outcome ("decor:kept|stripped|bom-dropped|other"), the verdict never depends on it.
                 plus the header spellings (c05_corpus.header_cases): a raw one-part message (bytes written directly, no writer
                 in between) as .eml and as .mbox in which ONE header the readers look at - Subject, From, To, Cc, Bcc, Reply-To,
                 Message-ID, In-Reply-To, Date, Content-Type, Content-Disposition, and Content-Type / Content-Disposition of an
                 attachment part - carries a token at ONE syntactic position of its value (37 header positions: display name,
                 quoted name, local part, bare address, domain; msg-id inside <> / raw; date comment / raw; charset, name,
                 filename parameter) in ONE of 13 wire spellings {ascii, raw latin-1 byte, raw utf-8 bytes, raw invalid byte,
                 encoded-word B / Q / unknown charset / invalid base64 / surrogate bytes, folded, empty, NUL, the marker string
                 "_type"}, or is absent / written twice: 507 messages per kind (what the third-party parsers hand over for such a
                 value - str, email.header.Header, undecoded text - is exactly what must survive to_json). thorough: the same with
                 CRLF line ends, plus all pairs of positions of two different headers in the spellings {latin-1, folded}.
                 histories: "json-first" = to_json() on the fresh result; "read-first" = every image / attachment stream
                 is read to its end (get_bytes().read(), attachment.data.read()) BEFORE to_json().
  instance       type-directed instances: the registry is discovered reflectively; for every instantiable registered
                 dataclass the baseline instance and every instance deviating from it in <= 1 field (quick) / <= 2 fields
                 (thorough) over the per-type domains of c05_instances; every str-typed field additionally takes the
                 decorated strings  pre:/suf:/mid:/both:<sequence over DECOR>  as single deviations (quick: pre/suf <= 2, mid/both
                 1 symbol = 160 per field; thorough: every position <= 2 = 288 per field, and pre/suf/mid <= 3 = 1824 per field
                 for the classes whose construction runs code of their own (__post_init__ & co., discovered reflectively));
                 two-field deviations use the core domains plus both:sp / both:bom.
  cli            sharepoint2text.cli.main on the small generated document of every format, containers of them, 20 fixtures
                 and the header-spelling messages {Subject, Message-ID, From display name} x {raw latin-1, encoded-word B} x
                 {eml, mbox}: {--json, --json-unit} x {without, with --binary} x {flag before, after the path}.

Oracle clauses (only what the statement says)
  dumps             to_json() raises or json.dumps(to_json()) raises (standard encoder, default settings)
  from_json-raises  ExtractionInterface.from_json(json.loads(json.dumps(to_json()))) raises
  type              the rebuilt object is not of the same class
  json-equal        rebuilt.to_json() differs from to_json() (compared as canonical JSON text, key order ignored)
  marker            a value that was document content (str / dict / list / number) came back as bytes, BytesIO or a
                    dataclass instance, or the other way round
  content-equal     full text / units (type, text, unit JSON, image bytes, tables) / tables (grid, dim) / images (bytes,
                    content type, caption, description) / attachments (name, mime type, bytes) differ between original
                    and rebuilt object; accessors that raise on the ORIGINAL are not judged
  binary-null-only  serialize_extraction(x, include_binary=False) is not "to_json() with exactly the bytes / BytesIO
                    positions replaced by null" (positions are taken from the object, not from the JSON)
  stream-position   to_json() after the streams were read differs from to_json() of a fresh extraction
  cli-equal         exit code != 0, stdout is not exactly one JSON document + newline, or it differs from the JSON the
                    statement names (object for one result, array for several; --json-unit: the units' JSON)
  (not judged)      a type-directed instance that holds a value no extractor produces - in an Any-typed position a marker
                    dict, nested list, bytes, datetime/date/time/timedelta/Decimal; or a marker KEY in a Dict[str, str]
                    field (HtmlContent.headings/links, EpubContent.toc: their keys are literals of the extractor code) -
                    is outside the quantifier ("every extraction result"); such instances are still built and run, their
                    outcome classes are counted in the coverage ("any|..."), but they produce no failure.
                    Every judged failure is reachable: produced from a real document, or from scalar cell values and
                    header-named keys of XlsSheet rows.

Triage: minimal cases are normalised (sheet: column deletion, incidental cells -> plain token / "QUJD"; instance: earliest
deviation label with the same marker key; decorated text: symbols deleted, then replaced by the earliest symbol of DECOR that
still fails), so that one mechanism gives one fingerprint in both tiers and for every seed.
"""
from __future__ import annotations

import contextlib
import dataclasses
import io
import json
import os
import random
import shutil
import tempfile

from verif.mc import findings as F
from verif.mc import pool as P
from verif.props import c05_corpus as G
from verif.props import c05_instances as I

LEVEL = "exploration"
RES_DIR = "/repo/sharepoint2text/tests/resources"
CLI_FIXTURES = ["plain_text/plain.txt", "plain_text/plain.csv", "plain_text/document.md", "html/sample.html", "html/sample.mhtml",
                "epub/sample.epub", "mails/basic_email.eml", "mails/basic_email.mbox", "mails/basic_email.msg",
                "archives/test_archive.zip", "archives/test_archive.tar.gz", "archives/test_archive.7z", "modern_ms/mwe.xlsx",
                "modern_ms/image_in_excel.xlsx", "modern_ms/headings.docx", "modern_ms/pptx_table.pptx", "legacy_ms/mwe.xls",
                "legacy_ms/headings.doc", "legacy_ms/slide_with_notes.ppt", "open_office/image_extraction.odp",
                "open_office/sample_spreadsheet.ods", "pdf/multi_image.pdf", "legacy_ms/2025.144.un.rtf"]
CLI_GEN_FORMATS = ["docx", "pptx", "xlsx", "odt", "odp", "ods", "odg", "odf", "rtf", "pdf", "xls", "ppt", "txt", "csv", "md", "json",
                   "html", "mhtml", "epub"]
CLI_HDR_DEVS = [[h, p, sp] for h, p in (("Subject", "value"), ("Message-ID", "id"), ("From", "name")) for sp in ("latin1", "ew-b")]
HISTS = ["json-first", "read-first"]


def _seed():
    return int(os.environ.get("VERIF_SEED", "0") or 0)


# ================================================================================================= canonical views

def cj(j):
    return json.dumps(j, sort_keys=True, ensure_ascii=True)


def canon(v, depth=0):
    """Deep, type-tagged, JSON-able view of a Python value (NaN-safe, BytesIO by content)."""
    if v is None or isinstance(v, (bool, int, str)):
        return v
    if isinstance(v, float):
        return {"f": repr(v)}
    if isinstance(v, io.BytesIO):
        return {"bytesio": v.getvalue().hex()}
    if isinstance(v, (bytes, bytearray)):
        return {"bytes": bytes(v).hex()}
    if depth > 40:
        return {"deep": type(v).__name__}
    if dataclasses.is_dataclass(v) and not isinstance(v, type):
        return {"dc": type(v).__name__, "fields": {f.name: canon(getattr(v, f.name, None), depth + 1) for f in dataclasses.fields(v)}}
    if isinstance(v, dict):
        return {"dict": sorted(([str(k), canon(x, depth + 1)] for k, x in v.items()), key=lambda kv: kv[0])}
    if isinstance(v, (list, tuple)):
        return [canon(x, depth + 1) for x in v]
    if isinstance(v, (set, frozenset)):
        return {"set": sorted((canon(x, depth + 1) for x in v), key=cj)}
    return {"obj": type(v).__name__, "repr": repr(v)[:200]}


def first_diff(a, b, path="$"):
    """path and values of the first difference of two JSON-able values, or None"""
    if type(a) is not type(b):
        return "%s: %s vs %s" % (path, _short(a), _short(b))
    if isinstance(a, dict):
        for k in sorted(set(a) | set(b)):
            if k not in a:
                return "%s.%s: absent vs %s" % (path, k, _short(b[k]))
            if k not in b:
                return "%s.%s: %s vs absent" % (path, k, _short(a[k]))
            d = first_diff(a[k], b[k], path + "." + k)
            if d:
                return d
        return None
    if isinstance(a, list):
        if len(a) != len(b):
            return "%s: %d vs %d elements (%s vs %s)" % (path, len(a), len(b), _short(a), _short(b))
        for i, (x, y) in enumerate(zip(a, b)):
            d = first_diff(x, y, "%s[%d]" % (path, i))
            if d:
                return d
        return None
    if a != b and not (isinstance(a, float) and a != a and b != b):
        return "%s: %s vs %s" % (path, _short(a), _short(b))
    return None


def _short(v):
    s = repr(v)
    return s if len(s) <= 120 else s[:117] + "..."


# ================================================================================================= observation

def _bytes_of(stream):
    if isinstance(stream, io.BytesIO):
        return stream.getvalue()
    if isinstance(stream, (bytes, bytearray)):
        return bytes(stream)
    return stream


def _try(fn):
    try:
        return {"ok": fn()}
    except Exception as e:  # noqa
        return {"exc": type(e).__name__}


def image_view(i):
    v = {"type": type(i).__name__}
    v["data"] = _try(lambda: canon(_bytes_of(i.get_bytes())))
    for m in ("get_content_type", "get_caption", "get_description"):
        if hasattr(i, m):
            v[m] = _try(lambda m=m: canon(getattr(i, m)()))
    return v


def table_view(t):
    return {"type": type(t).__name__, "grid": _try(lambda: canon(t.get_table())), "dim": _try(lambda: canon(t.get_dim()))}


def unit_view(u):
    def uj():
        return cj(u.to_json())
    return {"type": type(u).__name__, "text": _try(lambda: canon(u.get_text())), "images": _try(lambda: [image_view(i) for i in u.get_images()]),
            "tables": _try(lambda: [table_view(t) for t in u.get_tables()]), "json": _try(uj)}


def observe(o):
    obs = {}
    if hasattr(o, "get_full_text"):
        obs["full_text"] = _try(lambda: canon(o.get_full_text()))
    if hasattr(o, "iterate_units"):
        obs["units"] = _try(lambda: [unit_view(u) for u in o.iterate_units()])
    if hasattr(o, "iterate_tables"):
        obs["tables"] = _try(lambda: [table_view(t) for t in o.iterate_tables()])
    if hasattr(o, "iterate_images"):
        obs["images"] = _try(lambda: [image_view(i) for i in o.iterate_images()])
    if hasattr(o, "attachments") and hasattr(o, "iterate_supported_attachments"):
        obs["attachments"] = _try(lambda: [[canon(getattr(a, "filename", None)), canon(getattr(a, "mime_type", None)),
                                            canon(_bytes_of(getattr(a, "data", None)))] for a in o.attachments])
    if hasattr(o, "get_text"):
        obs["text"] = _try(lambda: canon(o.get_text()))
    if hasattr(o, "get_images"):
        obs["unit_images"] = _try(lambda: [image_view(i) for i in o.get_images()])
    if hasattr(o, "get_tables"):
        obs["unit_tables"] = _try(lambda: [table_view(t) for t in o.get_tables()])
    if hasattr(o, "get_bytes"):
        obs["image"] = image_view(o)
    if hasattr(o, "get_table"):
        obs["table"] = table_view(o)
    return obs


def obs_diff(a, b, path):
    """first difference between two observation trees; {"exc": ..} on the original side = not judged"""
    if isinstance(a, dict) and set(a) == {"exc"}:
        return None
    if isinstance(a, dict) and set(a) == {"ok"}:
        if not (isinstance(b, dict) and set(b) == {"ok"}):
            return "%s: original gives %s, rebuilt object raises %s" % (path, _short(a["ok"]), b.get("exc") if isinstance(b, dict) else b)
        return obs_diff(a["ok"], b["ok"], path)
    if type(a) is not type(b):
        return "%s: %s vs %s" % (path, _short(a), _short(b))
    if isinstance(a, dict):
        for k in sorted(set(a) | set(b)):
            if k not in a or k not in b:
                return "%s.%s: %s vs %s" % (path, k, _short(a.get(k, "absent")), _short(b.get(k, "absent")))
            d = obs_diff(a[k], b[k], path + "." + k)
            if d:
                return d
        return None
    if isinstance(a, list):
        if len(a) != len(b):
            return "%s: %d vs %d elements (%s vs %s)" % (path, len(a), len(b), _short(a), _short(b))
        for i, (x, y) in enumerate(zip(a, b)):
            d = obs_diff(x, y, "%s[%d]" % (path, i))
            if d:
                return d
        return None
    if a != b:
        return "%s: %s vs %s" % (path, _short(a), _short(b))
    return None


# ================================================================================================= marker confusion

def _kind(v):
    if isinstance(v, io.BytesIO):
        return "BytesIO"
    if isinstance(v, (bytes, bytearray)):
        return "bytes"
    if dataclasses.is_dataclass(v) and not isinstance(v, type):
        return "dataclass"
    if isinstance(v, dict):
        return "dict"
    if isinstance(v, (list, tuple, set, frozenset)):
        return "seq"
    return "scalar"


_ENCODED = {"BytesIO", "bytes", "dataclass"}


def kind_diff(x, y, path="$", depth=0):
    kx, ky = _kind(x), _kind(y)
    if kx != ky:
        if kx in _ENCODED or ky in _ENCODED:
            return "%s: original holds %s %s, rebuilt object holds %s %s" % (path, kx, _short(x), ky, _short(y))
        return None
    if depth > 40:
        return None
    if kx == "dataclass":
        if type(x) is not type(y):
            return "%s: %s came back as %s" % (path, type(x).__name__, type(y).__name__)
        for f in dataclasses.fields(x):
            d = kind_diff(getattr(x, f.name, None), getattr(y, f.name, None), path + "." + f.name, depth + 1)
            if d:
                return d
    elif kx == "dict":
        ym = {str(k): v for k, v in y.items()}
        for k, v in x.items():
            if str(k) in ym:
                d = kind_diff(v, ym[str(k)], "%s[%r]" % (path, k), depth + 1)
                if d:
                    return d
    elif kx == "seq" and not isinstance(x, (set, frozenset)) and not isinstance(y, (set, frozenset)) and len(x) == len(y):
        for i, (a, b) in enumerate(zip(x, y)):
            d = kind_diff(a, b, "%s[%d]" % (path, i), depth + 1)
            if d:
                return d
    return None


# ================================================================================================= binary-null-only

def null_walk(x, jf, jn, path, depth=0):
    """None, or the first place where the binary-free JSON is not 'full JSON with the binary positions of x nulled'."""
    k = _kind(x)
    if k in ("BytesIO", "bytes"):
        if jn is not None:
            return "%s: binary field is %s, not null" % (path, _short(jn))
        if jf is None:
            return "%s: binary field is null although include_binary=True" % path
        return None
    if depth > 40:
        return None
    if k == "dataclass":
        if not (isinstance(jf, dict) and isinstance(jn, dict)):
            return "%s: %s vs %s" % (path, _short(jf), _short(jn))
        if set(jf) != set(jn):
            return "%s: keys differ: %s vs %s" % (path, sorted(jf), sorted(jn))
        if jf.get("_type") != jn.get("_type"):
            return "%s._type: %r vs %r" % (path, jf.get("_type"), jn.get("_type"))
        for f in dataclasses.fields(x):
            d = null_walk(getattr(x, f.name, None), jf.get(f.name), jn.get(f.name), path + "." + f.name, depth + 1)
            if d:
                return d
        return None
    if k == "dict":
        if not (isinstance(jf, dict) and isinstance(jn, dict)):
            return "%s: %s vs %s" % (path, _short(jf), _short(jn))
        if set(jf) != set(jn):
            return "%s: keys differ: %s vs %s" % (path, sorted(jf), sorted(jn))
        for key, v in x.items():
            d = null_walk(v, jf.get(str(key)), jn.get(str(key)), "%s[%r]" % (path, key), depth + 1)
            if d:
                return d
        return None
    if k == "seq" and not isinstance(x, (set, frozenset)):
        if not (isinstance(jf, list) and isinstance(jn, list)) or len(jf) != len(jn) or len(jf) != len(x):
            return "%s: %s vs %s" % (path, _short(jf), _short(jn))
        for i, v in enumerate(x):
            d = null_walk(v, jf[i], jn[i], "%s[%d]" % (path, i), depth + 1)
            if d:
                return d
        return None
    try:
        same = cj(jf) == cj(jn)
    except Exception:  # noqa  (value the encoder cannot write: judged by clause dumps)
        same = canon(jf) == canon(jn)
    if not same:
        return "%s: non-binary value changed: %s vs %s" % (path, _short(jf), _short(jn))
    return None


# ================================================================================================= the object oracle

def check_object(x, where="", with_units=False):
    """-> [(clause, message)] for one object (extraction result, unit, or any registered dataclass instance)."""
    from sharepoint2text.parsing.extractors.data_types import ExtractionInterface
    from sharepoint2text.parsing.extractors.serialization import serialize_extraction
    fails = []
    w = (where + ": ") if where else ""
    tname = type(x).__name__
    to_json = getattr(x, "to_json", None) or (lambda: serialize_extraction(x))
    try:
        jx = to_json()
    except Exception as e:  # noqa
        return [("dumps", "%s%s.to_json() raised %s: %s" % (w, tname, type(e).__name__, e))]
    # ---- binary-null-only (needs only the object and its two serialisations)
    try:
        jn = serialize_extraction(x, include_binary=False)
        d = null_walk(x, jx, jn, "$")
        if d:
            fails.append(("binary-null-only", "%s%s include_binary=False: %s" % (w, tname, d)))
    except Exception as e:  # noqa
        fails.append(("binary-null-only", "%sserialize_extraction(%s, include_binary=False) raised %s: %s" % (w, tname, type(e).__name__, e)))
    try:
        sx = json.dumps(jx)
    except Exception as e:  # noqa
        fails.append(("dumps", "%sjson.dumps(%s.to_json()) raised %s: %s" % (w, tname, type(e).__name__, e)))
        return fails
    try:
        y = ExtractionInterface.from_json(json.loads(sx))
    except Exception as e:  # noqa
        fails.append(("from_json-raises", "%sfrom_json(json of %s) raised %s: %s" % (w, tname, type(e).__name__, e)))
        return fails
    if type(y) is not type(x):
        fails.append(("type", "%sfrom_json returned %s for the JSON of a %s" % (w, type(y).__name__, tname)))
        return fails
    d = kind_diff(x, y)
    if d:
        # content taken for a marker: differing JSON / accessors of the rebuilt object are consequences, not reported again
        fails.append(("marker", "%s%s: %s" % (w, tname, d)))
    else:
        try:
            jy = (getattr(y, "to_json", None) or (lambda: serialize_extraction(y)))()
            sy = cj(jy)
            if sy != cj(jx):
                fails.append(("json-equal", "%s%s: to_json() of the rebuilt object differs at %s" % (w, tname, first_diff(json.loads(sx), json.loads(sy)))))
        except Exception as e:  # noqa
            fails.append(("json-equal", "%s%s: to_json()/dumps of the rebuilt object raised %s: %s" % (w, tname, type(e).__name__, e)))
        ox, oy = observe(x), observe(y)
        for k in ox:
            d = obs_diff(ox[k], oy.get(k, {"exc": "missing"}), k)
            if d:
                fails.append(("content-equal", "%s%s: %s" % (w, tname, d)))
                break
    if with_units and hasattr(x, "iterate_units"):
        try:
            units = list(x.iterate_units())
        except Exception:  # noqa
            units = []
        for i, u in enumerate(units):
            fails += check_object(u, "%sunit %d" % (w, i + 1))
    return fails


def read_streams(r):
    """history 'read-first': read every image / attachment stream to its end"""
    n = 0
    seen = []
    try:
        seen += list(r.iterate_images())
    except Exception:  # noqa
        pass
    for img in seen:
        try:
            img.get_bytes().read()
            n += 1
        except Exception:  # noqa
            pass
    for a in getattr(r, "attachments", None) or []:
        d = getattr(a, "data", None)
        if isinstance(d, io.BytesIO):
            d.read()
            n += 1
    # streams held directly in fields (not only those handed out by get_bytes)
    stack = [r]
    depth = 0
    while stack and depth < 200000:
        depth += 1
        v = stack.pop()
        if isinstance(v, io.BytesIO):
            v.read()
        elif dataclasses.is_dataclass(v) and not isinstance(v, type):
            stack += [getattr(v, f.name, None) for f in dataclasses.fields(v)]
        elif isinstance(v, dict):
            stack += list(v.values())
        elif isinstance(v, (list, tuple)):
            stack += list(v)
    return n


# ================================================================================================= corpus part

def _extract_bytes(name, data):
    from sharepoint2text.parsing.router import get_extractor
    return list(get_extractor(name)(io.BytesIO(data), name))


def _with_attachments(results):
    out = list(results)
    for r in results:
        if hasattr(r, "iterate_supported_attachments"):
            try:
                out += list(r.iterate_supported_attachments())
            except Exception:  # noqa
                pass
    return out


def _load(fmt, case):
    """-> callable producing a fresh list of results, or raises (render problem)"""
    if fmt == "fixture":
        import sharepoint2text
        path = os.path.join(RES_DIR, case["path"])
        return lambda: list(sharepoint2text.read_file(path))
    name, data = G.render(case["gen"])
    return lambda: _extract_bytes(name, data)


def evaluate_corpus(fmt, case):
    """-> (fails, outcome)"""
    try:
        load = _load(fmt, case)
    except Exception as e:  # noqa  (the writer cannot express the shrunk document: not a case)
        return [], "unrenderable:" + type(e).__name__
    try:
        results = _with_attachments(load())
    except Exception as e:  # noqa  (no result: outside the quantifier of C05)
        return [], "no-result:" + type(e).__name__
    hist = case.get("hist", "json-first")
    fails = []
    if hist == "read-first":
        try:
            fresh = _with_attachments(load())
            j0 = [cj(r.to_json()) for r in fresh]
        except Exception:  # noqa
            j0 = None
        for r in results:
            read_streams(r)
        if j0 is not None and len(j0) == len(results):
            for i, r in enumerate(results):
                try:
                    j1 = cj(r.to_json())
                except Exception:  # noqa
                    continue
                if j1 != j0[i]:
                    fails.append(("stream-position", "result %d (%s): to_json() after reading the streams differs at %s"
                                  % (i, type(r).__name__, first_diff(json.loads(j0[i]), json.loads(j1)))))
    for i, r in enumerate(results):
        fails += check_object(r, "result %d" % i, with_units=True)
    seen = set()
    out = []
    for c, m in fails:
        if c not in seen:
            seen.add(c)
            out.append((c, m))
    oc = "%s|%s" % (",".join(sorted({type(r).__name__ for r in results})), ",".join(sorted(seen)))
    if "gen" in case and case["gen"].get("fmt") == "edge":
        oc += "|decor:" + _decor_fate(case["gen"], results)
    return out, oc


def _decor_fate(g, results):
    """what became of the decorated text in the first result (coverage only: shows that the family is not vacuous)"""
    try:
        text = G.edge_text(g)
        ft = results[0].get_full_text().replace("\r\n", "\n") if results else None
    except Exception:  # noqa
        return "n/a"
    text = text.replace("\r\n", "\n")
    if ft == text:
        return "kept"
    if ft is not None and ft == text.strip():
        return "stripped"
    if ft is not None and ft.strip() == text.strip().lstrip("\ufeff").strip():
        return "bom-dropped"
    return "other"


# ================================================================================================= instance part

_DOM = {}


def _domains(seed):
    d = _DOM.get(seed)
    if d is None:
        d = I.Domains(seed)
        _DOM[seed] = d
    return d


def evaluate_instance(case, seed):
    D = _domains(seed)
    try:
        x, unreach = D.build(case)
    except (KeyError, TypeError) as e:
        return [], "unbuildable:" + type(e).__name__
    fails = check_object(x)
    seen = set()
    out = []
    for c, m in fails:
        if c not in seen:
            seen.add(c)
            out.append((c, m + " [instance %s]" % _short(x)))
    if unreach:
        # the instance holds a value no extraction can put there: it is outside the statement's quantifier ("every extraction
        # result"). The outcome is counted in the coverage (outcome class "any|...") but is not a failure of the property.
        return [], "any|" + ",".join(sorted(seen))
    return out, "reach|" + ",".join(sorted(seen))


# ================================================================================================= CLI part

def evaluate_cli(case):
    import sharepoint2text
    from sharepoint2text import cli
    from sharepoint2text.parsing.extractors.serialization import serialize_extraction
    tmp = None
    try:
        if "fixture" in case:
            path = os.path.join(RES_DIR, case["fixture"])
        else:
            try:
                name, data = G.render(case["gen"])
            except Exception as e:  # noqa
                return [], "unrenderable:" + type(e).__name__
            tmp = tempfile.mkdtemp(prefix="c05cli_")
            path = os.path.join(tmp, name)
            with open(path, "wb") as f:
                f.write(data)
        try:
            results = list(sharepoint2text.read_file(path))
        except Exception as e:  # noqa
            return [], "no-result:" + type(e).__name__
        if not results:
            return [], "no-result:empty"
        binary = bool(case["binary"])
        try:
            if case["mode"] == "json":
                per = [r.to_json() if binary else serialize_extraction(r, include_binary=False) for r in results]
            else:
                per = [[(u.to_json() if binary else serialize_extraction(u, include_binary=False)) for u in r.iterate_units()] for r in results]
            expected = per[0] if len(results) == 1 else per
            exp = cj(json.loads(json.dumps(expected)))
        except Exception as e:  # noqa  (judged by clause dumps in the corpus part)
            return [], "expected-not-serialisable:" + type(e).__name__
        flag = "--json" if case["mode"] == "json" else "--json-unit"
        argv = [flag, path] if case.get("order", 0) == 0 else [path, flag]
        if binary:
            argv.append("--binary")
        enc = case.get("enc")
        out, err = (io.TextIOWrapper(io.BytesIO(), encoding=enc, errors="strict", write_through=True) if enc else io.StringIO()), io.StringIO()
        try:
            with contextlib.redirect_stdout(out), contextlib.redirect_stderr(err):
                rc = cli.main(argv)
        except BaseException as e:  # noqa
            return [("cli-equal", "cli.main(%s) raised %s: %s" % (argv[:1] + argv[2:], type(e).__name__, e))], "cli-raises"
        text = out.buffer.getvalue().decode(enc) if enc else out.getvalue()
        shown = [a if a != path else os.path.basename(path) for a in argv]
        if rc != 0:
            return [("cli-equal", "cli.main(%s) returned %r, stderr %r" % (shown, rc, err.getvalue()[:300]))], "rc"
        try:
            got = json.loads(text)
        except Exception as e:  # noqa
            return [("cli-equal", "cli.main(%s): stdout is not one JSON document (%s): %r" % (shown, e, text[:200]))], "notjson"
        if len(results) == 1 and case["mode"] == "json" and not isinstance(got, dict):
            return [("cli-equal", "cli.main(%s): one result but stdout is a %s" % (shown, type(got).__name__))], "shape"
        if len(results) > 1 and (not isinstance(got, list) or len(got) != len(results)):
            return [("cli-equal", "cli.main(%s): %d results but stdout is %s" % (shown, len(results), _short(got)))], "shape"
        if cj(got) != exp:
            return [("cli-equal", "cli.main(%s): stdout differs from the serialised results at %s" % (shown, first_diff(json.loads(exp), got)))], "diff"
        return [], "ok:%s:%d" % ("obj" if isinstance(got, dict) else "arr", len(results))
    finally:
        if tmp:
            shutil.rmtree(tmp, ignore_errors=True)


# ================================================================================================= dispatch / triage hooks

def evaluate(fmt, case, seed=0):
    if fmt == "instance":
        return evaluate_instance(case, seed)
    if fmt == "cli":
        return evaluate_cli(case)
    return evaluate_corpus(fmt, case)


def reexec(fmt, case):
    return evaluate(fmt, case, _seed())[0]


import re as _re

_NONJSON_RE = _re.compile(r"(?<![A-Za-z_])(datetime|date|time|timedelta|decimal)(?![A-Za-z_])")
NORM_CELL = ["s", "Cbbbbb"]
NORM_B64 = ["s", "QUJD"]
_UNREACH = {}


def _unreach_label(cls_name, field, label):
    m = _UNREACH.get(cls_name)
    if m is None:
        try:
            D = _domains(_seed())
            m = {(f, l): u for f, l, u in D.deviations(D.reg[cls_name])}
        except Exception:  # noqa
            m = {}
        _UNREACH[cls_name] = m
    return bool(m.get((field, label), False))


def label_sig(label, unreach=False):
    """coarse root-cause signature of a deviation label: which marker keys stand in KEY position / non-JSON leaf types"""
    sig = [k for k in ("_type", "_bytesio", "_bytes") if ("{%s:" % k) in label or (",%s:" % k) in label]
    if _NONJSON_RE.search(label):
        return ("nonjson",) if unreach else tuple(sig + ["nonjson"])
    if unreach and sig:
        sig = ["marker-dict"]
    return tuple(sig)


def case_sig(case, i):
    fn, lb = case["dev"][i]
    return label_sig(lb, _unreach_label(case["cls"], fn, lb))


def _sheet_norm_shrinks(g):
    """replace one spreadsheet cell by a plain token cell (keeps the minimal sheet free of incidental cell kinds)"""
    doc = g.get("doc")
    if not (isinstance(doc, list) and len(doc) == 3):
        return
    for si, sh in enumerate(doc[2]):
        if not (isinstance(sh, list) and sh and sh[0] == "sheet" and len(sh) >= 3):
            continue
        width = max((len(r) for r in sh[2]), default=0)
        if width > 1:
            for ci in range(width):          # delete a whole column
                d = json.loads(json.dumps(doc))
                d[2][si][2] = [r[:ci] + r[ci + 1:] for r in sh[2]]
                yield dict(g, doc=d)
        for ri, row in enumerate(sh[2]):
            for ci, cell in enumerate(row):
                if cell is not None and not isinstance(cell, list):
                    continue
                rank = 2 if cell is None else (0 if (cell[0] == "s" and F.is_token(cell[1])) else (1 if cell == NORM_B64 else 2))
                for r, cand in ((0, NORM_CELL), (1, NORM_B64)):
                    if r < rank:
                        d = json.loads(json.dumps(doc))
                        d[2][si][2][ri][ci] = list(cand)
                        yield dict(g, doc=d)


def shrinks(case):
    if "cls" in case:
        for i in range(len(case["dev"])):
            yield {"cls": case["cls"], "dev": case["dev"][:i] + case["dev"][i + 1:]}
        try:
            D = _domains(_seed())
            devs = D.deviations(D.reg[case["cls"]])
        except Exception:  # noqa
            devs = []
        for i, (fn, lb) in enumerate(case["dev"]):
            un = _unreach_label(case["cls"], fn, lb)
            sig = label_sig(lb, un)
            for f2, l2, u2 in devs:
                if f2 != fn:
                    continue
                if l2 == lb:
                    break
                if u2 == un and label_sig(l2, u2) == sig:
                    yield {"cls": case["cls"], "dev": case["dev"][:i] + [[fn, l2]] + case["dev"][i + 1:]}
        return
    if "mode" in case:       # cli
        if case.get("order"):
            yield dict(case, order=0)
        if case["binary"]:
            yield dict(case, binary=False)
        if "gen" in case:
            for g in F.generic_shrinks(case["gen"]):
                yield dict(case, gen=g)
        return
    if case.get("hist") == "read-first":
        yield dict(case, hist="json-first")
    if "gen" in case and case["gen"].get("fmt") == "edge":
        g = case["gen"]
        for k in ("pre", "mid", "suf"):
            seq = g.get(k)
            for i in range(len(seq or [])):
                if k == "mid" and len(seq) == 1:
                    continue
                yield dict(case, gen=dict(g, **{k: seq[:i] + seq[i + 1:]}))
        names = [n for n, _ in G.DECOR]
        for k in ("pre", "mid", "suf"):          # an earlier symbol of the alphabet in the same place (one mechanism, one minimal case)
            seq = g.get(k)
            for i, x in enumerate(seq or []):
                for y in names[:names.index(x)] if x in names else []:
                    yield dict(case, gen=dict(g, **{k: seq[:i] + [y] + seq[i + 1:]}))
        if g.get("enc", "utf-8") != "utf-8":
            yield dict(case, gen=dict(g, enc="utf-8"))
        return
    if "gen" in case and case["gen"].get("fmt") == "hdr":
        g = case["gen"]
        devs = g.get("devs") or []
        for i in range(len(devs)):
            yield dict(case, gen=dict(g, devs=devs[:i] + devs[i + 1:]))
        if g.get("le", "lf") != "lf":
            yield dict(case, gen=dict(g, le="lf"))
        for i, (h, pos, sp) in enumerate(devs):      # an earlier spelling / position of the same header (one mechanism, one minimal case)
            if pos is None:
                continue
            for sp2 in G.HDR_SPELL[1:G.HDR_SPELL.index(sp)] if sp in G.HDR_SPELL else []:
                yield dict(case, gen=dict(g, devs=devs[:i] + [[h, pos, sp2]] + devs[i + 1:]))
            names = [n for n, _ in G.HDR_POS.get(h, [])]
            for p2 in names[:names.index(pos)] if pos in names else []:
                yield dict(case, gen=dict(g, devs=devs[:i] + [[h, p2, sp]] + devs[i + 1:]))
        return
    if "gen" in case:
        g = case["gen"]
        if g.get("images") and not _uses_images(g):
            yield dict(case, gen=dict(g, images={}))
        if g.get("opts"):
            yield dict(case, gen=dict(g, opts={}))
        if g.get("fmt") in ("zip", "tar", "7z") and len(g.get("members", [])) >= 1:
            for i in range(len(g["members"])):
                yield dict(case, gen=dict(g, members=g["members"][:i] + g["members"][i + 1:]))
        for s in _sheet_norm_shrinks(g):
            yield dict(case, gen=s)
        for s in F.generic_shrinks(g):
            yield dict(case, gen=s)


def _uses_images(g):
    return '"img"' in json.dumps(g.get("doc")) or bool(g.get("opts")) or "images" in json.dumps(g.get("doc"))


def embeds(small, big):
    if ("cls" in small) != ("cls" in big) or ("mode" in small) != ("mode" in big):
        return False
    if "cls" in small:
        if small["cls"] != big["cls"]:
            return False
        for fn, lb in small["dev"]:
            un = _unreach_label(small["cls"], fn, lb)
            sig = label_sig(lb, un)
            if not any(f2 == fn and (l2 == lb or (sig and _unreach_label(big["cls"], f2, l2) == un and label_sig(l2, un) == sig))
                       for f2, l2 in big["dev"]):
                return False
        return True
    if "mode" in small:
        if small["mode"] != big["mode"] or (small["binary"] and not big["binary"]) or (small.get("order") and not big.get("order")) \
                or (small.get("enc") and small.get("enc") != big.get("enc")):
            return False
        if "fixture" in small or "fixture" in big:
            return small.get("fixture") == big.get("fixture")
        return small["gen"].get("fmt") == big["gen"].get("fmt") and F.embeds(small["gen"], big["gen"])
    if small.get("hist") == "read-first" and big.get("hist") != "read-first":
        return False
    if "path" in small or "path" in big:
        return small.get("path") == big.get("path")
    return small["gen"].get("fmt") == big["gen"].get("fmt") and F.embeds(_core(small["gen"]), _core(big["gen"]))


def _core(g):
    return {k: v for k, v in g.items() if k in ("doc", "spec", "specs", "members", "kind", "pre", "mid", "suf", "enc", "devs", "le")}


def fingerprint_view(case):
    if "cls" in case and case["dev"] and all(_unreach_label(case["cls"], fn, lb) and label_sig(lb, True) for fn, lb in case["dev"]):
        # values no extractor produces: one finding per mechanism (marker-looking dict / non-JSON leaf), whatever the class
        return {"any-domain": sorted({s for fn, lb in case["dev"] for s in label_sig(lb, True)})}
    if "gen" in case and "mode" not in case:
        return {"hist": case.get("hist"), "gen": {k: v for k, v in case["gen"].items() if k != "images" or v}}
    return case


# ================================================================================================= enumeration

def fixture_files():
    out = []
    for root, _, files in sorted(os.walk(RES_DIR)):
        for f in sorted(files):
            out.append(os.path.relpath(os.path.join(root, f), RES_DIR))
    return sorted(out)


def corpus_cases(tier, seed):
    out = []
    for rel in fixture_files():
        for h in HISTS:
            out.append(("fixture", {"path": rel, "hist": h}))
    for fmt, g in G.rich_cases(seed):
        for h in HISTS:
            out.append(("gen:" + fmt, {"gen": g, "hist": h}))
    for fmt, g in G.sheet_cases(tier, seed):
        out.append(("gen:" + fmt, {"gen": g, "hist": "json-first"}))
    for fmt, g in G.edge_cases(tier, seed):
        out.append(("gen:" + fmt, {"gen": g, "hist": "json-first"}))
    for fmt, g in G.header_cases(tier, seed):
        out.append(("gen:" + fmt, {"gen": g, "hist": "json-first"}))
    return out


def cli_cases(tier, seed):
    srcs = [{"fixture": f} for f in CLI_FIXTURES]
    srcs += [{"gen": G.small_case(f, seed)} for f in CLI_GEN_FORMATS]
    srcs += [{"gen": g} for _, g in G.mail_cases(seed)] + [{"gen": g} for _, g in G.archive_cases(seed)]
    srcs += [{"gen": g} for _, g in G.header_cases("quick", seed) if len(g["devs"]) == 1 and g["devs"][0] in CLI_HDR_DEVS]
    if tier != "quick":
        srcs += [{"gen": g} for f, g in G.rich_cases(seed) if f in G.ADM_FORMATS]
    out = []
    for s in srcs:
        for mode in ("json", "json-unit"):
            for binary in (False, True):
                for order in (0, 1):
                    out.append(("cli", dict(s, mode=mode, binary=binary, order=order)))
            # the same JSON must arrive whatever the encoding of stdout is (a pipe under LANG=C, a cp1252 console ...)
            out.append(("cli", dict(s, mode=mode, binary=False, order=0, enc="ascii")))
    return out


def decor_level(tier, cls=None):
    """decoration level (c05_instances.DECOR_BOUNDS) of the decorated strings in the instance part"""
    if tier == "quick":
        return 1
    return 3 if (cls is not None and I.has_ctor_code(cls)) else 2


def instance_tasks(tier, seed):
    D = _domains(seed)
    md = 1 if tier == "quick" else 2
    tasks = []
    skipped = []
    for name in sorted(D.reg):
        cls = D.reg[name]
        if not I.instantiable(cls):
            skipped.append(name)
            continue
        n = D.count(cls, md, decor_level(tier, cls))
        parts = max(1, n // 1500)
        for k in range(parts):
            tasks.append(("instances", tier, seed, name, k, parts))
    return tasks, skipped


# ================================================================================================= workers

def _work(arg):
    kind = arg[0]
    ev = 0
    fails = []
    outcomes = {}
    samples = []
    if kind == "instances":
        _, tier, seed, name, k, parts = arg
        D = _domains(seed)
        md = 1 if tier == "quick" else 2
        for i, case in enumerate(D.cases(D.reg[name], md, decor_level(tier, D.reg[name]))):
            if i % parts != k:
                continue
            try:
                f, oc = evaluate_instance(case, seed)
            except Exception as e:  # noqa
                f, oc = [("harness", "%s: %s" % (type(e).__name__, e))], "harness"
            ev += 1
            outcomes[oc] = outcomes.get(oc, 0) + 1
            for c, m in f:
                fails.append((c, "instance", case, m))
            if i in (0, 5) and k == 0 and name in ("XlsSheet", "EmailAttachment"):
                samples.append({"fmt": "instance", "case": case, "outcome": oc})
        return {"ev": ev, "fails": fails, "outcomes": outcomes, "samples": samples}
    _, seed, cases = arg
    for fmt, case in cases:
        P.note([fmt, str(case)[:200]])
        try:
            f, oc = evaluate(fmt, case, seed)
        except Exception as e:  # noqa
            f, oc = [("harness", "%s: %s" % (type(e).__name__, e))], "harness"
        ev += 1
        outcomes[oc] = outcomes.get(oc, 0) + 1
        for c, m in f:
            fails.append((c, fmt, case, m))
        if len(samples) < 1 and fmt != "fixture":
            samples.append({"fmt": fmt, "case": case, "outcome": oc})
    return {"ev": ev, "fails": fails, "outcomes": outcomes, "samples": samples}


def run(ctx):
    seed = ctx.seed
    herr = []
    reg = I.registry()
    if G.CLASS_NAME not in reg or any(f.default is dataclasses.MISSING and f.default_factory is dataclasses.MISSING
                                       for f in dataclasses.fields(reg[G.CLASS_NAME])):
        herr.append("marker vocabulary: %s is not a registered all-default dataclass any more" % G.CLASS_NAME)
    try:
        itasks, skipped = instance_tasks(ctx.tier, seed)
    except TypeError as e:
        herr.append("type-directed instances: %s" % e)
        itasks, skipped = [], []
    corpus = corpus_cases(ctx.tier, seed)
    cli = cli_cases(ctx.tier, seed)
    tasks = list(itasks)
    heavy = [c for c in corpus if c[0] == "fixture"] + [c for c in corpus if c[0] != "fixture" and c[1]["hist"] == "read-first"] + \
            [c for c in corpus if c[0] != "fixture" and c[1]["hist"] != "read-first" and c[1]["gen"]["fmt"] not in ("xlsx", "xls", "ods", "edge", "hdr")]
    heavy_ids = {id(c) for c in heavy}
    light = [c for c in corpus if id(c) not in heavy_ids]
    for c in heavy:
        tasks.append(("cases", seed, [c]))
    for i in range(0, len(light), 25):
        tasks.append(("cases", seed, light[i:i + 25]))
    for i in range(0, len(cli), 8):
        tasks.append(("cases", seed, cli[i:i + 8]))
    random.Random(seed).shuffle(tasks)
    # largest first is not needed: tasks are small; fixtures are single tasks
    res = P.run_all("verif.props.C05", "_work", tasks, n=ctx.ncpu, hard_timeout=900)
    ev = 0
    fails = []
    outcomes = {}
    samples = []
    per_part = {}
    for (st, r, note), a in zip(res, tasks):
        if st != "done":
            herr.append("task %s failed: %s: %s (last case %s)" % (str(a)[:120], st, str(r)[-500:], note))
            continue
        ev += r["ev"]
        part = "instance" if a[0] == "instances" else None
        for c, fmt, case, m in r["fails"]:
            if c == "harness":
                herr.append("%s %s: %s" % (fmt, str(case)[:200], m))
            else:
                fails.append((c, fmt, case, m))
        for k, v in r["outcomes"].items():
            outcomes[k] = outcomes.get(k, 0) + v
        samples += r["samples"]
        if part:
            per_part[part] = per_part.get(part, 0) + r["ev"]
        else:
            for fmt, _ in a[2]:
                p = fmt.split(":")[0]
                per_part[p] = per_part.get(p, 0) + 1
    nores = {k: v for k, v in outcomes.items() if k.startswith(("no-result", "unrenderable", "unbuildable", "expected-not"))}
    for k in nores:
        if k.startswith(("unrenderable", "unbuildable")):
            herr.append("%d enumerated cases could not be built (%s)" % (nores[k], k))
    samples = sorted(samples, key=lambda s: (s["fmt"], json.dumps(F.abstract(s["case"]), sort_keys=True)))
    pick = []
    pref = {"instance": 0, "gen:xls": 1, "cli": 2, "gen:eml": 3, "gen:docx": 4, "gen:zip": 5}
    for s in sorted(samples, key=lambda s: pref.get(s["fmt"], 9)):
        if s["fmt"] not in [p["fmt"] for p in pick]:
            pick.append(s)
    cov = {"evaluations": ev, "distinct_nontrivial": len(outcomes), "exhaustive": True,
           "rule": "(a) every accepted fixture and one rich generated document per format x {json-first, read-first}, plus the full "
                   "header-vocabulary x body-vocabulary product of 2-column xlsx/xls/ods sheets and every typed cell kind at every position of "
                   "the small sheet shapes (bounds.typed_position_*), plus every decorated text (all sequences "
                   "over the 8-symbol alphabet DECOR up to the stated length, before / after / inside / around the text) as plain file and "
                   "as mail body, plus every (header, position, wire spelling) and (header, absent | twice) of a raw one-part eml / mbox message "
                   "(thorough: also CRLF, and pairs of headers); (b) for every instantiable registered "
                   "dataclass (registry discovered reflectively) the baseline instance and every instance deviating in <= %d field(s) "
                   "over the per-type domains, every str field also over the decorated strings (single deviations); (c) cli.main on small generated documents, containers and %d fixtures x {--json, "
                   "--json-unit} x {--binary} x {flag position}. distinct_nontrivial = distinct (result classes | failed clauses) outcomes"
                   % (1 if ctx.quick else 2, len(CLI_FIXTURES)),
           "per_part": per_part, "registry_classes": len(reg), "not_instantiable": skipped,
           "outcomes": dict(sorted(outcomes.items(), key=lambda kv: -kv[1])[:60]), "not_results": nores,
           "samples": [{"fmt": s["fmt"], "case": _clip(s["case"]), "outcome": s["outcome"]} for s in pick[:6]],
           "bounds": {"tier": ctx.tier, "instance_deviations": 1 if ctx.quick else 2, "fixtures": len(fixture_files()),
                      "sheet_cases": len(G.sheet_cases(ctx.tier, seed)), "cli_cases": len(cli),
                      "typed_position_shapes": [list(x) for x in (G.SHEET_SHAPES_QUICK if ctx.quick else G.SHEET_SHAPES_THOROUGH)],
                      "typed_position_kinds": [c[0] for c in G.TYPED_CELLS if c is not None],
                      "typed_position_pairs_2x2": not ctx.quick,
                      "decor_alphabet": [n for n, _ in I.DECOR], "decor_len_instance": I.DECOR_BOUNDS[decor_level(ctx.tier)],
                      "decor_strings_per_str_field": len(I.decor_sequences(decor_level(ctx.tier))),
                      "decor_deep_classes": ([] if ctx.quick else sorted(n for n, c in reg.items() if I.instantiable(c) and I.has_ctor_code(c))),
                      "decor_text_cases": _count_by_kind(G.edge_cases(ctx.tier, seed)),
                      "header_names": list(G.HDR_NAMES), "header_positions": sum(len(v) for v in G.HDR_POS.values()),
                      "header_spellings": list(G.HDR_SPELL) + list(G.HDR_PSEUDO),
                      "header_pair_spellings": [] if ctx.quick else list(G.HDR_PAIR_SPELL),
                      "header_line_ends": ["lf"] if ctx.quick else ["lf", "crlf"],
                      "header_cases": _count_by_kind(G.header_cases(ctx.tier, seed))}}
    return {"coverage": cov, "failures": fails, "harness_errors": herr,
            "assumptions": [
                "inputs the extractors reject (password-protected / empty fixtures) produce no result and are outside the quantifier",
                "'same object' is judged through the observables the statement lists (type, to_json, full text, units, tables, image / "
                "attachment bytes) plus the kind of every nested value (content vs bytes / BytesIO / dataclass); list vs tuple, dict key "
                "order and the stream position of a rebuilt BytesIO are not judged",
                "accessors that raise on the ORIGINAL type-directed instance (the instance is outside what the accessor supports) are not judged",
                "any-domain: dict keys of Dict[str, str] fields (HtmlContent.headings / links, EpubContent.toc) are literals of the extractor "
                "code (read in html_extractor.py / epub_extractor.py), so marker keys there are classed with the unreachable Any values; "
                "XlsSheet rows (Dict[str, Any]) are keyed by header cells and are reachable",
                "registered Protocol dataclasses (TableInterface, UnitMetadataInterface) cannot be instantiated and are only exercised through their subclasses",
                "nested dataclass values are taken at their baseline / minimal / one-subclass instance: every registered class is itself a root, "
                "and the serialiser is compositional",
                "decorated texts as files: the text an extractor result holds is whatever the library's charset detection makes of the bytes "
                "(short texts with U+200B / NUL are sometimes decoded as a legacy code page); the oracle compares the result with its own "
                "round trip only, the fate of the decoration is reported as outcome class",
                "header spellings: a message the reader rejects as a whole (e.g. mbox with a raw 8-bit From, an encoded-word with invalid "
                "base64) produces no result and is outside the quantifier; it is counted under not_results",
                "thorough, decorated strings of length 3: only for classes with constructor code of their own (from_json re-runs constructors; "
                "the serialiser itself treats strings by type, not by class, so lengths <= 2 on every class cover it)",
                "NaN / infinite floats are not in the float domain (JSON has no spelling for them; the statement names the standard encoder only)",
                "CLI: the expected value is computed from a second read_file() of the same path in the same process (relies on C06 determinism)",
                "--json-unit shape for several results (array of arrays) is taken from the README CLI table",
            ]}


def _count_by_kind(cases):
    out = {}
    for k, g in cases:
        key = k if g.get("enc", "utf-8") == "utf-8" else "%s(%s)" % (k, g["enc"])
        out[key] = out.get(key, 0) + 1
    return out


def _clip(case):
    s = json.dumps(case)
    return case if len(s) < 700 else json.loads(json.dumps({"clipped": s[:700]}))
