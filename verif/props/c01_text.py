"""C01 helper: the text-carrier family T - small documents whose EXTRACTED TEXT holds one character of a chosen class.

C01's CLI clause is about what reaches stdout, and stdout is a byte stream with an encoding: whether a result can be printed
depends on the characters in it.  Byte mutations of ASCII seeds never produce such characters, so this family supplies them:

    document(carrier, cls) -> bytes          carrier in CARRIERS, cls in CHARS;   NotImplementedError if inexpressible

Character classes (one representative each): ascii, latin1 (U+00FC), cp1252 (U+20AC: in cp1252, not in Latin-1), bmp (U+4E2D),
astral (U+1F600), sur-hi (lone U+D800), sur-lo (lone U+DC80 - also the range `surrogateescape` uses).
Carriers: how the character travels.  Text files (UTF-8, UTF-16 with BOM), HTML with a declared charset (utf-8, utf-7,
unicode_escape) or as a numeric character reference, e-mail / mbox / MHTML parts with a declared charset (utf-8, utf-7; base64),
RTF \\uN escapes (any UTF-16 code unit), XML packages (docx, pptx, xlsx, odt), PDF page text (WinAnsi only), BIFF8 and PowerPoint
UTF-16LE strings.  Lone surrogates are carried where the wire format can hold them: utf-7 / unicode_escape / UTF-16 code units /
CESU-style UTF-8 bytes / RTF \\uN; XML and PDF cannot (inexpressible).
"""
from __future__ import annotations

import base64

CHARS = {"ascii": "q", "latin1": "\u00fc", "cp1252": "\u20ac", "bmp": "\u4e2d", "astral": "\U0001f600", "sur-hi": "\ud800",
         "sur-lo": "\udc80"}
A, B = "Bkqzv", "Bwrtn"
_PH = "\ue000"              # placeholder (private use) patched to a surrogate code unit in UTF-16LE streams


def _payload(cls: str) -> str:
    return f"{A} {CHARS[cls]} {B}"


def _utf7(s: str) -> bytes:
    out = bytearray()
    for ch in s:
        if ch.isascii() and ch != "+":
            out += ch.encode("ascii")
        else:
            out += b"+" + base64.b64encode(ch.encode("utf-16-be", "surrogatepass")).rstrip(b"=") + b"-"
    return bytes(out)


def _wire(s: str, label: str) -> bytes:
    if label == "utf-7":
        return _utf7(s)
    if label == "unicode_escape":
        return s.encode("unicode_escape")
    if label == "utf-8":
        return s.encode("utf-8", "surrogatepass")
    if label == "utf-16":
        return b"\xff\xfe" + s.encode("utf-16-le", "surrogatepass")
    return s.encode(label)


def _html(cls: str, label: str, ncr: bool = False) -> bytes:
    body = f"{A} &#x{ord(CHARS[cls]):X}; {B}" if ncr else _payload(cls)
    head = f'<!DOCTYPE html><html><head><meta charset="{label}"><title>Ztitle</title></head><body><p>'
    return head.encode("ascii") + _wire(body, label) + b"</p></body></html>"


def _b64_lines(data: bytes) -> bytes:
    b = base64.b64encode(data)
    return b"\n".join(b[i:i + 76] for i in range(0, len(b), 76)) + b"\n"


def _eml(cls: str, label: str) -> bytes:
    head = ("From: Zfrom <a@h.example>\nTo: b@h.example\nSubject: Zsubject\nDate: Mon, 01 Jan 2024 00:00:00 +0000\n"
            f"Message-ID: <c01@h.example>\nMIME-Version: 1.0\nContent-Type: text/plain; charset=\"{label}\"\n"
            "Content-Transfer-Encoding: base64\n\n")
    return head.encode("ascii") + _b64_lines(_wire(_payload(cls) + "\n", label))


def _mbox(cls: str, label: str) -> bytes:
    return b"From a@h.example Mon Jan  1 00:00:00 2024\n" + _eml(cls, label) + b"\n"


def _mhtml(cls: str, label: str) -> bytes:
    head = ("From: <Saved by verif>\nSubject: Ztitle\nMIME-Version: 1.0\nContent-Type: multipart/related; type=\"text/html\"; "
            "boundary=\"----verifc01\"\n\n------verifc01\n"
            f"Content-Type: text/html; charset=\"{label}\"\nContent-Transfer-Encoding: base64\nContent-Location: http://h/p.html\n\n")
    return head.encode("ascii") + _b64_lines(_html(cls, label)) + b"------verifc01--\n"


def _rtf(cls: str) -> bytes:
    units = CHARS[cls].encode("utf-16-le", "surrogatepass")
    esc = "".join("\\u%d?" % (int.from_bytes(units[i:i + 2], "little") - (65536 if units[i + 1] >= 0x80 else 0))
                  for i in range(0, len(units), 2))
    return ("{\\rtf1\\ansi\\ansicpg1252\\deff0{\\fonttbl{\\f0 Helvetica;}}\\f0 " + f"{A} {esc} {B}" + "\\par}").encode("ascii")


def _doc(text: str):
    return ["doc", {}, [["unit", [["p", [["t", text]]]], {}]]]


def _sheet(text: str):
    return ["doc", {}, [["sheet", "Nsht", [[["s", text]]]]]]


def _xml_pkg(cls: str, kind: str) -> bytes:
    from verif.gen import odf, ooxml
    text = A + CHARS[cls] + B
    if kind == "xlsx":
        return ooxml.xlsx(_sheet(text))
    return {"docx": ooxml.docx, "pptx": ooxml.pptx, "odt": odf.odt}[kind](_doc(text))


def _pdf(cls: str) -> bytes:
    from verif.gen import pdfw
    return pdfw.pdf(_doc(A + CHARS[cls] + B))


def _utf16_patch(stream: bytes, cls: str) -> bytes:
    """replace the placeholder code unit by the lone surrogate (the writers refuse to encode one)"""
    old = (A[-1] + _PH).encode("utf-16-le")
    if stream.count(old) != 1:
        raise NotImplementedError("placeholder not found exactly once")
    return stream.replace(old, (A[-1]).encode("utf-16-le") + CHARS[cls].encode("utf-16-le", "surrogatepass"))


def _xls(cls: str) -> bytes:
    from verif.gen import biff8, cfb
    sur = cls.startswith("sur-")
    wb = biff8.workbook_stream(_sheet(A + (_PH if sur else CHARS[cls]) + B))
    if sur:
        wb = _utf16_patch(wb, cls)
    return cfb.cfb({"Workbook": wb}, {"clsid": {"": cfb.CLSID_XLS}})


def _ppt(cls: str) -> bytes:
    from verif.gen import cfb, pptbin
    sur = cls.startswith("sur-")
    ps = pptbin.ppt_streams(_doc(A + (_PH if sur else CHARS[cls]) + B), {}, None)
    if sur:
        ps = dict(ps)
        ps["PowerPoint Document"] = _utf16_patch(ps["PowerPoint Document"], cls)
    return cfb.cfb(ps, {"clsid": {"": cfb.CLSID_PPT}})


# carrier -> (file extension, extractor key, builder)
CARRIERS = {
    "txt-utf8": ("txt", "plain", lambda c: _wire(_payload(c) + "\n", "utf-8")),
    "txt-utf16": ("txt", "plain", lambda c: _wire(_payload(c) + "\n", "utf-16")),
    "html-utf8": ("html", "html", lambda c: _html(c, "utf-8")),
    "html-utf7": ("html", "html", lambda c: _html(c, "utf-7")),
    "html-uescape": ("html", "html", lambda c: _html(c, "unicode_escape")),
    "html-ncr": ("html", "html", lambda c: _html(c, "utf-8", ncr=True)),
    "eml-utf8": ("eml", "eml", lambda c: _eml(c, "utf-8")),
    "eml-utf7": ("eml", "eml", lambda c: _eml(c, "utf-7")),
    "mbox-utf7": ("mbox", "mbox", lambda c: _mbox(c, "utf-7")),
    "mhtml-utf7": ("mhtml", "mhtml", lambda c: _mhtml(c, "utf-7")),
    "rtf-u": ("rtf", "rtf", _rtf),
    "docx": ("docx", "docx", lambda c: _xml_pkg(c, "docx")),
    "pptx": ("pptx", "pptx", lambda c: _xml_pkg(c, "pptx")),
    "xlsx": ("xlsx", "xlsx", lambda c: _xml_pkg(c, "xlsx")),
    "odt": ("odt", "odt", lambda c: _xml_pkg(c, "odt")),
    "pdf": ("pdf", "pdf", _pdf),
    "xls": ("xls", "xls", _xls),
    "ppt": ("ppt", "ppt", _ppt),
}
_CACHE: dict = {}


def document(carrier: str, cls: str) -> bytes:
    key = (carrier, cls)
    if key not in _CACHE:
        try:
            _CACHE[key] = CARRIERS[carrier][2](cls)
        except (NotImplementedError, ValueError, UnicodeError) as e:
            _CACHE[key] = NotImplementedError(f"{carrier} cannot carry {cls}: {e}")
    v = _CACHE[key]
    if isinstance(v, Exception):
        raise v
    return v


def names() -> list:
    """'<carrier>/<class>' of every expressible document, in CARRIERS x CHARS order"""
    out = []
    for c in CARRIERS:
        for k in CHARS:
            try:
                document(c, k)
            except NotImplementedError:
                continue
            out.append(f"{c}/{k}")
    return out


def selftest() -> list:
    """writer validity on the unchanged library: every carrier's non-surrogate documents are accepted and give back A, B and the
    character (the character itself only where the carrier is a plain transport); -> problems"""
    import io
    from sharepoint2text.parsing.router import _get_extractor
    from verif.props.c01_seeds import EXTRACTORS
    bad = []
    for nm in names():
        c, k = nm.split("/")
        ext, to, _ = CARRIERS[c]
        if k.startswith("sur-"):
            continue                    # hostile by construction: what the library makes of them is the check's business
        try:
            res = list(_get_extractor(EXTRACTORS[to])(io.BytesIO(document(c, k)), "t." + ext))
            text = "\n".join(r.get_full_text() for r in res)
        except Exception as e:  # noqa
            bad.append(f"{nm}: {type(e).__name__}: {e}")
            continue
        if A not in text or B not in text:
            bad.append(f"{nm}: tokens missing in {text!r}")
        elif CHARS[k] not in text:
            bad.append(f"{nm}: character missing in {text!r}")
    return bad


if __name__ == "__main__":
    import sys
    problems = selftest()
    print("\n".join(problems) if problems else f"c01_text selftest ok ({len(names())} documents)")
    if "-v" in sys.argv:
        import io
        from sharepoint2text.parsing.router import _get_extractor
        from verif.props.c01_seeds import EXTRACTORS
        for nm in names():
            c, k = nm.split("/")
            if k.startswith("sur-"):
                ext, to, _ = CARRIERS[c]
                try:
                    res = list(_get_extractor(EXTRACTORS[to])(io.BytesIO(document(c, k)), "t." + ext))
                    print(nm, ascii("\n".join(r.get_full_text() for r in res)))
                except Exception as e:  # noqa
                    print(nm, type(e).__name__, e)
    raise SystemExit(1 if problems else 0)
