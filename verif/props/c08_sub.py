"""C08 helper: the three seams (direct extractor, read_file, cli.main) and the two child-process roles.

    run_seam(seam, ext, data) -> observation dict (plain JSON)
    python -m verif.props.c08_sub gen      stdin {"plain": b64, "alg", "user", "owner", ["perm": /P value]} -> {"enc": b64, "clone": b64, "kat": n}
        writes an AES-encrypted copy of a PDF with pypdf's PdfWriter after sharepoint2text's patch_pypdf_fallback_aes()
        (pypdf has no AES of its own here).  Runs in its OWN process so that the process which later extracts the file
        starts with an unpatched pypdf: the extractor's own fallback path is what decrypts.  secrets.token_bytes is
        replaced by a counter-based SHA-256 stream, so the output is a function of the job.  The library's AES primitives
        are compared with the independent reference (verif.ref.aes) on FIPS-197 vectors and on CBC blocks first ("kat").
    python -m verif.props.c08_sub extract  stdin {"pdf": b64, "seam", "ext", "warm": b64 | null} -> observation
        a fresh interpreter; with "warm" that PDF is extracted first (it leaves pypdf patched), then the case.
"""
from __future__ import annotations

import base64
import contextlib
import io
import json
import logging
import os
import subprocess
import sys
import tempfile
import warnings

ENC = "ExtractionFileEncryptedError"
FILE_META_KEYS = ("filename", "file_extension", "file_path", "folder_path")


def _quiet():
    warnings.simplefilter("ignore")
    logging.disable(logging.CRITICAL)


def strip_file_meta(x):
    """to_json() minus file metadata: drop the four path-derived keys wherever a metadata dict carries them."""
    if isinstance(x, dict):
        return {k: strip_file_meta(v) for k, v in x.items() if k not in FILE_META_KEYS}
    if isinstance(x, (list, tuple)):
        return [strip_file_meta(v) for v in x]
    if isinstance(x, (bytes, bytearray)):
        return "bytes:" + base64.b64encode(bytes(x)).decode("ascii")
    if isinstance(x, (str, int, float, bool)) or x is None:
        return x
    return repr(x)


def _exc_info(e):
    cause = e.__cause__
    return {"exc": type(e).__name__, "msg": str(e)[:200], "cause": (type(cause).__name__ + ": " + str(cause)[:120]) if cause is not None else None}


def _iterate(gen_factory, want_json):
    """Consume a result generator; returns observation with the number of results yielded before any exception."""
    obs = {"exc": None, "msg": None, "cause": None, "n": 0, "json": None}
    js = []
    try:
        for r in gen_factory():
            obs["n"] += 1
            if want_json:
                try:
                    js.append(strip_file_meta(r.to_json()))
                except Exception as e:  # noqa
                    js.append({"to_json_raises": type(e).__name__ + ": " + str(e)[:100]})
    except Exception as e:  # noqa
        obs.update(_exc_info(e))
    if want_json:
        obs["json"] = js
    return obs


def run_seam(seam: str, ext: str, data: bytes, want_json: bool = False) -> dict:
    """Observation: {"exc", "msg", "cause", "n" (results yielded before the exception / in total), "json",
    and for the CLI "rc", "stdout" (length), "stderr"}"""
    _quiet()
    import sharepoint2text
    if seam == "direct":
        fn = sharepoint2text.get_extractor("c08." + ext)
        return _iterate(lambda: fn(io.BytesIO(data), "c08." + ext), want_json)
    with tempfile.TemporaryDirectory(prefix="c08-") as d:
        path = os.path.join(d, "c08." + ext)
        with open(path, "wb") as f:
            f.write(data)
        if seam == "read_file":
            return _iterate(lambda: sharepoint2text.read_file(path), want_json)
        if seam in ("cli", "cli-json"):
            from sharepoint2text import cli
            rec = {"exc": None, "msg": None, "cause": None, "n": 0, "json": None}
            orig = sharepoint2text.read_file

            def spy(p, *a, **kw):
                # harness-side monitor: what leaves read_file inside the CLI (the CLI itself only prints str(exc))
                try:
                    for r in orig(p, *a, **kw):
                        rec["n"] += 1
                        yield r
                except Exception as e:  # noqa
                    rec.update(_exc_info(e))
                    raise
            out, err = io.StringIO(), io.StringIO()
            sharepoint2text.read_file = spy
            try:
                with contextlib.redirect_stdout(out), contextlib.redirect_stderr(err):
                    try:
                        rc = cli.main([path] + (["--json"] if seam == "cli-json" else []))
                    except SystemExit as e:
                        rc = e.code if isinstance(e.code, int) else 1
                    except Exception as e:  # noqa
                        rc = "escape:" + type(e).__name__
            finally:
                sharepoint2text.read_file = orig
            rec["rc"] = rc
            rec["stdout"] = len(out.getvalue().strip())
            rec["stderr"] = err.getvalue().strip()[:200]
            if want_json:
                rec["json"] = [out.getvalue().strip()]
            return rec
    raise ValueError(seam)


# ------------------------------------------------------------------------------------------------ child processes

def child(role: str, job: dict, timeout: float = 900.0) -> dict:
    env = dict(os.environ)
    root = os.path.dirname(os.path.dirname(os.path.dirname(os.path.abspath(__file__))))
    env["PYTHONPATH"] = root + (os.pathsep + env["PYTHONPATH"] if env.get("PYTHONPATH") else "")
    env.setdefault("PYTHONHASHSEED", "0")
    env["PYTHONDONTWRITEBYTECODE"] = "1"
    p = subprocess.run([sys.executable, "-B", "-m", "verif.props.c08_sub", role], input=json.dumps(job).encode(), stdout=subprocess.PIPE,
                       stderr=subprocess.PIPE, env=env, timeout=timeout)
    if p.returncode != 0:
        raise RuntimeError("c08_sub %s failed rc=%s: %s" % (role, p.returncode, p.stderr.decode("utf-8", "replace")[-800:]))
    return json.loads(p.stdout.decode())


def _det_token_bytes():
    import hashlib
    state = {"i": 0}

    def token_bytes(n=32):
        out = b""
        while len(out) < n:
            out += hashlib.sha256(b"c08-det-%d" % state["i"]).digest()
            state["i"] += 1
        return out[:n]
    return token_bytes


def _kat() -> int:
    """library AES (used to WRITE the test PDFs) against the independent reference; returns number of blocks compared"""
    from sharepoint2text.parsing.extractors.pdf import _pypdf_aes_fallback as L
    from verif.ref import aes as R
    n = 0
    vectors = [("000102030405060708090a0b0c0d0e0f", "00112233445566778899aabbccddeeff", "69c4e0d86a7b0430d8cdb78070b4c55a"),
               ("000102030405060708090a0b0c0d0e0f101112131415161718191a1b1c1d1e1f", "00112233445566778899aabbccddeeff", "8ea2b7ca516745bfeafc49904b496089")]
    for k, p, c in vectors:
        k, p, c = bytes.fromhex(k), bytes.fromhex(p), bytes.fromhex(c)
        if L.aes_ecb_encrypt(k, p) != c or R.ecb_encrypt(k, p) != c or L.aes_ecb_decrypt(k, c) != p:
            raise AssertionError("AES known-answer test failed for key size %d" % len(k))
        n += 1
    tb = _det_token_bytes()
    for ks in (16, 32):
        for blocks in (1, 2, 5):
            key, iv, data = tb(ks), tb(16), tb(16 * blocks)
            a = L.aes_cbc_encrypt(key, iv, data)
            if a != R.cbc_encrypt(key, iv, data) or L.aes_cbc_decrypt(key, iv, a) != data:
                raise AssertionError("AES-CBC library/reference mismatch (key %d, %d blocks)" % (ks, blocks))
            n += blocks
    return n


def _gen(job):
    _quiet()
    import secrets
    from sharepoint2text.parsing.extractors.pdf._pypdf_aes_fallback import patch_pypdf_fallback_aes
    kat = _kat()
    if not patch_pypdf_fallback_aes():
        raise RuntimeError("patch_pypdf_fallback_aes() returned False")
    secrets.token_bytes = _det_token_bytes()
    from pypdf import PdfReader, PdfWriter
    plain = base64.b64decode(job["plain"])
    w = PdfWriter(clone_from=PdfReader(io.BytesIO(plain)))
    b0 = io.BytesIO()
    w.write(b0)
    w = PdfWriter(clone_from=PdfReader(io.BytesIO(plain)))
    if job.get("perm") is None:
        w.encrypt(job["user"], job["owner"] or None, algorithm=job["alg"])
    else:
        from pypdf.constants import UserAccessPermissions
        w.encrypt(job["user"], job["owner"] or None, permissions_flag=UserAccessPermissions(job["perm"] & 0xFFFFFFFF), algorithm=job["alg"])
    b1 = io.BytesIO()
    w.write(b1)
    p_written = int(PdfReader(io.BytesIO(b1.getvalue())).trailer["/Encrypt"]["/P"])
    return {"enc": base64.b64encode(b1.getvalue()).decode(), "clone": base64.b64encode(b0.getvalue()).decode(), "kat": kat, "P": p_written}


def _extract(job):
    _quiet()
    if job.get("warm"):
        run_seam("direct", "pdf", base64.b64decode(job["warm"]))
    import pypdf._crypt_providers._fallback as fb
    state = "patched" if fb.aes_cbc_decrypt.__module__ != fb.__name__ else "unpatched"
    obs = run_seam(job["seam"], job.get("ext", "pdf"), base64.b64decode(job["pdf"]), want_json=True)
    obs["pypdf_before"] = state
    return obs


def main():
    role = sys.argv[1]
    job = json.loads(sys.stdin.buffer.read().decode())
    out = _gen(job) if role == "gen" else _extract(job)
    sys.stdout.write(json.dumps(out))


if __name__ == "__main__":
    main()
