"""C02 helper: *spelling variants* - other legal ways in which a source file writes the same abstract document.

A spelling variant never changes the ground truth of a term: the same visible texts, in the same order, with the same
boundaries, the same hidden texts.  It only changes the markup / byte spelling the reference writer uses for one construct.
Every family below is a closed, named list (the alphabet of the V-family of C02); nothing is sampled.

  HTML_BLOCK     containers of visible text that are neither <p> nor <td>: the element that holds a paragraph
                 (div, blockquote, pre, address, section, article, center, figure>figcaption, dl>dt, dl>dd), the paragraph in front of
                 a table written as that table's <caption>, header cells <th>, row groups thead/tbody/tfoot, ordered lists,
                 headings h4..h6
  HTML_BARE      anonymous text: a paragraph written as a bare text node of its parent (body, li, td, div ...) instead of an element of
                 its own - the text node in front of the first child element (mode head), the text node that directly follows the end
                 tag of a sibling block element, its "tail" (mode tail), or every paragraph that does not directly follow another bare
                 one (mode all; this includes the everyday <li>text</li>, <td>text</td>) - alone and combined with every HTML_BLOCK
                 spelling of the sibling elements (the tail of a captioned table, of a <th> table, of an <ol>, of a <pre>, of <h4> ...)
  HTML_SPLIT     inline markup inside a word: every text is written as first half + <b|i|em|strong|span|u|font|a|sup|sub|small|
                 mark|code>second half</..> (phrasing elements do not separate words)
  MIME_HDR       spellings of the MIME headers of the root part of an MHTML archive that RFC 2045 / 5322 declare equivalent:
                 case of the Content-Transfer-Encoding token, case of the header field names, case of the media type, an unquoted
                 or upper-case charset parameter, a trailing blank, a folded header line, header order, bare LF line ends -
                 each over both transfer encodings (quoted-printable, base64)
  RTF_U          spellings of a character as a \\uN escape: fallback "?", fallback \\'xx (the character's own code-page byte),
                 fallback = a plain letter, a blank delimiter in front of the fallback, no fallback under \\uc0, two fallback bytes
                 under \\uc2, the escape in a group of its own - applied to every character of every text, or to the second one only
  CELL_NOTE      a comment attached to a spreadsheet cell (ods office:annotation, xlsx comments part): hidden text
  NOTE_BODY      the body of such a comment is a block sequence of its own (ODF 1.2 part 1, 14.1: office:annotation holds
                 (text:p | text:list)*; ECMA-376 18.7.7: a comment text is a sequence of rich-text runs): paragraphs, bulleted /
                 numbered lists (nested), and inside a paragraph spans, line breaks and tabs - every leaf of it is hidden text
  ODF_NESTED     a text box anchored inside a paragraph of a drawing page (odg / odp: draw:frame > draw:text-box inside text:p)
"""
from __future__ import annotations

import base64
import io
import quopri
import re
import zipfile

# ====================================================================================================== HTML containers

# name -> (open, close) of the element(s) that hold one paragraph
HTML_P_AS = {
    "div": ("<div>", "</div>"),
    "blockquote": ("<blockquote>", "</blockquote>"),
    "pre": ("<pre>", "</pre>"),
    "address": ("<address>", "</address>"),
    "section": ("<section>", "</section>"),
    "article": ("<article>", "</article>"),
    "center": ("<center>", "</center>"),
    "figcaption": ("<figure><figcaption>", "</figcaption></figure>"),
    "dt": ("<dl><dt>", "</dt></dl>"),
    "dd": ("<dl><dd>", "</dd></dl>"),
}
HTML_TABLE_AS = ("caption", "th", "rowgroups")
HTML_OTHER_AS = ("ol", "h456")
HTML_BLOCK = tuple(HTML_P_AS) + HTML_TABLE_AS + HTML_OTHER_AS
HTML_BLOCK_QUICK = ("div", "blockquote", "pre", "figcaption", "dt", "dd", "caption", "th", "rowgroups", "ol", "h456")
HTML_BARE_MODES = ("tail", "head", "all")
# bare:<mode> (siblings spelled the ordinary way) and bare:<mode>:<sibling spelling>
HTML_BARE = tuple("bare:" + m for m in HTML_BARE_MODES) + tuple("bare:%s:%s" % (m, c) for m in HTML_BARE_MODES for c in HTML_BLOCK)
HTML_BARE_QUICK = ("bare:tail", "bare:head", "bare:all") + tuple("bare:tail:" + c for c in ("div", "pre", "dd", "caption", "th", "rowgroups", "ol", "h456")) \
    + ("bare:all:caption", "bare:head:ol")
HTML_SPLIT = ("b", "i", "em", "strong", "span", "u", "font", "a", "sup", "sub", "small", "mark", "code")
HTML_SPLIT_QUICK = ("b", "span", "a")


def _h_esc(s):
    return str(s).replace("&", "&amp;").replace("<", "&lt;").replace(">", "&gt;")


def _h_attr(s):
    return _h_esc(s).replace('"', "&quot;")


class HtmlAs:
    """ADM -> HTML body under one spelling variant (same mapping as verif.gen.htmlfam.html_blocks otherwise)"""

    def __init__(self, variant, xhtml=False, images=None):
        self.v = variant
        self.xhtml = xhtml
        self.images = images or {}
        self.split = variant[6:] if variant.startswith("split:") else None
        self.bare = None          # HTML_BARE mode: which paragraphs are written as bare text nodes of their parent
        self.bare_used = 0        # number of paragraphs written bare so far
        if variant.startswith("bare:"):
            if variant not in HTML_BARE:
                raise ValueError(variant)
            parts = variant.split(":")
            self.bare = parts[1]
            self.v = parts[2] if len(parts) > 2 else None      # spelling of the sibling elements (None: the ordinary one)
            return
        if self.split is None and variant not in HTML_BLOCK:
            raise ValueError(variant)
        if self.split is not None and self.split not in HTML_SPLIT:
            raise ValueError(variant)

    def text(self, s, in_a):
        if self.split is None or len(s) < 2:
            return _h_esc(s)
        el = self.split
        if el == "a" and in_a:
            el = "span"
        h = len(s) // 2
        attr = ' href="#x"' if el == "a" else ""
        return "%s<%s%s>%s</%s>" % (_h_esc(s[:h]), el, attr, _h_esc(s[h:]), el)

    def inlines(self, xs, in_a=False):
        out = []
        for x in xs:
            k = x[0]
            if k == "t":
                out.append(self.text(x[1], in_a))
            elif k == "tab":
                out.append("\t")
            elif k == "br":
                out.append("<br/>" if self.xhtml else "<br>")
            elif k == "a":
                if in_a:
                    raise NotImplementedError("nested hyperlinks cannot be expressed in HTML")
                out.append('<a href="%s">%s</a>' % (_h_attr(x[1]), self.inlines(x[2], True)))
            elif k == "cref":
                if "--" in x[1] or x[1].startswith(">") or x[1].endswith("-"):
                    raise NotImplementedError("comment text")
                out.append("<!--%s-->" % x[1])
            else:
                raise NotImplementedError("HTML inline %r" % (k,))
        return "".join(out)

    def para(self, xs):
        o, c = HTML_P_AS.get(self.v, ("<p>", "</p>"))
        return o + self.inlines(xs) + c

    def table(self, rows, caption):
        if not rows or any(not row for row in rows):
            raise NotImplementedError("an HTML table needs rows and cells")
        td = "th" if self.v == "th" else "td"
        trs = ["<tr>%s</tr>" % "".join("<%s>%s</%s>" % (td, self.blocks(c), td) for c in row) for row in rows]
        if self.v == "rowgroups":
            # the first row is the head, the last of >= 3 rows the foot, the rest the body
            head, body, foot = trs[:1], trs[1:], []
            if len(trs) >= 3:
                body, foot = trs[1:-1], trs[-1:]
            inner = "<thead>%s</thead>" % "".join(head)
            if body:
                inner += "<tbody>%s</tbody>" % "".join(body)
            if foot:
                inner += "<tfoot>%s</tfoot>" % "".join(foot)
        else:
            inner = "".join(trs)
        cap = "" if caption is None else "<caption>%s</caption>" % self.inlines(caption)
        return "<table>%s%s</table>" % (cap, inner)

    def blocks(self, bs):
        out = []
        i = 0
        prev_bare = False         # the previous block of this sequence is a bare text node (two adjacent ones would be ONE text node)
        while i < len(bs):
            b = bs[i]
            k = b[0]
            if k == "p":
                if self.v == "caption" and i + 1 < len(bs) and bs[i + 1][0] == "tbl":
                    out.append(self.table(bs[i + 1][1], b[1]))      # the paragraph in front of a table is its caption
                    i += 2
                    prev_bare = False
                    continue
                bare = False
                if self.bare and b[1] and not prev_bare:
                    first = not out
                    bare = {"tail": not first, "head": first and len(bs) > 1, "all": True}[self.bare]
                if bare:
                    out.append(self.inlines(b[1]))                  # anonymous text: no element of its own
                    self.bare_used += 1
                    prev_bare = True
                    i += 1
                    continue
                out.append(self.para(b[1]))
            elif k == "h":
                lvl = b[1] + 3 if self.v == "h456" else b[1]
                if lvl not in (1, 2, 3, 4, 5, 6):
                    raise NotImplementedError("heading level %r" % (b[1],))
                out.append("<h%d>%s</h%d>" % (lvl, self.inlines(b[2]), lvl))
            elif k == "ul":
                tag = "ol" if self.v == "ol" else "ul"
                out.append("<%s>%s</%s>" % (tag, "".join("<li>%s</li>" % self.blocks(it) for it in b[1]), tag))
            elif k == "tbl":
                out.append(self.table(b[1], None))
            elif k == "img":
                src = self.images.get(b[1], b[1])
                out.append('<p><img src="%s"%s></p>' % (_h_attr(src if isinstance(src, str) else b[1]), "/" if self.xhtml else ""))
            else:
                raise NotImplementedError("HTML block %r" % (k,))
            i += 1
            prev_bare = False
        return "".join(out)

    def body(self, doc, unit=None):
        for k in (doc[1] or {}):
            raise NotImplementedError("meta key %r is not written" % k)
        units = doc[2]
        if unit is None:
            if len(units) != 1:
                raise NotImplementedError("an HTML page is one unit")
            unit = 0
        u = units[unit]
        if u[0] != "unit":
            raise NotImplementedError("unit kind %r" % (u[0],))
        for k, v in ((u[2] if len(u) > 2 else None) or {}).items():
            if v:
                raise NotImplementedError("unit extra %r cannot be expressed in HTML" % k)
        return self.blocks(u[1])


def html_variant_applies(variant, doc):
    """the variant spells some construct of this document differently from the base writer"""
    def has(x, kind):
        if isinstance(x, list):
            return (bool(x) and x[0] == kind) or any(has(y, kind) for y in x)
        return False

    def p_before_tbl(x):
        if isinstance(x, list):
            if x and all(isinstance(y, list) and y and isinstance(y[0], str) for y in x):
                for a, b in zip(x, x[1:]):
                    if a[0] == "p" and b[0] == "tbl":
                        return True
            return any(p_before_tbl(y) for y in x)
        return False
    units = doc[2]
    if variant.startswith("bare:"):
        parts = variant.split(":")
        if len(parts) > 2 and not html_variant_applies(parts[2], doc):
            return False          # the sibling spelling changes nothing here: the term belongs to bare:<mode>
        w = HtmlAs(variant, True)
        try:
            for i in range(len(units)):
                w.body(doc, unit=i)
        except NotImplementedError:
            return False
        return w.bare_used > 0
    if variant.startswith("split:"):
        return has(units, "t")
    if variant in HTML_P_AS:
        return has(units, "p")
    if variant == "caption":
        return p_before_tbl(units)
    if variant in ("th", "rowgroups"):
        return has(units, "tbl")
    if variant == "ol":
        return has(units, "ul")
    if variant == "h456":
        return has(units, "h")
    raise ValueError(variant)


# ====================================================================================================== MIME header spellings

# name -> the transformations applied to the headers of the root part
MIME_HDR = ("cte-title", "cte-upper", "cte-trail", "name-lower", "name-upper", "type-upper", "charset-bare", "charset-upper",
            "fold", "cte-first", "lf")
MIME_HDR_QUICK = ("cte-title", "cte-upper", "name-lower", "type-upper", "fold", "lf")
MIME_CTE = ("qp", "b64")


def mhtml_spelled(html, cte, variant, location="http://h/p.html"):
    """multipart/related MHTML archive with `html` as the root part, transfer-encoded with `cte` (qp | b64), its part headers
    spelled according to `variant` (one of MIME_HDR). All spellings are equivalent under RFC 2045 section 5.1 / 6.1 (tokens and
    parameter names are case-insensitive), RFC 5322 2.2 (field names are case-insensitive, 2.2.3 folding) and RFC 2046 (header
    order is free)."""
    if variant not in MIME_HDR or cte not in MIME_CTE:
        raise ValueError((cte, variant))
    raw = html.encode("utf-8")
    if cte == "b64":
        body = base64.encodebytes(raw).decode("ascii")
        label = "base64"
    else:
        body = quopri.encodestring(raw, quotetabs=False).decode("ascii")
        label = "quoted-printable"
    if variant == "cte-title":
        label = {"base64": "Base64", "quoted-printable": "Quoted-Printable"}[label]
    elif variant == "cte-upper":
        label = label.upper()
    elif variant == "cte-trail":
        label += " "
    ctype_v = 'text/html; charset="utf-8"'
    if variant == "type-upper":
        ctype_v = 'TEXT/HTML; CHARSET="utf-8"'
    elif variant == "charset-bare":
        ctype_v = "text/html; charset=utf-8"
    elif variant == "charset-upper":
        ctype_v = 'text/html; charset="UTF-8"'
    elif variant == "fold":
        ctype_v = 'text/html;\r\n\tcharset="utf-8"'
    names = ["Content-Type", "Content-Transfer-Encoding", "Content-Location"]
    if variant == "name-lower":
        names = [n.lower() for n in names]
    elif variant == "name-upper":
        names = [n.upper() for n in names]
    hdrs = [(names[0], ctype_v), (names[1], label), (names[2], location)]
    if variant == "cte-first":
        hdrs = [hdrs[1], hdrs[0], hdrs[2]]
    bnd = "----=_NextPart_000_0000_VERIF"
    out = ["From: <Saved by verif>", "Subject: page", "MIME-Version: 1.0",
           'Content-Type: multipart/related; type="text/html"; boundary="%s"' % bnd, "", "This is a multi-part message in MIME format.", "",
           "--" + bnd] + ["%s: %s" % h for h in hdrs] + ["", body, "", "--%s--" % bnd, ""]
    data = "\r\n".join(x.replace("\r\n", "\n").replace("\n", "\r\n") for x in out)
    if variant == "lf":
        data = data.replace("\r\n", "\n")
    return data.encode("utf-8")


# ====================================================================================================== RTF \uN spellings

RTF_U = ("q", "hex", "letter", "blank-q", "uc0", "uc2", "group")
RTF_U_QUICK = ("hex", "letter", "uc0", "uc2", "blank-q")
RTF_U_SCOPE = ("all", "second")
_PLACE = 0x4E00          # placeholder plane: chr(_PLACE + ord(c)) is written by the reference writer as \uN? and respelled below
_RE_PLACE = re.compile(rb"\\u(\d+)\?")


def rtf_mark(doc, scope):
    """the document with the characters of every text leaf (all of them / only the second one) moved to the placeholder plane"""
    def mark(s):
        if scope == "all":
            return "".join(chr(_PLACE + ord(c)) for c in s)
        return s[:1] + "".join(chr(_PLACE + ord(c)) for c in s[1:2]) + s[2:]

    def go(x):
        if isinstance(x, list):
            if len(x) == 2 and x[0] in ("t", "ins", "del") and isinstance(x[1], str):
                return [x[0], mark(x[1])]
            return [go(y) for y in x]
        return x
    return ["doc", doc[1], go(doc[2])]


def rtf_respell(data, variant):
    """rewrite every placeholder escape \\u<0x4E00+c>? of the reference writer's output as the character c spelled as a \\uN escape
    of the given variant (RTF 1.9.1, "Unicode RTF": \\ucN = number of fallback bytes that follow each \\uN, default 1; a fallback is
    a plain character or a \\'xx byte; a blank after the number is the control word's delimiter, not the fallback)"""
    if variant not in RTF_U:
        raise ValueError(variant)

    def sub(m):
        n = int(m.group(1))
        if not (_PLACE + 0x20 <= n < _PLACE + 0x7F):
            return m.group(0)
        c = n - _PLACE
        if variant == "q":
            s = "\\u%d?" % c
        elif variant == "hex":
            s = "\\u%d\\'%02x" % (c, c)
        elif variant == "letter":
            s = "\\u%d%s" % (c, "x")                    # the spec's own example: Lab\u915Gvalue
        elif variant == "blank-q":
            s = "\\u%d ?" % c
        elif variant == "uc0":
            s = "{\\uc0\\u%d}" % c
        elif variant == "uc2":
            s = "{\\uc2\\u%d\\'%02x\\'%02x}" % (c, c, c)
        else:
            s = "{\\u%d?}" % c
        return s.encode("ascii")
    return _RE_PLACE.sub(sub, data)


# ====================================================================================================== cell comments

# ---------------------------------------------------------------------------------------------- comment bodies
# A comment is either a text (one plain paragraph) or a BODY: [block, ...] with
#   block  = ["p", [inline, ...]] | ["ul", [[block, ...], ...]]         (a list of items, each a block sequence)
#   inline = ["t", text] | ["tab"] | ["br"] | ["span", [inline, ...]]

def note_tokens(note):
    """all text leaves of a comment (text or body), in document order"""
    if isinstance(note, str):
        return [note]
    out = []

    def inl(xs):
        for x in xs:
            if x[0] == "t":
                out.append(x[1])
            elif x[0] == "span":
                inl(x[1])

    def blocks(bs):
        for b in bs:
            if b[0] == "p":
                inl(b[1])
            elif b[0] == "ul":
                for it in b[1]:
                    blocks(it)
            else:
                raise ValueError("comment body block %r" % (b[0],))
    blocks(note)
    return out


def _ods_note_inl(xs):
    out = []
    for x in xs:
        k = x[0]
        if k == "t":
            out.append(_h_esc(x[1]))
        elif k == "tab":
            out.append("<text:tab/>")
        elif k == "br":
            out.append("<text:line-break/>")
        elif k == "span":
            out.append("<text:span>%s</text:span>" % _ods_note_inl(x[1]))
        else:
            raise ValueError("comment body inline %r" % (k,))
    return "".join(out)


def ods_note_xml(note):
    """content of an office:annotation (after dc:creator / dc:date): (text:p | text:list)*"""
    if isinstance(note, str):
        return "<text:p>%s</text:p>" % _h_esc(note)

    def blocks(bs):
        out = []
        for b in bs:
            if b[0] == "p":
                out.append("<text:p>%s</text:p>" % _ods_note_inl(b[1]))
            elif b[0] == "ul":
                out.append("<text:list>%s</text:list>" % "".join("<text:list-item>%s</text:list-item>" % blocks(it) for it in b[1]))
            else:
                raise ValueError("comment body block %r" % (b[0],))
        return "".join(out)
    return blocks(note)


def xlsx_note_xml(note):
    """content of <text> of a comment: rich-text runs. A paragraph is a run sequence, a span a run with properties of its own,
    paragraphs are separated by a line feed inside the text (the way Excel stores Alt+Enter); lists do not exist in a comment."""
    if isinstance(note, str):
        return "<r><t>%s</t></r>" % _h_esc(note)
    runs = []          # [bold, text]

    def add(bold, s):
        if runs and runs[-1][0] == bold:
            runs[-1][1] += s
        else:
            runs.append([bold, s])

    def inl(xs, bold):
        for x in xs:
            k = x[0]
            if k == "t":
                add(bold, x[1])
            elif k == "tab":
                add(bold, "\t")
            elif k == "br":
                add(bold, "\n")
            elif k == "span":
                inl(x[1], True)
            else:
                raise ValueError("comment body inline %r" % (k,))
    for i, b in enumerate(note):
        if b[0] != "p":
            raise NotImplementedError("a spreadsheetml comment holds runs of text only")
        if i:
            add(False, "\n")
        inl(b[1], False)
    return "".join('<r>%s<t xml:space="preserve">%s</t></r>' % ("<rPr><b/></rPr>" if bold else "", _h_esc(t)) for bold, t in runs)


def split_cell_notes(doc):
    """sheet document whose string cells may be ["s", text, {"note": note}] or ["n", note] (an empty cell with a comment); a note is a
    text or a body (see note_tokens)  -> (plain sheet document, [(sheet index, row, col, note), ...])"""
    notes = []
    sheets = []
    for si, sh in enumerate(doc[2]):
        grid = []
        for r, row in enumerate(sh[2]):
            out = []
            for c, cell in enumerate(row):
                if cell is not None and cell[0] == "n":
                    notes.append((si, r, c, cell[1]))
                    out.append(None)
                elif cell is not None and len(cell) > 2 and cell[2] and cell[2].get("note"):
                    notes.append((si, r, c, cell[2]["note"]))
                    out.append([cell[0], cell[1]])
                else:
                    out.append(cell)
            grid.append(out)
        sheets.append(["sheet", sh[1], grid] + list(sh[3:]))
    return ["doc", doc[1], sheets], notes


def _rezip(data, edit):
    """copy of a ZIP package with edit(name, bytes) -> bytes | None applied to every member; edit("", None) -> {name: bytes} to add"""
    src = zipfile.ZipFile(io.BytesIO(data))
    bio = io.BytesIO()
    with zipfile.ZipFile(bio, "w") as z:
        for zi in src.infolist():
            b = src.read(zi.filename)
            nb = edit(zi.filename, b)
            ni = zipfile.ZipInfo(zi.filename, zi.date_time)
            ni.compress_type = zi.compress_type
            ni.external_attr = zi.external_attr
            ni.create_system = zi.create_system
            z.writestr(ni, b if nb is None else nb)
        for name, b in (edit("", None) or {}).items():
            z.writestr(zipfile.ZipInfo(name, (1980, 1, 1, 0, 0, 0)), b, compress_type=zipfile.ZIP_DEFLATED)
    return bio.getvalue()


_ODS_CELL = re.compile(r"<table:table-cell(?P<attrs>[^>]*?)(?P<empty>/)?>")


def ods_with_notes(data, notes):
    """the ODS package with an office:annotation as first child of the noted cells (ODF 1.2 part 1, 9.1.4 / 14.1).
    Requires a package written without repeat attributes (cell positions = element positions)."""
    want = {}
    for si, r, c, tok in notes:
        want[(si, r, c)] = tok

    def edit(name, b):
        if name != "content.xml":
            return None
        xml = b.decode("utf-8")
        if re.search(r"<table:table-(?:cell|row)\b[^>]*number-(?:columns|rows)-repeated", xml):
            raise NotImplementedError("cell comments on a run-length encoded sheet")
        out, pos = [], 0
        si = -1
        r = c = 0
        done = 0
        for m in re.finditer(r"<table:table[ >]|<table:table-row[ >/]|<table:table-cell[^>]*?/?>", xml):
            g = m.group(0)
            if g.startswith("<table:table-row"):
                r += 1
                c = -1
            elif g.startswith("<table:table-cell"):
                c += 1
                tok = want.get((si, r, c))
                if tok is not None:
                    ann = ('<office:annotation><dc:creator>verif</dc:creator><dc:date>2020-01-01T00:00:00</dc:date>'
                           '%s</office:annotation>' % ods_note_xml(tok))
                    out.append(xml[pos:m.start()])
                    if g.endswith("/>"):
                        out.append(g[:-2] + ">" + ann + "</table:table-cell>")
                    else:
                        out.append(g + ann)
                    pos = m.end()
                    done += 1
            else:
                si += 1
                r = -1
        if done != len(want):
            raise AssertionError("ods_with_notes: %d of %d cells found" % (done, len(want)))
        out.append(xml[pos:])
        return "".join(out).encode("utf-8")
    return _rezip(data, edit)


def _a1(r, c):
    s = ""
    c += 1
    while c:
        c, k = divmod(c - 1, 26)
        s = chr(65 + k) + s
    return "%s%d" % (s, r + 1)


def xlsx_with_notes(data, notes):
    """the XLSX package with a comments part per noted sheet (ECMA-376 part 1, 18.7): xl/commentsN.xml related from the sheet.
    (The legacy VML drawing that Excel adds for the pop-up shape carries no text and is omitted.)"""
    per = {}
    for si, r, c, tok in notes:
        per.setdefault(si, []).append((r, c, tok))
    ns_rel = "http://schemas.openxmlformats.org/package/2006/relationships"
    rt = "http://schemas.openxmlformats.org/officeDocument/2006/relationships/comments"
    ct = "application/vnd.openxmlformats-officedocument.spreadsheetml.comments+xml"
    names = set(zipfile.ZipFile(io.BytesIO(data)).namelist())
    add = {}
    for si, lst in per.items():
        n = si + 1
        x = ['<?xml version="1.0" encoding="UTF-8" standalone="yes"?>',
             '<comments xmlns="http://schemas.openxmlformats.org/spreadsheetml/2006/main"><authors><author>verif</author></authors><commentList>']
        for r, c, tok in lst:
            x.append('<comment ref="%s" authorId="0"><text>%s</text></comment>' % (_a1(r, c), xlsx_note_xml(tok)))
        x.append("</commentList></comments>")
        add["xl/comments%d.xml" % n] = "".join(x).encode("utf-8")
        rels = "xl/worksheets/_rels/sheet%d.xml.rels" % n
        if rels not in names:
            add[rels] = ('<?xml version="1.0" encoding="UTF-8" standalone="yes"?><Relationships xmlns="%s">'
                         '<Relationship Id="rIdC1" Type="%s" Target="../comments%d.xml"/></Relationships>' % (ns_rel, rt, n)).encode("utf-8")

    def edit(name, b):
        if name == "":
            return add
        if name == "[Content_Types].xml":
            s = b.decode("utf-8")
            ov = "".join('<Override PartName="/xl/comments%d.xml" ContentType="%s"/>' % (si + 1, ct) for si in sorted(per))
            return s.replace("</Types>", ov + "</Types>").encode("utf-8")
        m = re.match(r"xl/worksheets/_rels/sheet(\d+)\.xml\.rels\Z", name)
        if m and int(m.group(1)) - 1 in per:
            s = b.decode("utf-8")
            return s.replace("</Relationships>", '<Relationship Id="rIdC1" Type="%s" Target="../comments%s.xml"/></Relationships>' % (
                rt, m.group(1))).encode("utf-8")
        return None
    return _rezip(data, edit)


def odt_hidden_bodies(doc, images):
    """odt package in which the hidden text of every ["cref", first leaf, body] / ["del", first leaf, body] inline is written as that
    body: the content of office:annotation (ODF 1.2 part 1, 14.1: (text:p | text:list)*) / of text:deletion (5.5.4: paragraph content)"""
    from verif.gen import odf
    bodies = []

    def strip(x):
        if isinstance(x, list):
            if len(x) == 3 and x[0] in ("cref", "del") and isinstance(x[2], list):
                if note_tokens(x[2])[0] != x[1]:
                    raise AssertionError("hidden body: first leaf differs from the label")
                bodies.append((x[0], x[1], x[2]))
                return [x[0], x[1]]
            return [strip(y) for y in x]
        return x
    doc2 = ["doc", doc[1], strip(doc[2])]
    data = odf.odt(doc2, images)
    if not bodies:
        return data

    def edit(name, b):
        if name != "content.xml":
            return None
        s = b.decode("utf-8")
        for kind, tok, body in bodies:
            close = "</office:annotation>" if kind == "cref" else "</text:deletion>"
            key = '<text:p text:style-name="Standard">%s</text:p>%s' % (tok, close)
            if s.count(key) != 1:
                raise AssertionError("hidden body of %s occurs %d times" % (tok, s.count(key)))
            s = s.replace(key, ods_note_xml(body) + close)
        return s.encode("utf-8")
    return _rezip(data, edit)


# ====================================================================================================== ODF nested text box

def _odf_inl(xs):
    out = []
    for x in xs:
        k = x[0]
        if k == "t":
            out.append(_h_esc(x[1]))
        elif k == "tab":
            out.append("<text:tab/>")
        elif k == "br":
            out.append("<text:line-break/>")
        else:
            raise NotImplementedError("inline %r inside a nested text box" % (k,))
    return "".join(out)


def odf_draw_nested(fmt, doc, images):
    """odg / odp package in which every ["box", blocks] inline is a text box anchored as a character inside the paragraph that holds
    it: <text:p>..<draw:frame text:anchor-type="as-char"><draw:text-box><text:p>..</text:p></draw:text-box></draw:frame>..</text:p>
    (ODF 1.2 part 1, 5.1.3: a paragraph may contain draw:frame). The box may hold paragraphs of text, tabs and line breaks."""
    from verif.gen import odf
    frames = []

    def inl(xs):
        out = []
        for x in xs:
            if x[0] == "box":
                paras = []
                for b in x[1]:
                    if b[0] != "p":
                        raise NotImplementedError("block %r inside a nested text box" % (b[0],))
                    paras.append('<text:p text:style-name="P3">%s</text:p>' % _odf_inl(b[1]))
                if not paras:
                    raise NotImplementedError("empty text box")
                frames.append('<draw:frame draw:style-name="gr1" text:anchor-type="as-char" svg:width="8cm" svg:height="1cm">'
                              '<draw:text-box>%s</draw:text-box></draw:frame>' % "".join(paras))
                out.append(["t", "QQBOX%dQQ" % (len(frames) - 1)])
            elif x[0] == "a":
                out.append(["a", x[1], inl(x[2])])
            else:
                out.append(x)
        return out

    def blocks(bs):
        out = []
        for b in bs:
            k = b[0]
            if k in ("p", "h"):
                out.append(list(b[:-1]) + [inl(b[-1])])
            elif k == "ul":
                out.append(["ul", [blocks(it) for it in b[1]]])
            elif k == "tbl":
                out.append(["tbl", [[blocks(c) for c in row] for row in b[1]]])
            else:
                out.append(b)
        return out
    doc2 = ["doc", doc[1], [["unit", blocks(u[1])] + list(u[2:]) for u in doc[2]]]
    data = getattr(odf, fmt)(doc2, images)
    if not frames:
        return data

    def edit(name, b):
        if name != "content.xml":
            return None
        s = b.decode("utf-8")
        for i, fr in enumerate(frames):
            key = "QQBOX%dQQ" % i
            if s.count(key) != 1:
                raise AssertionError("placeholder %s occurs %d times" % (key, s.count(key)))
            s = s.replace(key, fr)
        return s.encode("utf-8")
    return _rezip(data, edit)
