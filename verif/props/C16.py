"""C16 - e-mail exactness: headers, bodies, attachments and mailbox boundaries.

Space I (bounded-exhaustive over the message grammar of verif.gen.mail).  A message is a *case-spec*: a dict
{dimension: index into the dimension's value domain} (absent = baseline value); the dimension "attachments" holds a list
of attachment-atom names instead (c16 atoms: the eight atoms of the generator's own domain plus member documents: a real
DOCX from verif.gen.ooxml under four labellings, a 256-byte binary, a UTF-8 text file).  Cases contain no token text, so
fingerprints cannot depend on VERIF_SEED.

  fmt "eml"   case {"spec": cs}                                     read_eml_format_mail(eml(spec))
  fmt "mbox"  case {"specs": [cs...], "sep": s, "flb": f}           read_mbox_format_mail(mbox(specs, opts)),  0..3 messages,
              sep in standard | no-blank-line | crlf,  flb in None | escaped | unescaped (extra "From ..." body lines in message 0)
  fmt "msg"   case {"fixture": name}                                the two .msg fixtures against their sibling .eml fixture
                                                                     (same Message-ID) / their own transport-header stream

Enumerated: baseline + every 1- and 2-dimension deviation (quick: 2-deviations only when structure or charset is involved),
the attachment space (attachment lists x the four structures with attachment slots [x one more deviation in thorough]),
the full product structure x charset x transfer encoding x line end [x 3 body texts], 4 embedded-message variants of the
message/rfc822 structure [x one more deviation],
the embedded-message content family (what a forwarded message itself contains; case-spec dimension "inner" holds a case-spec that is
laid over the generator's default embedded message): the embedded message with every value of every one of the 17 dimensions as its
only deviation (subject forms, address lists, dates, ids, 8 structures, 8 attachment lists, charsets, transfer encodings, the 8 body
texts incl. a line starting with "From ", a lone ".", "-- ", a 160-word line, the empty body), the product 8 body texts x 4 transfer
encodings x 5 charsets of the embedded message, and a message embedded in the embedded message (4 body texts x 4 transfer encodings),
each with CRLF and LF line ends of the carrying message, plus the mailboxes of all ordered pairs and triples over {plain message,
message carrying a message with a "From " body line} x 3 separator forms (thorough: the product x 3 embedded structures, all pairs of values of two of
{subject, from, to, date, structure, charset, cte, body_plain} inside the embedded message, and every single deviation of the embedded
message x every single charset / transfer-encoding / body-text deviation of the carrying message),
the charset family: every charset label (the generator's 5 + the writer's 41 EXTRA_CHARSETS: other single-byte, multibyte 8-bit,
7-bit stateful iso-2022-jp/-kr, hz, utf-7, wide utf-16/32 with and without BOM, other spellings/case of the labels) x 16 sample
texts (15 scripts incl. ASCII made of the 7-bit shift characters and non-BMP; "utf8-lookalike" = the text whose bytes in the
labelled charset are also valid UTF-8 for another text) x 4 transfer encodings, restricted to what the charset can encode and
the encoding can carry (quick: structure alternative, CRLF; thorough: x 8 structures x 2 line ends); the subject-charset family:
a subject written as B and as Q encoded-words in every octet charset x every sample (thorough: also with the body in the same
charset),
the part-form family (how a carried part is marked as a file): 13 content types (text/plain, text/html, six other text/* types,
application/json, application/pdf, image/png, application/octet-stream, a real DOCX) x 11 forms = Content-Disposition
{attachment, inline, absent} x name {none, filename on Content-Disposition, name on Content-Type, both (different)} where
expressible, + "ATTACHMENT" in capitals without a name; minus the unnamed text/plain|html parts without an attachment disposition
(those are bodies); each as the only attachment of structure mixed-plain-att-att and as a third representation inside the
multipart/alternative of structure alternative (case-spec dimension "alt_extra": list of atom names), plus all ordered pairs over a
4-form alphabet as two attachments and as alt_extra x attachment of mixed-alt-att (thorough: every form x base64|quoted-printable x
the four attachment-bearing structures and both alternative-bearing ones x both line ends, x 3 separator forms),
each as .eml and as single-message mbox in all three separator forms (quick: the two charset families and the part-form family as
mbox in the standard form only, likewise the embedded-message content family); the From-line variants for all <=1-deviations; all
ordered pairs and triples over a 6-spec alphabet x 9 separator/From-line variants; the empty mailbox.

Oracle (clauses): subject, from, to, cc, bcc, reply_to, date (same instant), message_id, in_reply_to, body_plain, body_html,
att_count / att_name / att_type / att_bytes against truth(spec); att_extract(_name_only/_mime_only): iterate_supported_attachments
of one attachment == the standalone extraction of the same bytes under the same name (to_json); mbox_count / mbox_order
against mailbox.mbox; agree:<field>: .eml and single-message .mbox results agree; raises.
"""
from __future__ import annotations

import copy
import dataclasses
import email
import email.policy
import io
import itertools
import json
import logging
import os
import random
import re

from verif.gen import mail
from verif.mc import pool as P

LEVEL = "exploration"
FIXTURES = "/repo/sharepoint2text/tests/resources/mails/"

# ----------------------------------------------------------------------------------------------------------------------
# value domains (indices are stable: they are the generator's DOMAINS order)

DOM = {k: vals for k, vals in mail.DOMAINS}
DIMS = [k for k, _ in mail.DOMAINS]
_DA = DOM["attachments"]
ATOMS = {
    "txt": _DA[1][0], "pdf": _DA[2][0], "w2047": _DA[3][0], "qp": _DA[4][0], "noname": _DA[5][0], "csv": _DA[6][2],
    "long": _DA[7][0], "latin": _DA[7][1],
    "bin256": mail.DEFAULT_ATTACHMENTS[1],
}
# the generator's own attachment domain written with atom names (same order as DOM["attachments"])
ATT_DOMAIN = [[], ["txt"], ["pdf"], ["w2047"], ["qp"], ["noname"], ["txt", "pdf", "csv"], ["long", "latin"]]
DOCX_MIME = "application/vnd.openxmlformats-officedocument.wordprocessingml.document"
_TOK = {k: mail._n(k[0]) for k in ("B1", "B2", "B3", "H1", "C1", "C2")}      # drawn once, after the generator's own tokens


def _docx_bytes() -> bytes:
    from verif.gen import ooxml
    doc = ["doc", {"title": "Zttl"}, [["unit", [["h", 1, [["t", _TOK["H1"]]]], ["p", [["t", _TOK["B1"]]]],
                                              ["tbl", [[[["p", [["t", _TOK["C1"]]]]], [["p", [["t", _TOK["C2"]]]]]]]],
                                              ["p", [["t", _TOK["B2"]]]]], {}]]]
    return ooxml.docx(doc)


def _member_atoms() -> dict:
    d = _docx_bytes().hex()
    return {
        "docx": {"filename": "report.docx", "filename_style": "plain", "ctype": DOCX_MIME, "cte": "base64", "data_hex": d},
        "docx-octet": {"filename": "report2.docx", "filename_style": "plain", "ctype": "application/octet-stream", "cte": "base64",
                       "data_hex": d},
        "docx-noname": {"filename": None, "ctype": DOCX_MIME, "cte": "base64", "data_hex": d},
        "docx-2231": {"filename": "Bericht über 中文.docx", "filename_style": "rfc2231", "ctype": DOCX_MIME, "cte": "base64",
                      "data_hex": d},
        "docx-noext": {"filename": "report", "filename_style": "plain", "ctype": DOCX_MIME, "cte": "base64", "data_hex": d},
        # the name and the MIME label disagree about the extractor: the file on its own (routed by its name) is the reference
        "html-as-plain": {"filename": "page.html", "filename_style": "plain", "ctype": "text/plain", "charset": "utf-8", "cte": "base64",
                          "data_hex": ("<html><body><p>%s</p><script>var x='Xnotxt';</script></body></html>" % _TOK["B2"]).encode().hex()},
        "csv-as-xls": {"filename": "table.csv", "filename_style": "plain", "ctype": "application/vnd.ms-excel", "cte": "base64",
                       "data_hex": ("%s,%s\n1,2\n" % (_TOK["C1"], _TOK["C2"])).encode().hex()},
        "txt-utf8": {"filename": "note2.txt", "filename_style": "plain", "ctype": "text/plain", "charset": "utf-8", "cte": "base64",
                     "data_hex": (_TOK["B3"] + " café €\n").encode("utf-8").hex()},
    }


_MEMBERS = None


def atom(name: str) -> dict:
    global _MEMBERS
    if name.startswith("pf/"):
        return pf_atom(name)
    if name in ATOMS:
        return ATOMS[name]
    if _MEMBERS is None:
        _MEMBERS = _member_atoms()
    return _MEMBERS[name]


_I0 = mail.INNER_DEFAULT
_XI = mail._n("X")
# embedded messages of structure rfc822-attachment (own dimension "inner"; index 0 = the generator's default inner message)
DOM["inner"] = [
    None,
    dict(_I0, charset="iso-8859-1", cte="8bit", body_plain=_XI + " café inner\n"),
    dict(_I0, structure="alternative"),
    dict(_I0, structure="mixed-plain-att-att"),
    dict(_I0, structure="rfc822-attachment"),
]

# ----------------------------------------------------------------------------------------------------------------------
# charset family: the labels of the writer's EXTRA_CHARSETS (other single-byte, multibyte 8-bit, 7-bit stateful, wide, other
# spellings) are appended to the C16 copy of the charset domain; BASE_LEN keeps the generator's own domain sizes (the deviation
# spaces below range over those only).  The pseudo-dimension "text" (index into TEXTS, 0 = the generator's bodies) replaces BOTH
# bodies by a sample of one script between tokens; a sample that the charset cannot encode makes the spec inexpressible.
# "utf8-lookalike" is computed from the charset: the text whose bytes in that charset are the UTF-8 bytes of "é ü" (the label
# alone decides between two valid readings).  "ascii-shift" is ASCII text made of the shift characters of the 7-bit charsets.

BASE_LEN = {k: len(v) for k, v in DOM.items()}
DOM["charset"] = list(DOM["charset"]) + list(mail.EXTRA_CHARSETS)
TEXTS = [
    ("generator", None),
    ("ascii-shift", "1+1=2 a&b ~x~ +- ~{ }~"),
    ("western", "café naïve Ünïcödé"),
    ("euro", "5 € 10 €"),
    ("typographic", "— “x” … ™"),
    ("central", "Zażółć gęślą jaźń"),
    ("cyrillic", "Привет, мир"),
    ("greek", "Γειά σου Κόσμε"),
    ("hebrew", "שלום עולם"),
    ("arabic", "مرحبا بالعالم"),
    ("thai", "สวัสดี"),
    ("japanese", "こんにちは、世界。カタカナ"),
    ("hans", "你好，世界"),
    ("hant", "繁體中文測試"),
    ("korean", "안녕하세요 세계"),
    ("nonbmp", "😀 𝄞"),
    ("utf8-lookalike", None),
]
DOM["text"] = [t[0] for t in TEXTS]
_LOOKALIKE_SRC = "é ü".encode("utf-8")
_TT = {k: mail._n(k[0]) for k in ("B7", "B8", "B9", "H7", "H8")}            # drawn after every other token of this module


def sample_text(ti: int, label: str):
    """The sample TEXTS[ti] for a part labelled `label` (None: no such text)."""
    name, t = TEXTS[ti]
    if name != "utf8-lookalike":
        return t
    try:
        codec = mail.charset_codec(label)
        t = _LOOKALIKE_SRC.decode(codec)
        if t.encode(codec) != _LOOKALIKE_SRC or any(ord(c) < 32 or 127 <= ord(c) < 160 for c in t) or label in ("utf-8", "unknown-8bit"):
            return None
        return t
    except (UnicodeError, NotImplementedError):
        return None


def _subject_domain() -> list:
    """Subjects written as encoded-words (B and Q) in every octet charset x every sample the charset can encode."""
    out = []
    for label in DOM["charset"]:
        if label in mail.WIDE_CHARSETS or label in ("unknown-8bit", "us-ascii", "US-ASCII"):
            continue
        for ti in range(1, len(TEXTS)):
            t = sample_text(ti, label)
            if t is None:
                continue
            try:
                t.encode(mail.charset_codec(label))
            except UnicodeError:
                continue
            for enc in ("b", "q"):
                out.append(["cs-%s:%s" % (enc, label), _TT["H7"] + " " + t + " " + _TT["H8"]])
    return out


DOM["subject"] = list(DOM["subject"]) + _subject_domain()

# ----------------------------------------------------------------------------------------------------------------------
# part-form family: how a carried part is marked as a file.  A form atom is named "pf/<type>/<disposition>/<name>[/qp]".

_TF = {k: mail._n(k[0]) for k in ("B4", "B5", "C3", "C4")}                  # drawn after every other token of this module
PF_TYPES = {
    # key: (content type, file extension, charset parameter, bytes)
    "plain": ("text/plain", "txt", "utf-8", lambda: (_TF["B4"] + " café €\n").encode("utf-8")),
    "html": ("text/html", "html", "utf-8", lambda: ("<html><body><p>%s café</p></body></html>\n" % _TF["B4"]).encode("utf-8")),
    "csv": ("text/csv", "csv", "utf-8", lambda: ("%s,%s\r\n1,Zoë\r\n" % (_TF["C3"], _TF["C4"])).encode("utf-8")),
    "calendar": ("text/calendar", "ics", "utf-8", lambda: (
        "BEGIN:VCALENDAR\r\nVERSION:2.0\r\nMETHOD:REQUEST\r\nBEGIN:VEVENT\r\nSUMMARY:%s\r\nDTSTART:20240102T090000Z\r\nEND:VEVENT\r\n"
        "END:VCALENDAR\r\n" % _TF["B4"]).encode("utf-8")),
    "vcard": ("text/x-vcard", "vcf", "utf-8", lambda: ("BEGIN:VCARD\r\nVERSION:3.0\r\nFN:%s Zoë\r\nEND:VCARD\r\n" % _TF["B4"]).encode("utf-8")),
    "xml": ("text/xml", "xml", "utf-8", lambda: ('<?xml version="1.0" encoding="utf-8"?>\n<r><v>%s é</v></r>\n' % _TF["B4"]).encode("utf-8")),
    "headers": ("text/rfc822-headers", "hdr", None, lambda: ("Subject: %s\r\nX-Note: %s\r\n" % (_TF["B4"], _TF["B5"])).encode("ascii")),
    "markdown": ("text/markdown", "md", "utf-8", lambda: ("# %s\n\n%s café\n" % (_TF["B4"], _TF["B5"])).encode("utf-8")),
    "json": ("application/json", "json", None, lambda: ('{"%s": ["%s", 1]}\n' % (_TF["C3"], _TF["B4"])).encode("ascii")),
    "pdf": ("application/pdf", "pdf", None, lambda: b"%PDF-1.4\r\n\x00\xff\xfe binary\n" + _TF["B4"].encode() + b"\r\n%%EOF"),
    "png": ("image/png", "png", None, lambda: mail.INLINE_PNG),
    "octet": ("application/octet-stream", "bin", None, lambda: bytes(range(256))),
    "docx": (DOCX_MIME, "docx", None, _docx_bytes),
}
PF_DISP = {"att": "attachment", "ATT": "ATTACHMENT", "inline": "inline", "none": None}
PF_NAMES = ("none", "fn", "np", "both")
_PF_DATA = {}


def pf_atom(name: str) -> dict:
    parts = name.split("/")
    t, d, n = parts[1:4]
    ctype, ext, charset, data = PF_TYPES[t]
    if t not in _PF_DATA:
        _PF_DATA[t] = data().hex()
    a = {"filename": ("file-%s.%s" % (t, ext)) if n in ("fn", "both") else None, "filename_style": "plain", "ctype": ctype,
         "cte": "quoted-printable" if parts[4:] == ["qp"] else "base64", "data_hex": _PF_DATA[t], "disposition": PF_DISP[d]}
    if n in ("np", "both"):
        a["name_param"] = "named-%s.%s" % (t, ext)
    if charset:
        a["charset"] = charset
    return a


def pf_atoms(tier: str) -> list:
    """Every expressible form atom (quick: base64 only; "ATTACHMENT" in capitals only without a name)."""
    out = []
    for t in PF_TYPES:
        for d in PF_DISP:
            for n in PF_NAMES:
                if d == "ATT" and n != "none":
                    continue
                for sfx in (("",) if tier == "quick" else ("", "/qp")):
                    out.append("pf/%s/%s/%s%s" % (t, d, n, sfx))
    ok = []
    for a in out:
        try:
            mail._leaf_att(mail._norm_atts([pf_atom(a)])[0])
            ok.append(a)
        except NotImplementedError:
            pass
    return ok


PF_PAIR = ["pf/calendar/none/none", "pf/csv/inline/none", "pf/png/none/none", "pf/plain/inline/fn"]


def partform_specs(tier: str) -> list:
    """The part-form family (see the module docstring)."""
    out = []
    atoms = pf_atoms(tier)
    slots = [4] if tier == "quick" else ATT_STRUCTS
    alts = [2] if tier == "quick" else [2, 3]
    les = [0] if tier == "quick" else [0, 1]
    for le in les:
        dev = {"line_end": le} if le else {}
        for a in atoms:
            for st in slots:
                out.append(dict(dev, structure=st, attachments=[a]))
            for st in alts:
                out.append(dict(dev, structure=st, alt_extra=[a]))
    for a, b in itertools.product(PF_PAIR, repeat=2):
        out.append({"structure": 4, "attachments": [a, b]})
        out.append({"structure": 3, "alt_extra": [a], "attachments": [b]})
        if tier != "quick":
            out.append({"structure": 2, "alt_extra": [a, b]})
            out.append({"structure": 6, "attachments": [a, b]})
    return [c for c in out if expressible(c)]


ATOM_NAMES = list(ATOMS) + ["docx", "docx-octet", "docx-noname", "docx-2231", "docx-noext", "txt-utf8", "html-as-plain", "csv-as-xls"]
ATT_STRUCTS = [3, 4, 6, 7]          # mixed-alt-att, mixed-plain-att-att, mixed-mixed, rfc822-attachment
PAIR_ALPHA = ["txt", "docx", "bin256", "noname"]


def att_lists() -> list:
    out = [[a] for a in ATOM_NAMES]
    out += [list(p) for p in itertools.product(PAIR_ALPHA, repeat=2)]
    out += [list(p) for p in itertools.permutations(["txt", "docx", "bin256"])]
    out += [x for x in ATT_DOMAIN[1:] if x not in out]
    return out


def to_spec(cs: dict) -> dict:
    spec = {}
    for k, v in cs.items():
        if k in ("attachments", "alt_extra"):
            spec[k] = [copy.deepcopy(atom(a)) for a in v]
        elif k == "text":
            continue
        elif k == "inner" and isinstance(v, dict):
            # embedded-message content family: the embedded message is itself a case-spec over the generator's grammar, laid over
            # the generator's default embedded message (us-ascii, 7bit, plain); every key present applies, index 0 included
            spec[k] = dict(copy.deepcopy(_I0), **to_spec(v))
        else:
            spec[k] = copy.deepcopy(DOM[k][v])
    if cs.get("text"):
        if "body_plain" in cs or "body_html" in cs:
            raise NotImplementedError("text together with body_plain / body_html")
        t = sample_text(cs["text"], DOM["charset"][cs.get("charset", 0)])
        if t is None:
            raise NotImplementedError("no such sample for this charset")
        st = DOM["structure"][cs.get("structure", 0)]
        if st in mail.HAS_PLAIN:
            spec["body_plain"] = "%s %s %s\n%s\n" % (_TT["B7"], t, _TT["B8"], _TT["B9"])
        if st in mail.HAS_HTML:
            spec["body_html"] = "<html><body><p>%s %s <b>%s</b></p></body></html>\n" % (_TT["B7"], t, _TT["B8"])
    return spec


def expressible(cs: dict) -> bool:
    try:
        mail.eml(to_spec(cs))
        return True
    except NotImplementedError:
        return False


def charset_specs(tier: str) -> list:
    """Every charset label x every sample text x every transfer encoding (quick: structure alternative, CRLF; thorough: x every
    structure x both line ends)."""
    out = []
    sts = [2] if tier == "quick" else list(range(len(DOM["structure"])))
    les = [0] if tier == "quick" else list(range(len(DOM["line_end"])))
    for c in range(len(DOM["charset"])):
        for ti in range(1, len(TEXTS)):
            for cte in range(len(DOM["cte"])):
                for st in sts:
                    for le in les:
                        x = {"structure": st, "charset": c, "cte": cte, "line_end": le, "text": ti}
                        out.append({k: v for k, v in x.items() if v})
    return [c for c in out if expressible(c)]


def subject_charset_specs(tier: str) -> list:
    """Every generated subject (charset x sample x B/Q encoded-words), alone (thorough: also x body charset = the same label)."""
    out = []
    for i in range(BASE_LEN["subject"], len(DOM["subject"])):
        out.append({"subject": i})
        if tier != "quick":
            label = DOM["subject"][i][0].split(":", 1)[1]
            c = DOM["charset"].index(label)
            if c:
                out.append({"subject": i, "charset": c, "text": 1})
    return [c for c in out if expressible(c)]


# ----------------------------------------------------------------------------------------------------------------------
# enumeration

def base_specs(tier: str) -> list:
    """Case-specs of the <=2-deviation space (quick: d<=1 plus the 2-deviations involving structure or charset)."""
    out = [{}]
    vals = {k: (ATT_DOMAIN if k == "attachments" else list(range(BASE_LEN[k]))) for k in DIMS}
    for k in DIMS:
        for v in vals[k][1:]:
            out.append({k: v})
    for a, b in itertools.combinations(DIMS, 2):
        if tier == "quick" and not ({a, b} & {"structure", "charset"}):
            continue
        for va in vals[a][1:]:
            for vb in vals[b][1:]:
                out.append({a: va, b: vb})
    return [cs for cs in out if expressible(cs)]


def att_specs(tier: str) -> list:
    """Attachment space: attachment list x structure with attachment slots (x one more deviation)."""
    out = []
    others = []
    for k in DIMS:
        if k in ("structure", "attachments"):
            continue
        for v in range(1, BASE_LEN[k]):
            others.append((k, v))
    for lst in att_lists():
        for st in ATT_STRUCTS:
            out.append({"structure": st, "attachments": lst})
            for k, v in others:
                if tier == "quick" and not (st == 4 and k in ("charset", "cte", "line_end")):
                    continue
                out.append({"structure": st, "attachments": lst, k: v})
    return [cs for cs in out if expressible(cs)]


def inner_specs(tier: str) -> list:
    """Embedded-message variants of structure rfc822-attachment (x one more deviation)."""
    out = []
    for i in range(1, len(DOM["inner"])):
        out.append({"structure": 7, "inner": i})
        for k in DIMS:
            if k in ("structure", "attachments"):
                continue
            for v in range(1, BASE_LEN[k]):
                if tier == "quick" and not ((k, v) in (("body_plain", 6), ("line_end", 1), ("cte", 3))):
                    continue
                out.append({"structure": 7, "inner": i, k: v})
    return [c for c in out if expressible(c)]


INNER_STRUCTS = [0, 2, 4]            # structures of the embedded message in the decoding product: plain, alternative, mixed-plain-att-att
NEST_BODIES = [0, 2, 4, 6]          # body texts of a message embedded in an embedded message


def inner_content_specs(tier: str) -> list:
    """Embedded-message content family: the embedded message of structure rfc822-attachment ranges over the generator's own grammar
    (case-spec dimension "inner" holds a case-spec, laid over the generator's default embedded message):
      (a) every value of every dimension as the only deviation (attachment lists with structure mixed-plain-att-att),
      (b) the product body text x transfer encoding x charset (quick: embedded structure plain; thorough: x 3 embedded structures),
      (c) a message embedded in the embedded message: 4 body texts x 4 transfer encodings,
    each with CRLF and LF line ends of the carrying message (thorough: (a) also x every single charset / transfer-encoding / body-text
    deviation of the carrying message, and every pair of values of two different dimensions {subject, from, to, date, structure, charset, cte, body_plain}
    inside the embedded message)."""
    single = []
    for k in DIMS:
        if k == "attachments":
            for lst in ATT_DOMAIN[1:]:
                single.append({"structure": 4, "attachments": lst})
            continue
        for v in range(BASE_LEN[k]):
            single.append({k: v})
    inn = list(single)
    for b in range(BASE_LEN["body_plain"]):
        for cte in range(len(DOM["cte"])):
            for c in range(BASE_LEN["charset"]):
                for st in (INNER_STRUCTS[:1] if tier == "quick" else INNER_STRUCTS):
                    x = {"body_plain": b, "cte": cte, "charset": c}
                    if st:
                        x["structure"] = st
                    inn.append(x)
    for b in NEST_BODIES:
        for cte in range(len(DOM["cte"])):
            inn.append({"structure": 7, "inner": {"body_plain": b, "cte": cte}})
    if tier != "quick":
        pd = ["subject", "from", "to", "date", "structure", "charset", "cte", "body_plain"]
        for a, b in itertools.combinations(pd, 2):
            for va in range(BASE_LEN[a]):
                for vb in range(BASE_LEN[b]):
                    inn.append({a: va, b: vb})
    out = []
    for x in inn:
        out.append({"structure": 7, "inner": x})
        out.append({"structure": 7, "inner": x, "line_end": 1})
    if tier != "quick":
        for x in single:
            for k in ("charset", "cte", "body_plain"):
                for v in range(1, BASE_LEN[k]):
                    out.append({"structure": 7, "inner": x, k: v})
    return [c for c in out if expressible(c)]


def decoding_specs(tier: str) -> list:
    """Full product of the dimensions that decide how a body is decoded: structure x charset x transfer encoding x line end
    (thorough: x three body texts)."""
    out = []
    bodies = [0] if tier == "quick" else [0, 2, 3]
    for st in range(len(DOM["structure"])):
        for cs_ in range(BASE_LEN["charset"]):
            for cte in range(len(DOM["cte"])):
                for le in range(len(DOM["line_end"])):
                    for b in bodies:
                        if b and DOM["structure"][st] not in mail.HAS_PLAIN:
                            continue
                        c = {"structure": st, "charset": cs_, "cte": cte, "line_end": le, "body_plain": b}
                        out.append({k: v for k, v in c.items() if v})
    return [c for c in out if expressible(c)]


MULTI_ALPHA = [{}, {"structure": 2}, {"structure": 4}, {"body_plain": 4}, {"cte": 3, "subject": 1}, {"body_plain": 6}]
EMB_ALPHA = [{}, {"structure": 7, "inner": {"body_plain": 4}}]       # plain message | message carrying a message with a "From " body line
SEPS = ["standard", "no-blank-line", "crlf"]
FLBS = [None, "escaped", "unescaped"]


def _mbox_ok(case) -> bool:
    try:
        mail.mbox([to_spec(c) for c in case["specs"]], _opts(case))
        return True
    except NotImplementedError:
        return False


def all_cases(tier: str) -> list:
    cases = []
    singles = base_specs(tier)
    atts = att_specs(tier)
    seen = set()
    main = singles + atts + decoding_specs(tier) + inner_specs(tier)
    fam = charset_specs(tier) + subject_charset_specs(tier) + partform_specs(tier) + inner_content_specs(tier)
    for n, cs in enumerate(main + fam):
        key = json.dumps(cs, sort_keys=True)
        if key in seen:
            continue
        seen.add(key)
        cases.append(("eml", {"spec": cs}))
        # the charset families and the part-form family: quick reads the mailbox in its standard separator form only
        for sep in (SEPS[:1] if tier == "quick" and n >= len(main) else SEPS):
            cases.append(("mbox", {"specs": [cs], "sep": sep, "flb": None}))
        if len(cs) <= 1 and n < len(main):
            for sep in SEPS:
                for flb in FLBS[1:]:
                    c = {"specs": [cs], "sep": sep, "flb": flb}
                    if _mbox_ok(c):
                        cases.append(("mbox", c))
    for sep in SEPS:
        cases.append(("mbox", {"specs": [], "sep": sep, "flb": None}))
    # envelope sender forms of the From_ separator line: a bounce ("From MAILER-DAEMON ...") and Thunderbird ("From - ...")
    for env in ("daemon", "dash"):
        for n in (1, 2, 3):
            for combo in itertools.product(MULTI_ALPHA[:3], repeat=n):
                for sep in SEPS:
                    for first in (None, "address"):
                        c = {"specs": [dict(x) for x in combo], "sep": sep, "flb": None, "env": env}
                        if first:
                            c["env_first"] = first
                        if _mbox_ok(c):
                            cases.append(("mbox", c))
    for n in (2, 3):
        for combo in itertools.product(MULTI_ALPHA, repeat=n):
            for sep in SEPS:
                for flb in FLBS:
                    c = {"specs": [dict(x) for x in combo], "sep": sep, "flb": flb}
                    if _mbox_ok(c):
                        cases.append(("mbox", c))
    # mailboxes whose messages carry an embedded message with a line starting with "From " (escaped by the mailbox writer): the
    # message boundaries are only at the separator lines
    for n in (2, 3):
        for combo in itertools.product(EMB_ALPHA, repeat=n):
            if not any("inner" in x for x in combo):
                continue
            for sep in SEPS:
                c = {"specs": [copy.deepcopy(x) for x in combo], "sep": sep, "flb": None}
                if _mbox_ok(c):
                    cases.append(("mbox", c))
    for name in ("basic_email", "msg_with_attachment"):
        cases.append(("msg", {"fixture": name}))
    return cases


# ----------------------------------------------------------------------------------------------------------------------
# library adapters

def lib_dict(c) -> dict:
    def boxes(v):
        return [[a.name, a.address] for a in (v or [])]
    return {"subject": c.subject, "from": [c.from_email.name, c.from_email.address],
            "to": boxes(c.to_emails), "cc": boxes(c.to_cc), "bcc": boxes(c.to_bcc),
            "reply_to": boxes(c.reply_to) if isinstance(c.reply_to, list) else c.reply_to,
            "date": c.metadata.date, "message_id": c.metadata.message_id, "in_reply_to": c.in_reply_to,
            "body_plain": c.body_plain, "body_html": c.body_html,
            "attachments": [(a.filename, a.mime_type, a.data.getvalue()) for a in c.attachments],
            "_obj": c}


def run_eml(data: bytes):
    from sharepoint2text.parsing.extractors.mail.eml_email_extractor import read_eml_format_mail
    logging.disable(logging.CRITICAL)
    return list(read_eml_format_mail(io.BytesIO(data)))


def run_mbox(data: bytes):
    from sharepoint2text.parsing.extractors.mail.mbox_email_extractor import read_mbox_format_mail
    logging.disable(logging.CRITICAL)
    return list(read_mbox_format_mail(io.BytesIO(data)))


def _exc(e) -> str:
    cause = getattr(e, "__cause__", None)
    s = "%s: %s" % (type(e).__name__, e)
    if cause is not None:
        s += " (cause %s: %s)" % (type(cause).__name__, cause)
    return s[:300]


# ----------------------------------------------------------------------------------------------------------------------
# comparison

_WS = re.compile(r"\s+")
_ZW = re.compile("[\u200b\ufeff]")


def ws(s) -> str:
    return _WS.sub(" ", s or "").strip()


def short(v, n=120) -> str:
    r = repr(v)
    return r if len(r) <= n else r[:n] + "...(%d)" % len(r)


def _skel(s: str) -> str:
    return ws("".join(c for c in s if ord(c) < 128))


def body_same(e: str, g: str, fuzzy: bool) -> bool:
    if fuzzy:
        return _skel(e) == _skel((g or "").replace("\ufffd", ""))
    return ws(e) == ws(g)


def _mid(s) -> str:
    return (s or "").strip().strip("<>")


def _eol(b: bytes) -> bytes:
    return b.replace(b"\r\n", b"\n")


def _same_message(a: bytes, b: bytes) -> bool:
    """An embedded message may be re-serialised (line ends, 8bit -> quoted-printable, parameter quoting): equal when the standard
    library reads the same fields, bodies, attachments and inline parts from both."""
    try:
        pa, pb = mail.parse(a), mail.parse(b)
        inl_a, inl_b = [tuple(x) for x in pa["inline"]], [tuple(x) for x in pb["inline"]]
        pa["inline"] = []
        pa["body_fuzzy"] = False
        nested = [(x[0], x[1], _eol(x[2]) if x[1] == "message/rfc822" else x[2]) for x in pa["attachments"]]
        nested_b = [(x[0], x[1], _eol(x[2]) if x[1] == "message/rfc822" else x[2]) for x in pb["attachments"]]
        pa["attachments"], pb["attachments"] = nested, nested_b
        return not mail.diff(pa, pb, "exact") and inl_a == inl_b
    except Exception:                                    # noqa: BLE001
        return False


def _mboxo(b: bytes) -> bytes:
    """The bytes as an mboxo mailbox stores them: every line starting with "From " is written as ">From " (lossy)."""
    return (b"\n" + b).replace(b"\nFrom ", b"\n>From ")[1:]


def _validate(spec: dict) -> list:
    """mail.validate, minus differences that are only the standard library's re-serialisation of an equivalent embedded message (its
    generator writes an empty line after the closing delimiter of a multipart nested in the embedded message)."""
    out = []
    for d in mail.validate(spec):
        if d[0] == "attachments" and len(d[1]) == len(d[2]) and all(
                a == b or (a[:2] == b[:2] and a[1] == "message/rfc822" and _same_message(a[2], b[2])) for a, b in zip(d[1], d[2])):
            continue
        out.append(d)
    return out


def match_attachments(exp_atts, inline, got_atts, mboxo: bool = False):
    """-> (list of (clause, message), aligned pairs [(exp, got)...]).  Inline parts of multipart/related may or may not be listed.
    mboxo: the message was read from an mbox file, where the 7bit/8bit lines of an embedded message that start with "From " are stored
    as ">From " - the embedded message in either form is accepted (as for the bodies)."""
    inl = [(a[1], a[2]) for a in inline]
    g2 = list(got_atts)
    if len(g2) != len(exp_atts):
        g2 = [a for a in got_atts if ((a[1] or "").lower(), a[2]) not in inl]
    if len(g2) != len(exp_atts):
        return [("att_count", "expected %d attachments %s, got %d %s" % (
            len(exp_atts), short([(a[0], a[1], len(a[2])) for a in exp_atts]), len(got_atts),
            short([(a[0], a[1], len(a[2])) for a in got_atts])))], []
    fails, pairs = [], []
    for i, (e, g) in enumerate(zip(exp_atts, g2)):
        if e[0] is not None and e[0] != g[0]:
            fails.append(("att_name", "attachment %d: expected name %r, got %r" % (i, e[0], g[0])))
        if (e[1] or "").lower() != (g[1] or "").lower():
            fails.append(("att_type", "attachment %d (%r): expected type %r, got %r" % (i, e[0], e[1], g[1])))
        if e[1] == "message/rfc822":
            forms = [e[2]] + ([_mboxo(e[2])] if mboxo and _mboxo(e[2]) != e[2] else [])
            same = any(_eol(x) == _eol(g[2]) or _same_message(x, g[2]) for x in forms)
        else:
            same = e[2] == g[2]
        if not same:
            where = ""
            if e[1] == "message/rfc822":
                el, gl = _eol(e[2]).split(b"\n"), _eol(g[2]).split(b"\n")
                k = next((j for j, (x, y) in enumerate(zip(el, gl)) if x != y), min(len(el), len(gl)))
                where = "; first differing line %d: attached %s, returned %s" % (
                    k + 1, short(el[k] if k < len(el) else None, 60), short(gl[k] if k < len(gl) else None, 60))
            fails.append(("att_bytes", "attachment %d (%r, %s): expected %d bytes %s, got %d bytes %s%s" % (
                i, e[0], e[1], len(e[2]), short(e[2], 80), len(g[2]), short(g[2], 80), where)))
        pairs.append((e, g, same))
    return fails, pairs


ADDR_FIELDS = ("to", "cc", "bcc", "reply_to")


def compare(exp: dict, got: dict, spec_full: dict, body_alt: dict | None = None, mboxo: bool = False) -> list:
    """Clauses violated by `got` (lib_dict) against the ground truth `exp` (mail.truth)."""
    fails = []
    # subject
    es, gs = exp["subject"], got["subject"] or ""
    if es != gs:
        if ws(es) == ws(gs):
            if "\n" in gs or "\r" in gs:
                fails.append(("subject_linebreak", "folded subject is returned with its line breaks: expected %r, got %r" % (es, gs)))
        else:
            fails.append(("subject", "expected %r, got %r" % (es, gs)))
    # addresses
    ef, gf = exp["from"], got["from"]
    if [ws(ef[0]), ef[1]] != [ws(gf[0]), gf[1]]:
        fails.append(("from", "expected %r, got %r" % (ef, gf)))
    for f in ADDR_FIELDS:
        e = [[ws(n), a] for n, a in exp[f]]
        g = got[f]
        g2 = [[ws(n), a] for n, a in g] if isinstance(g, list) else g
        if e != g2:
            fails.append((f, "expected %s, got %s" % (short(exp[f], 200), short(g, 200))))
    # date
    if mail._instant(exp["date"]) != mail._instant(got["date"] or ""):
        fails.append(("date", "expected instant %s, got %r" % (exp["date"], got["date"])))
    for f in ("message_id", "in_reply_to"):
        if _mid(exp[f]) != _mid(got[f]):
            fails.append((f, "expected %r, got %r" % (exp[f], got[f])))
    # bodies (only where the structure has such a part)
    st = spec_full["structure"]
    for f, present in (("body_plain", st in mail.HAS_PLAIN), ("body_html", st in mail.HAS_HTML)):
        if not present:
            continue
        alts = [exp[f]] + ([body_alt[f]] if body_alt else [])
        if not any(body_same(a, got[f], exp["body_fuzzy"]) for a in alts):
            fails.append((f, "expected %s, got %s" % (short(exp[f], 160), short(got[f], 160))))
    af, _ = match_attachments(exp["attachments"], exp["inline"], got["attachments"], mboxo)
    return fails + af


# ----------------------------------------------------------------------------------------------------------------------
# supported attachments extract to the same content as the file on its own

_EXT_OK = {}
CHECKS = {"att_extract_compared": 0, "agree_compared": 0}


def _name_supported(name) -> bool:
    if not name:
        return False
    if name not in _EXT_OK:
        from sharepoint2text.parsing.exceptions import ExtractionFileFormatNotSupportedError
        from sharepoint2text.parsing.router import get_extractor
        try:
            get_extractor(name)
            _EXT_OK[name] = True
        except ExtractionFileFormatNotSupportedError:
            _EXT_OK[name] = False
    return _EXT_OK[name]


def _standalone(name: str, mime: str, data: bytes, named: bool = True):
    """The attached file on its own: routed by its name (when the message gives it one), else by its MIME type; same path argument."""
    from sharepoint2text.parsing.mime_types import MIME_TYPE_MAPPING
    from sharepoint2text.parsing.router import get_extractor
    if named and _name_supported(name):
        ex = get_extractor(name)
    else:
        ex = get_extractor("attachment." + MIME_TYPE_MAPPING[mime])
    return [json.dumps(r.to_json(), sort_keys=True, default=str) for r in ex(io.BytesIO(data), name)]


def attachment_extract_fails(exp: dict, got: dict, mboxo: bool = False) -> list:
    from sharepoint2text.parsing.mime_types import MIME_TYPE_MAPPING
    af, pairs = match_attachments(exp["attachments"], exp["inline"], got["attachments"], mboxo)
    if not pairs:
        return []
    fails = []
    obj = got["_obj"]
    inl = [(a[1], a[2]) for a in exp["inline"]]
    lib_atts = list(obj.attachments)
    if len(lib_atts) != len(pairs):
        lib_atts = [a for a in lib_atts if ((a.mime_type or "").lower(), a.data.getvalue()) not in inl]
    for i, ((e, g, same), la) in enumerate(zip(pairs, lib_atts)):
        if not same or (e[1] or "").lower() != (g[1] or "").lower():
            continue                                   # wrong bytes / type are reported by att_bytes / att_type
        by_name = _name_supported(g[0]) if e[0] is not None else False
        by_mime = e[1] in MIME_TYPE_MAPPING
        if not (by_name or by_mime):
            continue
        if not by_mime:
            # "supported attachment" is read as the library documents it (EmailAttachment.is_supported_mime_type): a file whose
            # MIME label is not in the supported list (e.g. a .docx sent as application/octet-stream) is skipped by design
            continue
        if e[0] is not None and e[0] != g[0]:
            continue                                   # wrong name is reported by att_name
        clause = "att_extract" if (by_name and by_mime) or (e[0] is None and by_mime) else (
            "att_extract_name_only" if by_name else "att_extract_mime_only")
        try:
            want = _standalone(g[0], e[1], g[2], e[0] is not None)
            if want != _standalone(g[0], e[1], g[2], e[0] is not None):
                continue                               # standalone extraction is not a function of the bytes: not judged here
        except Exception:                              # noqa: BLE001 - the file on its own does not extract: nothing to equal
            continue
        try:
            one = dataclasses.replace(obj, attachments=[la])
            have = [json.dumps(r.to_json(), sort_keys=True, default=str) for r in one.iterate_supported_attachments()]
        except Exception as ex:                        # noqa: BLE001
            fails.append((clause, "attachment %d (%r, %s): iterate_supported_attachments raised %s" % (i, g[0], e[1], _exc(ex))))
            continue
        CHECKS["att_extract_compared"] += 1
        if have != want:
            fails.append((clause, "attachment %d (%r, %s): on its own the file gives %d result(s) %s, as attachment %d result(s) %s" % (
                i, g[0], e[1], len(want), short(want[0] if want else None, 100), len(have), short(have[0] if have else None, 100))))
    return fails


# ----------------------------------------------------------------------------------------------------------------------
# evaluation of one case

def _opts(case) -> dict:
    o = {"separator": case.get("sep") or "standard"}
    if case.get("flb"):
        o["from_line_in_body"] = case["flb"]
    if case.get("env"):
        o["envelope"] = case["env"]
    if case.get("env_first"):
        o["envelope_first"] = case["env_first"]
    return o


class WriterInvalid(Exception):
    pass


def _shape(got: dict) -> str:
    return "p%d h%d a%d" % (bool(got["body_plain"]), bool(got["body_html"]), len(got["attachments"]))


def eval_eml(case):
    spec = to_spec(case["spec"])
    full = mail.full_spec(spec)
    data = mail.eml(spec)
    inv = _validate(spec)
    if inv:
        raise WriterInvalid("eml %s: %s" % (case, short(inv, 300)))
    exp = mail.truth(spec)
    try:
        res = run_eml(data)
    except Exception as e:                               # noqa: BLE001 - a library exception is a data point
        return [("raises", "read_eml_format_mail raised " + _exc(e))], "raises"
    if len(res) != 1:
        return [("eml_count", "read_eml_format_mail yielded %d results" % len(res))], "count%d" % len(res)
    got = lib_dict(res[0])
    fails = compare(exp, got, full)
    fails += attachment_extract_fails(exp, got)
    return fails, _shape(got)


FIELDS_AGREE = ("subject", "from", "to", "cc", "bcc", "reply_to", "date", "message_id", "in_reply_to", "body_plain", "body_html",
                "attachments")
_CLAUSE_FIELD = {"subject_linebreak": "subject", "att_count": "attachments", "att_name": "attachments", "att_type": "attachments",
                 "att_bytes": "attachments"}


def agree_fails(e: dict, m: dict, skip_fields: set, mboxo: dict) -> list:
    """Differences between the .eml result `e` and the single-message .mbox result `m` of the same message."""
    out = []
    for f in FIELDS_AGREE:
        if f in skip_fields:
            continue
        a, b = e[f], m[f]
        if f == "subject":
            same = ws(a) == ws(b) and (("\n" in (a or "")) == ("\n" in (b or "")))
        elif f == "from":
            same = [ws(a[0]), a[1]] == [ws(b[0]), b[1]]
        elif f in ADDR_FIELDS:
            same = [[ws(n), x] for n, x in a] == [[ws(n), x] for n, x in b]
        elif f == "date":
            same = mail._instant(a or "") == mail._instant(b or "")
        elif f in ("message_id", "in_reply_to"):
            same = _mid(a) == _mid(b)
        elif f in ("body_plain", "body_html"):
            esc = ("\n" + (a or "").replace("\r\n", "\n")).replace("\nFrom ", "\n>From ")[1:]
            same = ws(a) == ws(b) or ws(esc) == ws(b)
        else:
            # an embedded message: the mailbox stores its 7bit/8bit "From " lines as ">From " (as for the bodies)
            def forms(x):
                return [_eol(x[2])] + ([_eol(_mboxo(x[2]))] if (x[1] or "").lower() == "message/rfc822" else [])
            same = len(a) == len(b) and all((x[1] or "").lower() == (y[1] or "").lower() and _eol(y[2]) in forms(x) for x, y in zip(a, b))
        if not same:
            out.append(("agree:" + ("body" if f.startswith("body_") else f), "the same message read as .eml gives %s = %s, as single-message .mbox %s" % (
                f, short(a if f != "attachments" else [(x[0], x[1], len(x[2])) for x in a], 140),
                short(b if f != "attachments" else [(x[0], x[1], len(x[2])) for x in b], 140))))
    return out


def eval_mbox(case):
    specs = [to_spec(c) for c in case["specs"]]
    opts = _opts(case)
    data = mail.mbox(specs, opts)
    expd = mail.mbox_expected(specs, opts)
    wspecs = mail._mbox_specs(specs, opts)
    ref = mail.mbox_truth(data)
    amb = expd["ambiguous"]
    if not amb and len(ref) != len(specs):
        raise WriterInvalid("mbox %s: mailbox.mbox reads %d messages from a valid %d-message mboxo file" % (case, len(ref), len(specs)))
    try:
        res = run_mbox(data)
    except Exception as e:                               # noqa: BLE001
        if amb:
            return [], "ambiguous:raises"                # not a valid mboxo file (header-less fragment after the split): not judged
        return [("raises", "read_mbox_format_mail raised " + _exc(e))], "raises"
    if amb:
        # Which of the unescaped "From ..." body lines are separators is a matter of the reader's separator rule (mailbox.mbox: every
        # line starting with "From "; stricter readers also want the date part): any count between the written one and mailbox.mbox's
        # is a defensible reading of such a file.
        if not (min(len(specs), len(ref)) <= len(res) <= max(len(specs), len(ref))):
            return [("mbox_count", "unescaped From line in a body: %d messages written, mailbox.mbox reads %d, library yields %d" % (
                len(specs), len(ref), len(res)))], "ambiguous:count%d" % len(res)
        return [], "ambiguous:count%d/%d/%d" % (len(specs), len(ref), len(res))
    if len(res) != len(ref):
        return [("mbox_count", "mailbox.mbox reads %d messages, the library yields %d" % (len(ref), len(res)))], "count%d/%d" % (len(ref), len(res))
    gots = [lib_dict(c) for c in res]
    fulls = [mail.full_spec(s) for s in wspecs]

    def key(d, alt=None):
        return (ws(d["subject"]), ws(d["body_plain"]), ws(d["body_html"]))
    ek = [[key(m), key(dict(m, body_plain=m["body_plain_mboxo"], body_html=m["body_html_mboxo"]))] for m in expd["messages"]]
    gk = [key(g) for g in gots]
    if len(gots) > 1 and not all(g in e for g, e in zip(gk, ek)):
        flat = sorted(e[1] for e in ek)
        if sorted(gk) == flat or sorted(gk) == sorted(e[0] for e in ek):
            return [("mbox_order", "the messages come back in a different order: %s" % short(gk, 200))], "order"
    fails = []
    shapes = []
    for i, (m, g, full) in enumerate(zip(expd["messages"], gots, fulls)):
        alt = {"body_plain": m["body_plain_mboxo"], "body_html": m["body_html_mboxo"]}
        f1 = compare(m, g, full, alt, mboxo=True)
        fails += [(c, "message %d of %d: %s" % (i, len(gots), t)) for c, t in f1]
        fails += [(c, "message %d of %d: %s" % (i, len(gots), t)) for c, t in attachment_extract_fails(m, g, mboxo=True)]
        shapes.append(_shape(g))
    if len(specs) == 1 and not case.get("flb"):
        # the same message (same line ends) as .eml
        s1 = wspecs[0]
        try:
            er = run_eml(mail.eml(s1))
            if len(er) == 1:
                e = lib_dict(er[0])
                skip = {_CLAUSE_FIELD.get(c, c) for c, _ in fails} | {_CLAUSE_FIELD.get(c, c) for c, _ in compare(mail.truth(s1), e, fulls[0])}
                fails += agree_fails(e, gots[0], skip, None)
                CHECKS["agree_compared"] += 1
        except Exception:                                # noqa: BLE001 - reported by the eml case of the same spec
            pass
    return fails, "n%d %s" % (len(gots), shapes[0] if shapes else "")


# ----------------------------------------------------------------------------------------------------------------------
# .msg fixtures

def _ole_text(ole, path):
    try:
        return ole.openstream(path).read().decode("utf-16-le", "ignore").rstrip("\x00")
    except Exception:                                    # noqa: BLE001
        return None


def eval_msg(case):
    from sharepoint2text.parsing.extractors.mail.msg_email_extractor import read_msg_format_mail
    import olefile
    logging.disable(logging.CRITICAL)
    name = case["fixture"]
    with open(FIXTURES + name + ".msg", "rb") as f:
        msg_bytes = f.read()
    try:
        res = list(read_msg_format_mail(io.BytesIO(msg_bytes)))
    except Exception as e:                               # noqa: BLE001
        return [("raises", "read_msg_format_mail raised " + _exc(e))], "raises"
    if len(res) != 1:
        return [("msg_count", "read_msg_format_mail yielded %d results" % len(res))], "count"
    got = lib_dict(res[0])
    fails = []
    with open(FIXTURES + name + ".eml", "rb") as f:
        sib = mail.parse(f.read())
    sibling = _mid(sib["message_id"]) == _mid(got["message_id"]) and bool(_mid(sib["message_id"]))
    if sibling:
        ref, what = sib, "sibling " + name + ".eml (same Message-ID, read by the standard library)"
    else:
        # not the same message: the reference for the headers is the transport-header stream stored in the .msg itself
        with olefile.OleFileIO(io.BytesIO(msg_bytes)) as ole:
            hdr = _ole_text(ole, ["__substg1.0_007D001F"])
        if not hdr:
            return [], "msg:no-reference"
        ref, what = mail.parse(hdr.encode("utf-8") + b"\r\n\r\n"), "transport headers (PR_TRANSPORT_MESSAGE_HEADERS) of " + name + ".msg"
    if ws(ref["subject"]) != ws(got["subject"]):
        fails.append(("subject", "%s: subject %r, .msg gives %r" % (what, ref["subject"], got["subject"])))
    if [ws(ref["from"][0]), ref["from"][1].lower()] != [ws(got["from"][0]), (got["from"][1] or "").lower()]:
        fails.append(("from", "%s: from %r, .msg gives %r" % (what, ref["from"], got["from"])))
    for f in ("to", "cc"):
        e = [[ws(n), a.lower()] for n, a in ref[f]]
        g = [[ws(n), (a or "").lower()] for n, a in got[f]]
        if e != g:
            fails.append((f, "%s: %s %r, .msg gives %r" % (what, f, ref[f], got[f])))
    if mail._instant(ref["date"]) != mail._instant(got["date"] or ""):
        fails.append(("date", "%s: date %r, .msg gives %r" % (what, ref["date"], got["date"])))
    if _mid(ref["message_id"]) != _mid(got["message_id"]):
        fails.append(("message_id", "%s: message id %r, .msg gives %r" % (what, ref["message_id"], got["message_id"])))
    if sibling:
        for f in ("body_plain", "body_html"):
            e, g = ws(_ZW.sub("", ref[f])), ws(_ZW.sub("", got[f]))
            if f == "body_plain" and not e:
                continue                                 # a plain body derived from the HTML body is documented for .msg
            if f == "body_html" and not e:
                continue
            if e != g:
                fails.append((f, "%s: %s %s, .msg gives %s" % (what, f, short(ref[f], 120), short(got[f], 120))))
        ea = [(a[0], a[1], a[2]) for a in ref["attachments"]]
        ga = got["attachments"]
        af, _ = match_attachments(ea, ref["inline"], ga)
        fails += [(c, "%s: %s" % (what, t)) for c, t in af]
    return fails, "msg:%s %s" % ("sibling" if sibling else "headers", _shape(got))


# ----------------------------------------------------------------------------------------------------------------------
# contract

def evaluate(fmt, case):
    if fmt == "eml":
        return eval_eml(case)
    if fmt == "mbox":
        return eval_mbox(case)
    if fmt == "msg":
        return eval_msg(case)
    raise ValueError(fmt)


def reexec(fmt, case):
    try:
        fails, _ = evaluate(fmt, case)
    except (NotImplementedError, WriterInvalid):
        return []
    # one entry per clause
    seen, out = set(), []
    for c, m in fails:
        if c not in seen:
            seen.add(c)
            out.append((c, m))
    return out


def _shrink_spec(cs):
    for k in list(cs):
        c = {a: b for a, b in cs.items() if a != k}
        if k == "structure" and ("attachments" in c or "alt_extra" in c):
            continue
        yield c
    inner = cs.get("inner", 0)
    if isinstance(inner, dict):
        # embedded-message content family: towards the generator's default embedded message, one dimension at a time
        for c in _shrink_spec(inner):
            yield dict(cs, inner=c)
    elif inner > 3:
        yield dict(cs, inner=3)                        # nested twice -> embedded message with attachments
    if cs.get("structure") in (3, 6, 7) and "inner" not in cs:
        yield dict(cs, structure=4)                    # the plainest attachment-bearing structure
    if cs.get("structure") in (2, 3, 5) and "attachments" not in cs:
        yield dict(cs, structure=1)                    # the plainest structure with an HTML body
    for key in ("attachments", "alt_extra"):
        lst = cs.get(key) or []
        if len(lst) > 1:
            for i in range(len(lst)):
                yield dict(cs, **{key: lst[:i] + lst[i + 1:]})
        for i, a in enumerate(lst):
            for b in _shrink_form(a):
                yield dict(cs, **{key: lst[:i] + [b] + lst[i + 1:]})


def _shrink_form(a: str):
    """Simpler forms of a part-form atom: base64; no name / one name; the plain attachment disposition."""
    if not a.startswith("pf/"):
        return
    p = a.split("/")
    if p[4:]:
        yield "/".join(p[:4])
    t, d, n = p[1:4]
    for n2 in {"both": ("fn", "np"), "fn": ("none",), "np": ("none",)}.get(n, ()):
        if not (PF_DISP[d] is None and n2 == "fn"):
            yield "/".join(["pf", t, d, n2] + p[4:])
    if d != "att":
        yield "/".join(["pf", t, "att", n] + p[4:])


def shrinks(case):
    if "spec" in case:
        for c in _shrink_spec(case["spec"]):
            if expressible(c):
                yield {"spec": c}
        return
    if "specs" in case:
        specs = case["specs"]
        cands = []
        for i in range(len(specs)):
            if len(specs) > 1:
                cands.append(dict(case, specs=specs[:i] + specs[i + 1:]))
        if case.get("flb"):
            cands.append(dict(case, flb=None))
        if case.get("sep") != "standard":
            cands.append(dict(case, sep="standard"))
        for i in range(len(specs)):
            for c in _shrink_spec(specs[i]):
                cands.append(dict(case, specs=specs[:i] + [c] + specs[i + 1:]))
        for c in cands:
            if _mbox_ok(c):
                yield c


def _spec_embeds(small, big) -> bool:
    for k, v in small.items():
        if k not in big:
            return False
        if k in ("attachments", "alt_extra"):
            it = iter(big[k])
            if not all(any(a == b for b in it) for a in v):
                return False
        elif k == "inner" and isinstance(v, dict):
            if not (isinstance(big[k], dict) and _spec_embeds(v, big[k])):
                return False
        elif k == "structure" and ((v == 4 and big[k] in ATT_STRUCTS) or (v == 1 and big[k] in (1, 2, 3, 5))):
            continue                                   # 4 / 1: the plainest attachment-bearing / HTML-bearing structure (see _shrink_spec)
        elif big[k] != v:
            return False
    return True


def embeds(small, big) -> bool:
    if "fixture" in small or "fixture" in big:
        return small == big
    if "spec" in small:
        return "spec" in big and _spec_embeds(small["spec"], big["spec"])
    if "specs" not in big:
        return False
    if small.get("flb") and small.get("flb") != big.get("flb"):
        return False
    if small.get("sep") != "standard" and small.get("sep") != big.get("sep"):
        return False
    if small.get("env") and small.get("env") != big.get("env"):
        return False
    it = iter(big["specs"])
    return all(any(_spec_embeds(s, b) for b in it) for s in small["specs"])


def _batch(arg):
    items = arg
    logging.disable(logging.CRITICAL)
    out = {"ev": 0, "fails": [], "outcomes": {}, "herr": [], "per_fmt": {}, "samples": []}
    for fmt, case in items:
        P.note([fmt, case])
        try:
            with P.soft_budget(60):
                fails, oc = evaluate(fmt, case)
        except NotImplementedError:
            continue
        except WriterInvalid as e:
            out["herr"].append("writer-invalid: " + str(e)[:500])
            continue
        except P.CaseTimeout:
            fails, oc = [("timeout", "case did not finish within 60 s")], "timeout"
        except Exception as e:                           # noqa: BLE001 - harness-side exception
            import traceback
            out["herr"].append("harness exception on %s %s: %s" % (fmt, json.dumps(case), traceback.format_exc()[-800:]))
            continue
        out["ev"] += 1
        out["per_fmt"][fmt] = out["per_fmt"].get(fmt, 0) + 1
        seen = set()
        for c, m in fails:
            if c in seen:
                continue
            seen.add(c)
            out["fails"].append((c, fmt, case, m))
        k = "%s|%s|%s" % (fmt, oc, ",".join(sorted(seen)) or "ok")
        out["outcomes"][k] = out["outcomes"].get(k, 0) + 1
    out["checks"] = dict(CHECKS)
    for k in CHECKS:
        CHECKS[k] = 0
    return out


def run(ctx):
    cases = all_cases(ctx.tier)
    order = list(range(len(cases)))
    random.Random(ctx.seed).shuffle(order)
    nb = max(ctx.ncpu * 6, 1)
    batches = [[cases[i] for i in order[k::nb]] for k in range(nb)]
    batches = [b for b in batches if b]
    res = P.run_all("verif.props.C16", "_batch", batches, n=ctx.ncpu, hard_timeout=900)
    ev = 0
    fails, herr, outcomes, per_fmt, checks = [], [], {}, {}, {}
    for (st, r, note), b in zip(res, batches):
        if st != "done":
            herr.append("batch failed: %s: %s (last case %s)" % (st, str(r)[-600:], json.dumps(note)[:300]))
            continue
        ev += r["ev"]
        fails += [tuple(x) for x in r["fails"]]
        herr += r["herr"]
        for k, v in r["outcomes"].items():
            outcomes[k] = outcomes.get(k, 0) + v
        for k, v in r["per_fmt"].items():
            per_fmt[k] = per_fmt.get(k, 0) + v
        for k, v in r["checks"].items():
            checks[k] = checks.get(k, 0) + v
    nsingle = len({json.dumps(c["spec"], sort_keys=True) for f, c in cases if f == "eml"})
    samples = []
    for fmt, case in (cases[0], cases[1], [c for c in cases if c[0] == "mbox" and len(c[1]["specs"]) == 3][0], cases[-1]):
        s = {"fmt": fmt, "case": case}
        if fmt == "eml":
            s["bytes"] = mail.eml(to_spec(case["spec"])).decode("latin-1")[:400]
        samples.append(s)
    n_inner = sum(1 for f, c in cases if f == "eml" and isinstance(c["spec"].get("inner"), dict))
    cov = {"evaluations": ev, "distinct_nontrivial": len(outcomes), "exhaustive": True,
           "rule": "every message spec with <= 2 deviating dimensions over the 17-dimension grammar of verif.gen.mail (quick: 2-deviations "
                   "only with structure or charset), plus attachment lists (15 atoms as singletons, all ordered pairs over {txt, docx, "
                   "bin256, noname}, the permutations of [txt, docx, bin256]) x 4 attachment-bearing structures (thorough: x one more "
                   "deviation), plus the full product structure x charset x transfer encoding x line end (thorough: x 3 body texts), 4 embedded-message variants of rfc822-attachment (x one more deviation); "
                   "the charset family: %d charset labels x %d sample texts x 4 transfer encodings where encodable / carriable (quick: structure "
                   "alternative, CRLF; thorough: x 8 structures x 2 line ends) and %d subjects written as B/Q encoded-words in every octet charset "
                   "(thorough: also with the body in that charset), quick: as .eml and standard mbox only; the part-form family: %d part-form atoms "
                   "(%d content types x Content-Disposition {attachment, ATTACHMENT, inline, absent} x name {none, filename, name on Content-Type, both} "
                   "where expressible; unnamed text/plain|html without an attachment disposition excluded as bodies; thorough: x base64|quoted-printable) as the "
                   "only attachment of mixed-plain-att-att and as a third representation in multipart/alternative, + ordered pairs over a 4-form alphabet "
                   "(thorough: x 4 attachment-bearing and 2 alternative-bearing structures x 2 line ends x 3 separator forms), quick: as .eml and standard mbox only; "
                   "the embedded-message content family: the message/rfc822 attachment of structure rfc822-attachment with every value of every "
                   "one of the 17 dimensions as the embedded message's only deviation, the product 8 body texts x 4 transfer encodings x 5 charsets "
                   "of the embedded message (thorough: x 3 embedded structures, + all value pairs of two of 8 dimensions inside the embedded message, "
                   "+ every single deviation of the embedded x every single charset / transfer-encoding / body-text deviation of the carrying message), a message embedded in the embedded "
                   "message (4 body texts x 4 transfer encodings), each x CRLF|LF of the carrying message (%d specs), quick: as .eml and standard mbox only, "
                   "+ all ordered pairs and triples over {plain message, message carrying a message with a From_ body line} x 3 separators; each spec as .eml and as single-message mbox x {standard, no-blank-line, crlf}; the <=1-deviation specs also "
                   "with the escaped / unescaped From-line body variant; all ordered pairs and triples over a 6-spec alphabet x 3 separators x "
                   "3 From-line variants; the empty mailbox; 2 .msg fixtures. distinct_nontrivial = distinct (format, observed shape, "
                   "violated clauses) classes" % (len(DOM["charset"]), len(TEXTS) - 1, len(DOM["subject"]) - BASE_LEN["subject"],
                                                 len(pf_atoms(ctx.tier)), len(PF_TYPES), n_inner),
           "bounds": {"charset_labels": len(DOM["charset"]), "sample_texts": len(TEXTS) - 1, "transfer_encodings": len(DOM["cte"]),
                      "charset_family_specs": sum(1 for f, c in cases if f == "eml" and "text" in c["spec"]),
                      "partform_atoms": len(pf_atoms(ctx.tier)), "partform_types": len(PF_TYPES),
                      "partform_specs": sum(1 for f, c in cases if f == "eml" and any(
                          a.startswith("pf/") for a in c["spec"].get("attachments", []) + c["spec"].get("alt_extra", []))),
                      "embedded_message_content_specs": n_inner, "embedded_body_texts": BASE_LEN["body_plain"],
                      "embedded_nesting_depth": 2,
                      "subject_charset_specs": sum(1 for f, c in cases if f == "eml" and c["spec"].get("subject", 0) >= BASE_LEN["subject"])},
           "message_specs": nsingle, "per_format": per_fmt, "sub_checks": checks, "outcomes": dict(sorted(outcomes.items(), key=lambda kv: -kv[1])[:80]),
           "samples": samples}
    assumptions = [
        "text is compared modulo white-space runs (subject, display names, bodies); a folded subject returned with its CR/LF is reported "
        "under its own clause subject_linebreak",
        "bodies are judged only where the structure has such a part (whether a plain body is derived from an HTML-only message is not judged); "
        "with charset unknown-8bit only the ASCII skeleton of a body is judged",
        "dates are compared as instants (a naive ISO value counts as UTC); message ids modulo the surrounding angle brackets",
        "the name of an attachment without a filename parameter is not judged (the library invents a placeholder)",
        "the bytes of a message/rfc822 attachment are compared modulo CRLF/LF (7bit/8bit parts have transport line ends) and, failing that, "
        "as messages (a re-serialised but equivalent embedded message, e.g. 8bit turned into quoted-printable, is accepted); the inline image "
        "of multipart/related may or may not be listed as an attachment",
        "mbox bodies: both the original text and the mboxo-escaped ('>From ') text as mailbox.mbox reads it back are accepted; likewise a "
        "message/rfc822 attachment read from an mbox file is accepted with its 'From ' lines in either form (in an .eml file only the exact lines)",
        "mbox with an *unescaped* From line in a body is not a valid mboxo file: only the message count is judged (any count from the written "
        "one to mailbox.mbox's is accepted) and an exception there is not judged",
        "att_extract is evaluated only for attachments whose type and bytes came back right; 'supported' = routable by file name and/or "
        "listed MIME type; name-only / mime-only routability is reported under separate clauses",
        "part-form family: a carried part counts as a file (attachment with its type and exact bytes, its name when it has one) when it has "
        "Content-Disposition attachment (any letter case), or a file name (filename on Content-Disposition or name on Content-Type; the former "
        "wins when both are given, as the standard library reads it), or a content type other than text/plain and text/html; an unnamed "
        "text/plain or text/html part without an attachment disposition is a body and is not part of the family (whether a second such part "
        "is appended to the body is not judged)",
        ".msg: fixtures only; basic_email.msg and basic_email.eml are different messages (different Message-ID), so basic_email.msg is "
        "compared with the transport-header stream stored inside the .msg; reply_to/bcc/in_reply_to of .msg are not judged",
    ]
    return {"coverage": cov, "failures": fails, "harness_errors": herr, "assumptions": assumptions}
