"""C01 helper: encrypted PDFs that OPEN WITH THE EMPTY PASSWORD, with forged encryption parameters.

A reader decrypts such a file without being given anything, so every field of the encryption dictionary (and every
ciphertext) is input that reaches the decryption code of pypdf and of the library's pure-Python AES.  The writer here is
independent of both (standard security handler written from ISO 32000-1 7.6 and Adobe Supplement ExtensionLevel 3; RC4 from its
definition; AES from verif.ref.aes) and serialises the file by hand (objects, xref table, trailer).

    build(seed, devs) -> bytes         seed in SEEDS, devs = [[field, value], ...] (0, 1 or 2 deviations from the seed)

Seeds (two pages with one text line each, /Info /Title as an encrypted string):
    rc4      /V 2 /R 3 /Length 128                       RC4, 16-byte file key
    aes      /V 4 /R 4 /Length 128 /CF StdCF = AESV2     AES-128-CBC per object key (Algorithm 1 with "sAlT")
    aes256   /V 5 /R 5 /Length 256 /CF StdCF = AESV3     AES-256-CBC with the file key (/U /UE /O /OE /Perms of revision 5)

A deviation forges ONE field and keeps everything that depends on it consistent, as an odd but self-consistent writer would:
/O and /U are recomputed from the forged /R, /Length, /P, /ID and /EncryptMetadata, so the empty password still
authenticates and the reader goes on to decrypt with the forged parameters.  Strings and streams are encrypted with what the
forged dictionary declares whenever that is possible (RC4 with any key length; AES only with 16 / 32 byte keys); where no
cipher exists for the declared parameters (AES with a 10-byte key ...) the ciphertext is a fixed filler of IV + one block.

FIELDS: field -> values (the value lattice of every field; a value equal to the seed's own is skipped)
"""
from __future__ import annotations

import hashlib
import struct

from verif.ref import aes as _aes

_PAD = bytes.fromhex("28BF4E5E4E758A4164004E56FFFA01082E2E00B6D0683E802F0CA9FE6453697A")

SEEDS = {
    "rc4": {"V": 2, "R": 3, "length": 128, "cf": False, "cfm": "V2", "stmf": "StdCF", "strf": "StdCF", "cf_length": None},
    "aes": {"V": 4, "R": 4, "length": 128, "cf": True, "cfm": "AESV2", "stmf": "StdCF", "strf": "StdCF", "cf_length": 16},
    "aes256": {"V": 5, "R": 5, "length": 256, "cf": True, "cfm": "AESV3", "stmf": "StdCF", "strf": "StdCF", "cf_length": 32},
}
_COMMON = {"O": "ok", "U": "ok", "P": -4, "encrypt_metadata": None, "id": "ok", "stream": "ok", "string": "ok", "filter": "Standard",
           "subfilter": None}

CIPHERTEXT_VARIANTS = ["empty", "iv-only", "cut15", "plus1", "badpad0", "badpad255"]
FIELDS = {
    "V": [0, 1, 2, 3, 4, 5, 6],
    "R": [0, 2, 3, 4, 5, 6, 7],
    "length": [None, 0, 8, 40, 64, 128, 136, 256, 65528],          # bits, as written in the dictionary
    "cf": [False, True],                                           # /CF /StmF /StrF written or not
    "cfm": ["V2", "AESV2", "AESV3", "Identity", "None", "Bogus"],  # "None": crypt filter dictionary without /CFM
    "stmf": ["StdCF", "Identity", "Absent", "Missing"],            # "Missing": names a filter that /CF does not hold
    "strf": ["StdCF", "Identity", "Absent", "Missing"],
    "cf_length": [None, 0, 5, 16, 32],
    "O": ["short", "empty", "absent", "long"],
    "U": ["short", "empty", "absent", "long"],
    "P": [0, -1, 2 ** 31 - 1, "absent"],
    "encrypt_metadata": [False, True],
    "id": ["absent", "empty"],
    "stream": CIPHERTEXT_VARIANTS,
    "string": CIPHERTEXT_VARIANTS,
    "filter": ["Bogus", "absent"],
    "subfilter": ["adbe.pkcs7.s4"],
}


def deviations(seed: str) -> list:
    """every single deviation [field, value] of `seed`, in FIELDS order"""
    base = dict(_COMMON, **SEEDS[seed])
    return [[f, v] for f, vals in FIELDS.items() for v in vals if base[f] != v]


def deviation_pairs(seed: str) -> list:
    """every pair of deviations in two different fields"""
    ds = deviations(seed)
    return [[a, b] for i, a in enumerate(ds) for b in ds[i + 1:] if a[0] != b[0]]


# ------------------------------------------------------------------------------------------------ primitives
def rc4(key: bytes, data: bytes) -> bytes:
    if not key:
        return data                     # no key stream can be derived from an empty key: leave the bytes alone
    s = list(range(256))
    j = 0
    for i in range(256):
        j = (j + s[i] + key[i % len(key)]) & 255
        s[i], s[j] = s[j], s[i]
    out = bytearray(len(data))
    i = j = 0
    for k, c in enumerate(data):
        i = (i + 1) & 255
        j = (j + s[i]) & 255
        s[i], s[j] = s[j], s[i]
        out[k] = c ^ s[(s[i] + s[j]) & 255]
    return bytes(out)


def _pkcs(data: bytes) -> bytes:
    n = 16 - len(data) % 16
    return data + bytes([n]) * n


def _iv(tag: str) -> bytes:
    return hashlib.md5(("verif-c01-iv:" + tag).encode()).digest()


def _legacy_values(rev: int, n: int, perms: int, id0: bytes, enc_meta) -> tuple:
    """(O, U, file key) for the empty user and owner password, revisions 2-4 (Algorithms 2-5), key length n bytes"""
    r3 = rev != 2
    h = hashlib.md5(_PAD).digest()
    if r3:
        for _ in range(50):
            h = hashlib.md5(h).digest()
    okey = h[:n]
    o = rc4(okey, _PAD)
    if r3:
        for i in range(1, 20):
            o = rc4(bytes(b ^ i for b in okey), o)
    m = hashlib.md5(_PAD + o + struct.pack("<I", perms & 0xFFFFFFFF) + id0)
    if rev >= 4 and enc_meta is False:
        m.update(b"\xff\xff\xff\xff")
    h = m.digest()
    if r3:
        for _ in range(50):
            h = hashlib.md5(h[:n]).digest()
    key = h[:n]
    if not r3:
        u = rc4(key, _PAD)
    else:
        u = rc4(key, hashlib.md5(_PAD + id0).digest())
        for i in range(1, 20):
            u = rc4(bytes(b ^ i for b in key), u)
        u += b"\x00" * 16
    return o, u, key


def _r5_values(perms: int, enc_meta) -> dict:
    """/U /UE /O /OE /Perms and the 32-byte file key for the empty passwords, revision 5 (Adobe Supplement, ExtensionLevel 3)"""
    fkey = hashlib.sha256(b"verif-c01-file-key").digest()
    salt = lambda t: hashlib.md5(("verif-c01-salt:" + t).encode()).digest()[:8]   # noqa: E731
    uvs, uks, ovs, oks = salt("uv"), salt("uk"), salt("ov"), salt("ok")
    u = hashlib.sha256(uvs).digest() + uvs + uks
    ue = _aes.cbc_encrypt(hashlib.sha256(uks).digest(), bytes(16), fkey)
    o = hashlib.sha256(ovs + u).digest() + ovs + oks
    oe = _aes.cbc_encrypt(hashlib.sha256(oks + u).digest(), bytes(16), fkey)
    block = struct.pack("<I", perms & 0xFFFFFFFF) + b"\xff\xff\xff\xff" + (b"F" if enc_meta is False else b"T") + b"adb" + b"vrf1"
    return {"O": o, "U": u, "OE": oe, "UE": ue, "Perms": _aes.ecb_encrypt(fkey, block), "key": fkey}


def _variant(ct: bytes, how: str, is_aes: bool, key, tag: str) -> bytes:
    """ciphertext variants; for AES the padding variants re-encrypt a plaintext whose last byte is forged"""
    if how == "ok":
        return ct
    if how == "empty":
        return b""
    if how == "iv-only":
        return ct[:16]
    if how == "cut15":
        return ct[:15]
    if how == "plus1":
        return ct + b"\x00"
    if how in ("badpad0", "badpad255"):
        last = 0 if how == "badpad0" else 255
        if is_aes and key is not None and len(key) in (16, 32):
            iv = _iv(tag)
            return iv + _aes.cbc_encrypt(key, iv, b"verif-c01-block"[:15] + bytes([last]))
        return ct[:-1] + bytes([last])
    raise ValueError(how)


# ------------------------------------------------------------------------------------------------ the writer
def build(seed: str, devs=()) -> bytes:
    p = dict(_COMMON, **SEEDS[seed])
    for f, v in devs:
        if f not in FIELDS:
            raise ValueError(f)
        p[f] = v
    V, R, length, perms = p["V"], p["R"], p["length"], p["P"]
    pnum = -4 if perms == "absent" else perms
    id0 = b"" if p["id"] in ("absent", "empty") else hashlib.md5(b"verif-c01-pdfenc:" + seed.encode()).digest()
    n = 5 if (V == 1 or length is None) else max(0, length // 8)

    extra = {}
    if V >= 5 or R >= 5:
        vals = _r5_values(pnum, p["encrypt_metadata"])
        o, u, fkey = vals["O"], vals["U"], vals["key"]
        extra = {k: vals[k] for k in ("OE", "UE", "Perms")}
    else:
        o, u, fkey = _legacy_values(R, n, pnum, id0, p["encrypt_metadata"])

    # what the dictionary declares for strings / streams
    def method(which: str) -> str:
        if V < 4 or not p["cf"]:
            return "V2" if V < 4 else "Identity"
        name = p[which]
        if name in ("Identity", "Absent"):
            return "Identity"
        if name == "Missing":
            return "V2"
        return {"None": "V2", "Bogus": "V2"}.get(p["cfm"], p["cfm"])

    def encrypt(which: str, num: int, data: bytes, how: str) -> bytes:
        m = method(which)
        tag = f"{seed}:{which}:{num}"
        if m == "Identity":
            return data if how == "ok" else _variant(data, how, False, None, tag)
        okd = hashlib.md5(fkey[:n] + struct.pack("<I", num)[:3] + b"\x00\x00")
        if m == "V2":
            k = okd.digest()[:min(n + 5, 16)]
            return _variant(rc4(k, data), how, False, k, tag)
        if m == "AESV2":
            okd.update(b"sAlT")
            k = okd.digest()[:min(n + 5, 16)]
        else:
            k = fkey
        iv = _iv(tag)
        if len(k) in (16, 32):
            ct = iv + _aes.cbc_encrypt(k, iv, _pkcs(data))
        else:
            ct = iv + hashlib.md5(data).digest()            # no such cipher: IV + one block of filler
            k = None
        return _variant(ct, how, True, k, tag)

    def hexs(b: bytes) -> bytes:
        return b"<" + b.hex().encode("ascii") + b">"

    def trim(b: bytes, how: str):
        return {"ok": b, "short": b[:16], "empty": b"", "long": b + b"\x00" * 17}.get(how)

    pages = [b"BT /F1 12 Tf 72 720 Td (Bkqzv first page) Tj ET\n", b"BT /F1 12 Tf 72 720 Td (Bwrtn second page) Tj ET\n"]
    objs = {
        1: b"<< /Type /Catalog /Pages 2 0 R >>",
        2: b"<< /Type /Pages /Kids [4 0 R 6 0 R] /Count 2 >>",
        3: b"<< /Type /Font /Subtype /Type1 /BaseFont /Helvetica /Encoding /WinAnsiEncoding >>",
    }
    for k, content in enumerate(pages):
        pno = 4 + 2 * k
        objs[pno] = (b"<< /Type /Page /Parent 2 0 R /MediaBox [0 0 612 792] /Resources << /Font << /F1 3 0 R >> >> /Contents %d 0 R >>"
                     % (pno + 1))
        ct = encrypt("stmf", pno + 1, content, p["stream"])
        objs[pno + 1] = b"<< /Length %d >>\nstream\n" % len(ct) + ct + b"\nendstream"
    objs[8] = b"<< /Title " + hexs(encrypt("strf", 8, b"Ztitle", p["string"])) + b" /Producer " + \
        hexs(encrypt("strf", 8, b"verif", p["string"])) + b" >>"

    d = []
    if p["filter"] != "absent":
        d.append(b"/Filter /" + p["filter"].encode("ascii"))
    if p["subfilter"]:
        d.append(b"/SubFilter /" + p["subfilter"].encode("ascii"))
    d.append(b"/V %d /R %d" % (V, R))
    if length is not None:
        d.append(b"/Length %d" % length)
    if p["cf"]:
        cfd = b"/AuthEvent /DocOpen"
        if p["cfm"] != "None":
            cfd = b"/CFM /" + p["cfm"].encode("ascii") + b" " + cfd
        if p["cf_length"] is not None:
            cfd += b" /Length %d" % p["cf_length"]
        d.append(b"/CF << /StdCF << " + cfd + b" >> >>")
        for key, name in (("stmf", b"/StmF"), ("strf", b"/StrF")):
            if p[key] != "Absent":
                d.append(name + b" /" + {"Missing": "NoSuchCF"}.get(p[key], p[key]).encode("ascii"))
    for key, val in (("O", o), ("U", u)):
        if p[key] != "absent":
            d.append(b"/" + key.encode() + b" " + hexs(trim(val, p[key])))
    for key in ("OE", "UE", "Perms"):
        if key in extra:
            d.append(b"/" + key.encode() + b" " + hexs(extra[key]))
    if perms != "absent":
        d.append(b"/P %d" % perms)
    if p["encrypt_metadata"] is not None:
        d.append(b"/EncryptMetadata " + (b"true" if p["encrypt_metadata"] else b"false"))
    objs[9] = b"<< " + b" ".join(d) + b" >>"

    out = bytearray(b"%PDF-1.7\n%\xe2\xe3\xcf\xd3\n")
    offsets = {}
    for num in sorted(objs):
        offsets[num] = len(out)
        out += b"%d 0 obj\n" % num + objs[num] + b"\nendobj\n"
    xref = len(out)
    out += b"xref\n0 %d\n0000000000 65535 f \n" % (len(objs) + 1)
    for num in sorted(objs):
        out += b"%010d 00000 n \n" % offsets[num]
    trailer = b"/Size %d /Root 1 0 R /Info 8 0 R /Encrypt 9 0 R" % (len(objs) + 1)
    if p["id"] != "absent":
        trailer += b" /ID [" + hexs(id0) + b" " + hexs(id0) + b"]"
    out += b"trailer\n<< " + trailer + b" >>\nstartxref\n%d\n%%%%EOF\n" % xref
    return bytes(out)


def selftest() -> list:
    """the three seeds must be read back by the library with their text and title (writer validity); -> problems"""
    import io
    from sharepoint2text.parsing.router import _get_extractor
    bad = []
    for seed in SEEDS:
        try:
            res = list(_get_extractor("pdf")(io.BytesIO(build(seed)), "seed.pdf"))
            text = res[0].get_full_text()
            import pypdf
            rd = pypdf.PdfReader(io.BytesIO(build(seed)))
            rd.decrypt("")
            title = (rd.metadata or {}).get("/Title")          # encrypted string (the library does not expose /Info)
            if "Bkqzv" not in text or "Bwrtn" not in text:
                bad.append(f"{seed}: text {text!r}")
            if title != "Ztitle":
                bad.append(f"{seed}: title {title!r}")
        except Exception as e:  # noqa
            bad.append(f"{seed}: {type(e).__name__}: {e} / {e.__cause__!r}")
    return bad


if __name__ == "__main__":
    problems = selftest()
    print("\n".join(problems) if problems else "c01_pdfenc selftest ok")
    raise SystemExit(1 if problems else 0)
