"""Findings: shrinking, fingerprints, attribution by embedding, known-findings protocol, replay files.

A *case* is a JSON-serialisable value (nested lists / dicts / str / int). A *failure* is
(clause, fmt, case, message). Tokens inside cases are strings matching TOKEN_RE; fingerprints abstract
them to class#index so that VERIF_SEED (which only permutes the token alphabet) cannot change them.
"""
from __future__ import annotations

import hashlib
import json
import os
import re
from typing import Any, Callable, Iterable

ROOT = os.path.dirname(os.path.dirname(os.path.dirname(os.path.abspath(__file__))))
KNOWN_PATH = os.path.join(ROOT, "known_findings.json")
TOKEN_RE = re.compile(r"^[A-Z][bcdfghjklmnpqrstvwxz]{4,6}$")


def is_token(x: Any) -> bool:
    return isinstance(x, str) and TOKEN_RE.match(x) is not None


def abstract(case: Any) -> Any:
    """Replace tokens by class#index (index = order of first occurrence per class)."""
    seen: dict[str, str] = {}
    counters: dict[str, int] = {}

    def go(x):
        if is_token(x):
            if x not in seen:
                c = x[0]
                counters[c] = counters.get(c, 0) + 1
                seen[x] = f"{c}#{counters[c]}"
            return seen[x]
        if isinstance(x, (list, tuple)):
            return [go(y) for y in x]
        if isinstance(x, dict):
            return {k: go(v) for k, v in sorted(x.items())}
        return x
    return go(case)


def canon(case: Any) -> str:
    return json.dumps(abstract(case), sort_keys=True, ensure_ascii=True, separators=(",", ":"))


def size(case: Any) -> int:
    if isinstance(case, (list, tuple)):
        return 1 + sum(size(x) for x in case)
    if isinstance(case, dict):
        return 1 + sum(size(v) for v in case.values())
    if isinstance(case, (str, bytes)) and not is_token(case):
        return 1 + len(case) // 16
    return 1


def fingerprint(prop: str, fmt: str, clause: str, minimal_case: Any) -> str:
    h = hashlib.sha1()
    h.update(json.dumps([prop, fmt, clause, abstract(minimal_case)], sort_keys=True, ensure_ascii=True).encode())
    return h.hexdigest()[:16]


def _leaf_eq(a, b) -> bool:
    if is_token(a) and is_token(b):
        return a[0] == b[0]
    return a == b


def embeds(small: Any, big: Any) -> bool:
    """Homeomorphic embedding of nested lists/dicts: small is obtainable from big by deleting nodes.
    None in the small case means 'absent' and matches anything."""
    if small is None:
        return True
    if isinstance(small, dict):
        if isinstance(big, dict):
            if all(k in big and embeds(v, big[k]) for k, v in small.items()):
                return True
            return any(embeds(small, v) for v in big.values())
        if isinstance(big, (list, tuple)):
            return any(embeds(small, v) for v in big)
        return False
    if isinstance(small, (list, tuple)):
        if isinstance(big, (list, tuple)):
            # subsequence match with recursive embedding
            i = 0
            for b in big:
                if i < len(small) and embeds(small[i], b):
                    i += 1
            if i == len(small):
                return True
            return any(embeds(small, b) for b in big)
        if isinstance(big, dict):
            return any(embeds(small, v) for v in big.values())
        return False
    # leaf
    if isinstance(big, (list, tuple)):
        return any(embeds(small, b) for b in big)
    if isinstance(big, dict):
        return any(embeds(small, v) for v in big.values())
    return _leaf_eq(small, big)


def generic_shrinks(case: Any) -> Iterable[Any]:
    """Smaller cases: delete one list element anywhere / replace a list node by one of its list children."""
    if isinstance(case, list):
        for i in range(len(case)):
            if isinstance(case[i], (list, dict)) or is_token(case[i]):
                yield case[:i] + case[i + 1:]
        for i, x in enumerate(case):
            if isinstance(x, list):
                # hoist a child list of x in place of x (same constructor position)
                for y in x:
                    if isinstance(y, list) and y and isinstance(y[0], str) and x and isinstance(x[0], str) and not is_token(y[0]):
                        yield case[:i] + [y] + case[i + 1:]
            for sx in generic_shrinks(x):
                yield case[:i] + [sx] + case[i + 1:]
    elif isinstance(case, dict):
        for k in sorted(case):
            for sv in generic_shrinks(case[k]):
                d = dict(case)
                d[k] = sv
                yield d


def load_known() -> dict:
    try:
        with open(KNOWN_PATH) as f:
            return json.load(f)
    except FileNotFoundError:
        return {"findings": [], "fixed": []}


class Triage:
    """Turns the failing cases of one run into VIOLATION / KNOWN-FINDING lines."""

    def __init__(self, prop: str, reexec: Callable[[str, Any], list], shrinks: Callable[[Any], Iterable[Any]] | None = None,
                 embeds_fn: Callable[[Any, Any], bool] | None = None, max_shrink_steps: int = 4000,
                 view: Callable[[Any], Any] | None = None):
        self.prop = prop
        self.reexec = reexec          # (fmt, case) -> list of (clause, message)
        self.shrinks = shrinks or generic_shrinks
        self.embeds = embeds_fn or embeds
        self.max_shrink_steps = max_shrink_steps
        self.view = view or (lambda c: c)     # part of a case that identifies the finding (fingerprint input)
        self.shapes: dict[tuple, dict] = {}   # (fmt, clause, fp) -> info
        self.known_fps = {k["fingerprint"] for k in load_known().get("findings", []) if k.get("property") == prop}
        self.max_new_shapes = int(os.environ.get("VERIF_MAX_NEW_SHAPES", "12"))
        self.new_shapes = 0
        self.unattributed = 0
        self.harness_errors: list[str] = []
        self.reexecs = 0

    def _fails(self, fmt, case, clause) -> str | None:
        self.reexecs += 1
        for c, m in self.reexec(fmt, case):
            if c == clause:
                return m
        return None

    def shrink(self, fmt, clause, case):
        cur = case
        steps = 0
        improved = True
        while improved and steps < self.max_shrink_steps:
            improved = False
            for cand in self.shrinks(cur):
                steps += 1
                if steps >= self.max_shrink_steps:
                    break
                try:
                    if self._fails(fmt, cand, clause) is not None:
                        cur = cand
                        improved = True
                        break
                except Exception:
                    continue
        return cur

    def add_failures(self, failures: list):
        """failures: list of (clause, fmt, case, message); processed in canonical (simplest-first) order."""
        failures = sorted(failures, key=lambda f: (size(f[2]), f[1], f[0], json.dumps(abstract(f[2]), sort_keys=True)))
        for clause, fmt, case, msg in failures:
            if self.new_shapes >= self.max_new_shapes:
                # enough distinct new violations to report; the remaining failing cases are only counted
                self.unattributed += 1
                continue
            hit = None
            for key, info in self.shapes.items():
                if key[0] == fmt and key[1] == clause and self.embeds(info["minimal"], case):
                    hit = info
                    break
            if hit is not None:
                hit["count"] += 1
                continue
            # replay twice before believing it
            m1 = self._fails(fmt, case, clause)
            m2 = self._fails(fmt, case, clause)
            if m1 is None or m2 is None:
                # The failure was observed during the sweep but the same case passes when re-executed on its own:
                # the outcome depends on something other than the case (history / hidden state). Every property here
                # requires results to be a function of the case, so this is reported as a violation of its own clause.
                fp = fingerprint(self.prop, fmt, "unstable:" + clause, [])
                key = (fmt, "unstable:" + clause, fp)
                if key in self.shapes:
                    self.shapes[key]["count"] += 1
                else:
                    self.new_shapes += 1
                    self.shapes[key] = {"fingerprint": fp, "fmt": fmt, "clause": "unstable:" + clause, "minimal": case,
                                        "message": f"failed in the sweep ({msg}) but not when re-executed alone", "first_case": case, "count": 1}
                continue
            minimal = self.shrink(fmt, clause, case)
            fp = fingerprint(self.prop, fmt, clause, self.view(minimal))
            key = (fmt, clause, fp)
            if key in self.shapes:
                self.shapes[key]["count"] += 1
                continue
            mm = self._fails(fmt, minimal, clause) or msg
            if fp not in self.known_fps:
                self.new_shapes += 1
            self.shapes[key] = {"fingerprint": fp, "fmt": fmt, "clause": clause, "minimal": minimal, "message": mm,
                                "first_case": case, "count": 1}

    def report(self, replay_dir: str | None = None) -> tuple[int, int, list[str]]:
        """Print lines; returns (violations, known, lines)."""
        known = {k["fingerprint"]: k for k in load_known().get("findings", []) if k.get("property") == self.prop}
        replay_dir = replay_dir or os.path.join(os.environ.get("VERIF_REPLAY_DIR") or os.path.join(ROOT, "replays"), self.prop)
        lines = []
        nv = nk = 0
        for key in sorted(self.shapes, key=lambda k: (k[0], k[1], k[2])):
            info = self.shapes[key]
            fp = info["fingerprint"]
            if fp in known:
                nk += 1
                lines.append(f"KNOWN-FINDING: property={self.prop} fingerprint={fp} fmt={info['fmt']} clause={info['clause']} "
                             f"cases={info['count']} :: {known[fp].get('what', '')}")
            else:
                nv += 1
                os.makedirs(replay_dir, exist_ok=True)
                path = os.path.join(replay_dir, f"{fp}.json")
                with open(path, "w") as f:
                    json.dump({"property": self.prop, "fingerprint": fp, "fmt": info["fmt"], "clause": info["clause"],
                               "case": info["minimal"], "abstract": abstract(info["minimal"]), "message": info["message"],
                               "first_failing_case": info["first_case"], "failing_cases_attributed": info["count"],
                               "pytest": (f"def test_replay_{self.prop}_{fp}():\n    import subprocess\n"
                                          f"    assert subprocess.call(['/verif/check', '{self.prop}', '--replay', '{path}']) == 0\n")},
                              f, indent=1, ensure_ascii=True)
                lines.append(f"VIOLATION property={self.prop} replay={path}")
                lines.append(f"  detail: fmt={info['fmt']} clause={info['clause']} cases={info['count']} minimal={json.dumps(abstract(info['minimal']))[:400]} :: {str(info['message'])[:400]}")
        if self.unattributed:
            lines.append(f"  note: {self.unattributed} further failing cases were not triaged (cap of {self.max_new_shapes} new shapes reached)")
        for h in self.harness_errors:
            lines.append(f"HARNESS-ERROR property={self.prop} {h}")
        return nv, nk, lines
