"""Evidence writer (self-checked against the required keys of EVIDENCE.schema.json)."""
from __future__ import annotations

import json
import os

ROOT = os.path.dirname(os.path.dirname(os.path.dirname(os.path.abspath(__file__))))


def _jsonable(x):
    try:
        json.dumps(x)
        return x
    except Exception:
        if isinstance(x, dict):
            return {str(k): _jsonable(v) for k, v in x.items()}
        if isinstance(x, (list, tuple, set)):
            return [_jsonable(v) for v in x]
        return repr(x)


def write_evidence(prop, tier, seed, level, coverage, assumptions, wall_s, violations):
    cov = _jsonable(dict(coverage))
    need = {"exploration": ["evaluations", "distinct_nontrivial", "rule", "samples"],
            "fault_enumeration": ["evaluations", "distinct_nontrivial", "rule", "samples"],
            "model_checking": ["states", "transitions", "traces_validated_against_impl", "samples"]}[level]
    for k in need:
        if k not in cov:
            raise SystemExit(f"evidence for {prop}: coverage key {k} missing")
    if not isinstance(cov["samples"], list) or not cov["samples"]:
        raise SystemExit(f"evidence for {prop}: samples empty")
    doc = {"property_id": prop, "tier": tier, "seed": int(seed), "level": level, "coverage": cov,
           "assumptions": list(assumptions), "wall_s": round(float(wall_s), 2), "violations": int(violations)}
    os.makedirs(os.path.join(ROOT, "evidence"), exist_ok=True)
    path = os.path.join(ROOT, "evidence", f"{prop}.json")
    tmp = path + ".tmp"
    with open(tmp, "w") as f:
        json.dump(doc, f, indent=1, ensure_ascii=True)
    os.replace(tmp, path)
    return path
