"""Stateless schedule exploration of real threads under a baton scheduler (CHESS-style preemption bounding).

Only one thread runs at a time. A thread hands the baton back at *scheduling points*:
  - every `line` event inside one of the declared target code objects (sys.settrace), with loop collapsing
    (the k-th visit of the same (code, line) by a thread is a point only for k <= collapse);
  - every acquire of a SchedLock that is currently held by another thread (the thread becomes blocked);
  - thread start and thread end.
At each point the controller picks the next thread: choice 0 = keep running the current thread if it is enabled,
otherwise the lowest enabled id; choice i>0 = the i-th other enabled thread. Switching away from an enabled current
thread costs one preemption. `explore` enumerates *all* choice sequences with at most `bound` preemptions (DFS over
prefixes, each execution re-run from scratch on fresh state). No enabled thread while some are unfinished = deadlock.
"""
from __future__ import annotations

import collections
import sys
import threading


class SchedAbort(BaseException):
    pass


class SchedLock:
    """Scheduler-aware re-entrant lock (replaces threading.Lock/RLock objects found in the library)."""

    def __init__(self, sched=None, reentrant=True):
        self.sched = sched
        self.owner = None
        self.count = 0
        self.reentrant = reentrant

    def acquire(self, blocking=True, timeout=-1):
        s = self.sched
        me = s.current_tid() if s else None
        if s is None or me is None:
            self.owner = "ext"
            self.count += 1
            return True
        while self.owner is not None and self.owner != me:
            if not blocking:
                return False
            s.block(me, self)
        if self.owner == me and not self.reentrant and self.count:
            s.block(me, self)     # self-deadlock on a non-reentrant lock: never enabled again
        self.owner = me
        self.count += 1
        return True

    def release(self):
        self.count -= 1
        if self.count <= 0:
            self.owner = None
            self.count = 0

    __enter__ = acquire

    def __exit__(self, *a):
        self.release()
        return False

    def locked(self):
        return self.owner is not None


class Sched:
    def __init__(self, n, choices, targets, collapse=2, horizon=20000):
        self.n = n
        self.choices = list(choices)
        self.targets = set(targets)
        self.collapse = collapse
        self.horizon = horizon
        self.sems = [threading.Semaphore(0) for _ in range(n)]
        self.main = threading.Semaphore(0)
        self.done = [False] * n
        self.blocked = [None] * n
        self.exc = [None] * n
        self.cur = None
        self.trace = []          # choice taken at each step
        self.points = []         # (n_enabled, current_still_enabled, tid chosen)
        self.tids = {}
        self.abort = False
        self.deadlock = False
        self.horizon_hit = False
        self.steps = 0

    # ---- called from worker threads
    def current_tid(self):
        return self.tids.get(threading.get_ident())

    def _yield(self, tid):
        self.main.release()
        self.sems[tid].acquire()
        if self.abort:
            raise SchedAbort()

    def block(self, tid, lock):
        self.blocked[tid] = lock
        self._yield(tid)
        self.blocked[tid] = None

    def point(self, tid=None):
        """explicit scheduling point (for harness bodies)"""
        tid = self.current_tid() if tid is None else tid
        if tid is not None:
            self._yield(tid)

    def _tracer(self, tid):
        seen = collections.Counter()
        targets = self.targets

        def local(frame, event, arg):
            if event == "line" and frame.f_code in targets:
                k = (frame.f_code, frame.f_lineno)
                seen[k] += 1
                if seen[k] <= self.collapse:
                    self._yield(tid)
            return local

        def glob(frame, event, arg):
            return local if frame.f_code in targets else None
        return glob

    # ---- controller
    def run(self, bodies):
        def th(tid):
            self.tids[threading.get_ident()] = tid
            self.sems[tid].acquire()
            if self.abort:
                self.done[tid] = True
                self.main.release()
                return
            sys.settrace(self._tracer(tid))
            try:
                bodies[tid]()
            except SchedAbort:
                pass
            except BaseException as e:  # noqa
                self.exc[tid] = e
            finally:
                sys.settrace(None)
                self.done[tid] = True
                self.main.release()
        ts = [threading.Thread(target=th, args=(i,), daemon=True) for i in range(self.n)]
        for t in ts:
            t.start()
        step = 0
        while not all(self.done):
            enabled = [i for i in range(self.n) if not self.done[i] and
                       (self.blocked[i] is None or self.blocked[i].owner in (None, i))]
            if not enabled:
                self.deadlock = True
                break
            if step >= self.horizon:
                self.horizon_hit = True
                break
            cur_en = self.cur in enabled
            if cur_en:
                enabled = [self.cur] + [i for i in enabled if i != self.cur]
            c = self.choices[step] if step < len(self.choices) else 0
            if c >= len(enabled):
                raise RuntimeError(f"replay divergence at step {step}: choice {c} of {len(enabled)} enabled")
            tid = enabled[c]
            self.points.append((len(enabled), cur_en))
            self.trace.append(c)
            self.cur = tid
            step += 1
            self.sems[tid].release()
            self.main.acquire()
        self.steps = step
        if not all(self.done):
            self.abort = True
            for i in range(self.n):
                if not self.done[i]:
                    self.sems[i].release()
            for i in range(self.n):
                if not self.done[i]:
                    self.main.acquire(timeout=5)
        for t in ts:
            t.join(5)

    def preemptions(self):
        return sum(1 for (ne, cur_en), c in zip(self.points, self.trace) if cur_en and c != 0)


def children(s: Sched, prefix_len: int, bound: int):
    """alternative prefixes that deviate from execution s at a step >= prefix_len, within the preemption bound"""
    out = []
    pre = 0
    for i, ((ne, cur_en), c) in enumerate(zip(s.points, s.trace)):
        if i >= prefix_len:
            for alt in range(1, ne):
                if pre + (1 if cur_en else 0) <= bound:
                    out.append(s.trace[:i] + [alt])
        if cur_en and c != 0:
            pre += 1
    return out


def explore(n, bound, targets, setup, make_bodies, observe, root=None, collapse=2, max_execs=None):
    """DFS over all schedules with <= bound preemptions below prefix `root`.
    setup() -> ctx (fresh state per execution; may install SchedLocks via ctx['sched'] set by us)
    make_bodies(ctx, sched) -> list of callables; observe(ctx, sched) -> (outcome_key, violation_or_None)
    Returns dict(executions, steps, outcomes Counter, violations [(trace, msg)], capped)."""
    stack = [list(root or [])]
    execs = 0
    steps = 0
    outcomes = collections.Counter()
    first = {}
    violations = []
    capped = False
    while stack:
        if max_execs and execs >= max_execs:
            capped = True
            break
        prefix = stack.pop()
        ctx = setup()
        s = Sched(n, prefix, targets, collapse=collapse)
        bodies = make_bodies(ctx, s)
        s.run(bodies)
        execs += 1
        steps += s.steps
        key, viol = observe(ctx, s)
        outcomes[key] += 1
        first.setdefault(key, list(s.trace))
        if viol:
            violations.append((list(s.trace), viol))
        stack.extend(children(s, len(prefix), bound))
    return {"executions": execs, "steps": steps, "outcomes": outcomes, "first": first, "violations": violations, "capped": capped}
