"""Sandboxed worker pool: long-lived spawn workers, per-task hard timeout, worker restart.

A task is (module, function, arg); the worker imports `module`, calls `function(arg)` and sends the
result back. A worker may send progress notes ("note", value) so that the master knows which case of a
batch was running when a hard timeout fired. Nothing here samples: the pool only executes what the
explorers enumerate.
"""
from __future__ import annotations

import multiprocessing as mp
import os
import resource
import signal
import sys
import time
import traceback
from typing import Any, Callable, Iterable

CTX = mp.get_context("spawn")
_NOTE_CONN = None


class CaseTimeout(BaseException):
    """Soft per-case budget crossed (raised from SIGALRM inside the worker)."""


def note(value: Any) -> None:
    """Called from task code: tell the master what is running now."""
    if _NOTE_CONN is not None:
        _NOTE_CONN.send(("note", value))


def _alarm(signum, frame):
    raise CaseTimeout()


def soft_budget(seconds: float):
    """Context manager: raise CaseTimeout in this worker after `seconds`."""
    class _B:
        def __enter__(self):
            signal.signal(signal.SIGALRM, _alarm)
            signal.setitimer(signal.ITIMER_REAL, seconds)
        def __exit__(self, *a):
            signal.setitimer(signal.ITIMER_REAL, 0)
            return False
    return _B()


def _worker_main(conn, rlimit_as: int, env: dict):
    global _NOTE_CONN
    _NOTE_CONN = conn
    os.environ.update(env)
    if rlimit_as:
        try:
            resource.setrlimit(resource.RLIMIT_AS, (rlimit_as, rlimit_as))
        except Exception:
            pass
    import importlib
    import warnings
    import logging
    warnings.simplefilter("ignore")
    logging.disable(logging.CRITICAL)
    while True:
        try:
            msg = conn.recv()
        except (EOFError, KeyboardInterrupt):
            return
        if msg is None:
            return
        tid, module, func, arg = msg
        try:
            m = importlib.import_module(module)
            res = getattr(m, func)(arg)
            conn.send(("done", tid, res))
        except BaseException as e:  # noqa
            conn.send(("error", tid, "".join(traceback.format_exception(type(e), e, e.__traceback__))[-4000:]))


class Pool:
    def __init__(self, n: int | None = None, rlimit_as: int = 3 << 30, env: dict | None = None):
        self.n = n or min(16, os.cpu_count() or 4)
        self.rlimit_as = rlimit_as
        self.env = dict(env or {})
        self.workers: list = [None] * self.n
        self.restarts = 0

    def _spawn(self, i):
        parent, child = CTX.Pipe()
        p = CTX.Process(target=_worker_main, args=(child, self.rlimit_as, self.env), daemon=True)
        p.start()
        child.close()
        self.workers[i] = {"p": p, "conn": parent, "task": None, "t0": 0.0, "note": None}

    def _kill(self, i):
        w = self.workers[i]
        if w is None:
            return
        try:
            w["p"].kill()
            w["p"].join(5)
        except Exception:
            pass
        try:
            w["conn"].close()
        except Exception:
            pass
        self.workers[i] = None

    def close(self):
        for i, w in enumerate(self.workers):
            if w is not None:
                try:
                    w["conn"].send(None)
                except Exception:
                    pass
        time.sleep(0.05)
        for i in range(self.n):
            self._kill(i)

    def __enter__(self):
        return self

    def __exit__(self, *a):
        self.close()

    def map(self, module: str, func: str, args: Iterable[Any], hard_timeout: float = 600.0,
            on_result: Callable[[int, str, Any, Any], None] | None = None) -> list:
        """Run func(arg) for every arg; returns list of (status, result, last_note) in arg order.

        status: 'done' | 'error' (exception text) | 'killed' (hard timeout or worker death).
        """
        from multiprocessing.connection import wait
        args = list(args)
        results: list = [None] * len(args)
        nxt = 0
        pending = 0
        for i in range(self.n):
            if self.workers[i] is None and nxt + pending < len(args) + self.n:
                pass
        while nxt < len(args) or pending:
            # dispatch
            for i in range(self.n):
                if nxt >= len(args):
                    break
                if self.workers[i] is None:
                    self._spawn(i)
                w = self.workers[i]
                if w["task"] is None:
                    w["task"] = nxt
                    w["t0"] = time.time()
                    w["note"] = None
                    w["conn"].send((nxt, module, func, args[nxt]))
                    nxt += 1
                    pending += 1
            conns = {w["conn"]: i for i, w in enumerate(self.workers) if w is not None and w["task"] is not None}
            ready = wait(list(conns), timeout=0.5)
            for c in ready:
                i = conns[c]
                w = self.workers[i]
                try:
                    msg = c.recv()
                except (EOFError, OSError):
                    tid = w["task"]
                    results[tid] = ("killed", "worker died", w["note"])
                    if on_result:
                        on_result(tid, "killed", "worker died", w["note"])
                    self._kill(i)
                    self.restarts += 1
                    pending -= 1
                    continue
                if msg[0] == "note":
                    w["note"] = msg[1]
                    w["t0"] = time.time()
                    continue
                kind, tid, res = msg
                results[tid] = (kind, res, w["note"])
                if on_result:
                    on_result(tid, kind, res, w["note"])
                w["task"] = None
                pending -= 1
            now = time.time()
            for i, w in enumerate(self.workers):
                if w is not None and w["task"] is not None and now - w["t0"] > hard_timeout:
                    tid = w["task"]
                    results[tid] = ("killed", "hard timeout", w["note"])
                    if on_result:
                        on_result(tid, "killed", "hard timeout", w["note"])
                    self._kill(i)
                    self.restarts += 1
                    pending -= 1
        return results


def run_all(module: str, func: str, args: list, n: int | None = None, hard_timeout: float = 600.0,
            env: dict | None = None, rlimit_as: int = 3 << 30) -> list:
    with Pool(n, rlimit_as=rlimit_as, env=env) as p:
        return p.map(module, func, args, hard_timeout=hard_timeout)
