"""CLI: ./check <ID> [--tier quick|thorough] [--replay file] [--no-evidence]"""
from __future__ import annotations

import argparse
import importlib
import json
import os
import sys
import time

from verif.mc import findings as F
from verif.mc.evidence import write_evidence


class Ctx:
    def __init__(self, prop, tier, seed):
        self.prop = prop
        self.tier = tier
        self.seed = seed
        self.quick = tier == "quick"
        self.ncpu = min(16, os.cpu_count() or 4)


def main(argv=None):
    ap = argparse.ArgumentParser()
    ap.add_argument("prop")
    ap.add_argument("--tier", default=os.environ.get("VERIF_TIER", "quick"), choices=["quick", "thorough"])
    ap.add_argument("--replay")
    ap.add_argument("--no-evidence", action="store_true")
    a = ap.parse_args(argv)
    seed = int(os.environ.get("VERIF_SEED", "0") or 0)
    os.environ["VERIF_SEED"] = str(seed)
    prop = a.prop
    mod = importlib.import_module(f"verif.props.{prop}")
    if a.replay:
        with open(a.replay) as f:
            rp = json.load(f)
        res = mod.reexec(rp["fmt"], rp["case"])
        hit = [m for c, m in res if c == rp["clause"]]
        print(f"replay property={prop} fmt={rp['fmt']} clause={rp['clause']} case={json.dumps(rp['case'])[:1000]}")
        for c, m in res:
            print(f"  clause {c}: {m}")
        if hit:
            print(f"VIOLATION property={prop} replay={a.replay}")
            return 1
        print("replay: oracle clause holds on this case")
        return 0
    ctx = Ctx(prop, a.tier, seed)
    t0 = time.time()
    out = mod.run(ctx)
    if out.get("harness_errors"):
        for h in out["harness_errors"]:
            print(f"HARNESS-ERROR property={prop} {h}")
        return 2
    tri = F.Triage(prop, mod.reexec, getattr(mod, "shrinks", None), getattr(mod, "embeds", None), view=getattr(mod, "fingerprint_view", None))
    tri.add_failures(out.get("failures", []))
    nv, nk, lines = tri.report()
    cov = out["coverage"]
    cov["failing_cases"] = len(out.get("failures", []))
    cov["finding_shapes"] = [{"fingerprint": i["fingerprint"], "fmt": i["fmt"], "clause": i["clause"], "cases": i["count"],
                              "minimal": F.abstract(i["minimal"])} for i in tri.shapes.values()]
    cov["triage_reexecutions"] = tri.reexecs
    wall = time.time() - t0
    if not a.no_evidence:
        write_evidence(prop, a.tier, seed, getattr(mod, "LEVEL", "exploration"), cov, out.get("assumptions", []), wall, nv)
    for ln in lines:
        print(ln)
    print(f"{prop} tier={a.tier} seed={seed} evaluations={cov.get('evaluations')} failing_cases={cov['failing_cases']} "
          f"shapes={len(tri.shapes)} violations={nv} known={nk} wall={wall:.1f}s")
    if tri.harness_errors or out.get("harness_errors"):
        for h in out.get("harness_errors", []):
            print(f"HARNESS-ERROR property={prop} {h}")
        return 2
    return 1 if nv else 0


if __name__ == "__main__":
    sys.exit(main())
