"""Reference AES written from FIPS-197 definitions (no tables copied): GF(2^8) arithmetic by shift-and-reduce,
S-box = affine transform of the multiplicative inverse, cipher on a column-major 4x4 state."""
from __future__ import annotations


def gmul(a: int, b: int) -> int:
    r = 0
    for _ in range(8):
        if b & 1:
            r ^= a
        hi = a & 0x80
        a = (a << 1) & 0xFF
        if hi:
            a ^= 0x1B
        b >>= 1
    return r


def ginv(a: int) -> int:
    if a == 0:
        return 0
    # a^(254) in GF(2^8)
    r = 1
    p = a
    e = 254
    while e:
        if e & 1:
            r = gmul(r, p)
        p = gmul(p, p)
        e >>= 1
    return r


def _affine(x: int) -> int:
    r = 0
    for i in range(8):
        bit = ((x >> i) ^ (x >> ((i + 4) % 8)) ^ (x >> ((i + 5) % 8)) ^ (x >> ((i + 6) % 8)) ^ (x >> ((i + 7) % 8)) ^ (0x63 >> i)) & 1
        r |= bit << i
    return r


SBOX = [_affine(ginv(x)) for x in range(256)]
INV_SBOX = [0] * 256
for _i, _v in enumerate(SBOX):
    INV_SBOX[_v] = _i


def expand_key(key: bytes) -> list:
    nk = len(key) // 4
    nr = nk + 6
    w = [list(key[4 * i:4 * i + 4]) for i in range(nk)]
    rc = 1
    for i in range(nk, 4 * (nr + 1)):
        t = list(w[i - 1])
        if i % nk == 0:
            t = t[1:] + t[:1]
            t = [SBOX[b] for b in t]
            t[0] ^= rc
            rc = gmul(rc, 2)
        elif nk > 6 and i % nk == 4:
            t = [SBOX[b] for b in t]
        w.append([a ^ b for a, b in zip(w[i - nk], t)])
    return [bytes(sum(w[4 * r:4 * r + 4], [])) for r in range(nr + 1)]


def _shift_rows(s):
    # state index = row + 4*col
    return [s[(r + 4 * ((c + r) % 4))] for c in range(4) for r in range(4)]


def _inv_shift_rows(s):
    return [s[(r + 4 * ((c - r) % 4))] for c in range(4) for r in range(4)]


def mix_column(col):
    a0, a1, a2, a3 = col
    return [gmul(a0, 2) ^ gmul(a1, 3) ^ a2 ^ a3, a0 ^ gmul(a1, 2) ^ gmul(a2, 3) ^ a3,
            a0 ^ a1 ^ gmul(a2, 2) ^ gmul(a3, 3), gmul(a0, 3) ^ a1 ^ a2 ^ gmul(a3, 2)]


def inv_mix_column(col):
    a0, a1, a2, a3 = col
    return [gmul(a0, 14) ^ gmul(a1, 11) ^ gmul(a2, 13) ^ gmul(a3, 9), gmul(a0, 9) ^ gmul(a1, 14) ^ gmul(a2, 11) ^ gmul(a3, 13),
            gmul(a0, 13) ^ gmul(a1, 9) ^ gmul(a2, 14) ^ gmul(a3, 11), gmul(a0, 11) ^ gmul(a1, 13) ^ gmul(a2, 9) ^ gmul(a3, 14)]


def encrypt_block(block: bytes, key: bytes) -> bytes:
    rk = expand_key(key)
    nr = len(rk) - 1
    s = [b ^ k for b, k in zip(block, rk[0])]
    for r in range(1, nr + 1):
        s = [SBOX[b] for b in s]
        s = _shift_rows(s)
        if r != nr:
            s = sum((mix_column(s[4 * c:4 * c + 4]) for c in range(4)), [])
        s = [b ^ k for b, k in zip(s, rk[r])]
    return bytes(s)


def decrypt_block(block: bytes, key: bytes) -> bytes:
    rk = expand_key(key)
    nr = len(rk) - 1
    s = [b ^ k for b, k in zip(block, rk[nr])]
    for r in range(nr - 1, -1, -1):
        s = _inv_shift_rows(s)
        s = [INV_SBOX[b] for b in s]
        s = [b ^ k for b, k in zip(s, rk[r])]
        if r != 0:
            s = sum((inv_mix_column(s[4 * c:4 * c + 4]) for c in range(4)), [])
    return bytes(s)


def ecb_encrypt(key, data):
    return b"".join(encrypt_block(data[i:i + 16], key) for i in range(0, len(data), 16))


def ecb_decrypt(key, data):
    return b"".join(decrypt_block(data[i:i + 16], key) for i in range(0, len(data), 16))


def cbc_encrypt(key, iv, data):
    out = b""
    prev = iv
    for i in range(0, len(data), 16):
        prev = encrypt_block(bytes(a ^ b for a, b in zip(data[i:i + 16], prev)), key)
        out += prev
    return out


def cbc_decrypt(key, iv, data):
    out = b""
    prev = iv
    for i in range(0, len(data), 16):
        blk = data[i:i + 16]
        out += bytes(a ^ b for a, b in zip(decrypt_block(blk, key), prev))
        prev = blk
    return out


# Known answers, hard-coded from the standards (FIPS-197 Appendix C, SP 800-38A F.1/F.2)
FIPS197_C = [
    ("000102030405060708090a0b0c0d0e0f", "00112233445566778899aabbccddeeff", "69c4e0d86a7b0430d8cdb78070b4c55a"),
    ("000102030405060708090a0b0c0d0e0f1011121314151617", "00112233445566778899aabbccddeeff", "dda97ca4864cdfe06eaf70a0ec0d7191"),
    ("000102030405060708090a0b0c0d0e0f101112131415161718191a1b1c1d1e1f", "00112233445566778899aabbccddeeff", "8ea2b7ca516745bfeafc49904b496089"),
]
SP800_38A_PT = ("6bc1bee22e409f96e93d7e117393172a" "ae2d8a571e03ac9c9eb76fac45af8e51" "30c81c46a35ce411e5fbc1191a0a52ef" "f69f2445df4f9b17ad2b417be66c3710")
SP800_38A_ECB = [
    ("2b7e151628aed2a6abf7158809cf4f3c", "3ad77bb40d7a3660a89ecaf32466ef97" "f5d3d58503b9699de785895a96fdbaaf" "43b1cd7f598ece23881b00e3ed030688" "7b0c785e27e8ad3f8223207104725dd4"),
    ("8e73b0f7da0e6452c810f32b809079e562f8ead2522c6b7b", "bd334f1d6e45f25ff712a214571fa5cc" "974104846d0ad3ad7734ecb3ecee4eef" "ef7afd2270e2e60adce0ba2face6444e" "9a4b41ba738d6c72fb16691603c18e0e"),
    ("603deb1015ca71be2b73aef0857d77811f352c073b6108d72d9810a30914dff4", "f3eed1bdb5d2a03c064b5a7e3db181f8" "591ccb10d410ed26dc5ba74a31362870" "b6ed21b99ca6f4f9f153e7b1beafed1d" "23304b7a39f9f3ff067d8d8f9e24ecc7"),
]
SP800_38A_IV = "000102030405060708090a0b0c0d0e0f"
SP800_38A_CBC = [
    ("2b7e151628aed2a6abf7158809cf4f3c", "7649abac8119b246cee98e9b12e9197d" "5086cb9b507219ee95db113a917678b2" "73bed6b8e3c1743b7116e69e22229516" "3ff1caa1681fac09120eca307586e1a7"),
    ("8e73b0f7da0e6452c810f32b809079e562f8ead2522c6b7b", "4f021db243bc633d7178183a9fa071e8" "b4d9ada9ad7dedf4e5e738763f69145a" "571b242012fb7ae07fa9baac3df102e0" "08b0e27988598881d920a9e64f5615cd"),
    ("603deb1015ca71be2b73aef0857d77811f352c073b6108d72d9810a30914dff4", "f58c4c04d6e5f1ba779eabfb5f7bfbd6" "9cfc4e967edb808d679f777bc6702c7d" "39f23369a9d9bacfa530e26304231461" "b2eb05e2c39be9fcda6c19078c6a9d1b"),
]
