"""Reference writer for Excel 97-2003 workbooks (BIFF8, [MS-XLS]) inside a compound file.

    xls(doc, images=None, opts=None) -> bytes
        doc = ["doc", meta, [["sheet", name, grid], ...]]   (grid = rows of ADM cells, see verif.gen.adm)
        opts: "filepass_at": k        insert a FILEPASS record (RC4, dummy salt/verifier) at record index k of the globals
                                      substream (k = 1, right after BOF, is where Excel puts it); payloads stay in clear.
                                      SST+CONTINUE and MSODRAWINGGROUP+CONTINUE count as one record each.
              "globals_insert": [k, raw]    insert the raw record bytes (header + payload, one or more whole records) at record
                                      index k of the globals substream (same index space; applied after filepass_at)
              "summary": {...}        extra/override SummaryInformation properties (keys of cfb.SUMMARY_PROPS / DOCSUMMARY_PROPS)
              "no_summary": True      do not write any property-set stream
              "rk": True              write integers that fit 30 bits as RK records instead of NUMBER
              "datemode": 0 | 1       1900 (default) or 1904 date system
              "blank_records": True   write BLANK records for None cells inside the used range
              "pictures": [[sheet index, image key], ...]   embed images[key] as picture shapes: BLIPs in the globals
                                      MSODRAWINGGROUP record (+CONTINUE every 8224 bytes), one MSODRAWING + OBJ per picture
                                      in the sheet (spreadsheet cells cannot reference images in the ADM, hence an option)
              "comments_at": [[sheet index, row, col, text], ...]   cell comments: a text-box shape per comment (MSODRAWING, OBJ of
                                      type Note, MSODRAWING client text box, TXO + 2 CONTINUE) followed by the NOTE records, and the
                                      globals MSODRAWINGGROUP; not together with "pictures" (one drawing per sheet)
              "stream_name": "Workbook" (default) | "Book"
              "cfb": {...}            options passed through to cfb.cfb
    Cell mapping: s -> LABELSST, i/f -> NUMBER (RK optional), b/err -> BOOLERR, d/dt/tm/dur -> NUMBER with a date XF
    (built-in formats 14 / 22 / 21 / 46), fml -> FORMULA (parsed expression + cached result, STRING record for text results),
    None -> no record.  meta header/footer -> HEADER / FOOTER records of every sheet.

Record order follows what Excel itself writes (globals: BOF, interface block, CODEPAGE, protection block, WINDOW1, DATEMODE,
FONT x4, FORMAT x8, XF x20, STYLE, BOUNDSHEET..., COUNTRY, SST (+CONTINUE), EXTSST, EOF).
"""
from __future__ import annotations

import datetime
import re
import struct

from verif.gen import cfb as _cfb

CAPS_XLS = {"sheet", "multiunit", "meta:title", "meta:author", "meta:subject", "meta:keywords", "meta:description",
            "meta:header", "meta:footer"}
CELL_TYPES_XLS = {"s", "i", "f", "b", "d", "dt", "tm", "dur", "err", "fml"}
ERROR_CODES = {"#NULL!": 0x00, "#DIV/0!": 0x07, "#VALUE!": 0x0F, "#REF!": 0x17, "#NAME?": 0x1D, "#NUM!": 0x24, "#N/A": 0x2A}
XF_GENERAL, XF_DATE, XF_DATETIME, XF_TIME, XF_DURATION = 15, 16, 17, 18, 19
MAX_REC = 8224
MAX_ROWS, MAX_COLS = 65536, 256


def rec(t: int, d: bytes = b"") -> bytes:
    if len(d) > MAX_REC:
        raise ValueError("record 0x%04x too long" % t)
    return struct.pack("<HH", t, len(d)) + d


def _units(s: str) -> int:
    return len(s.encode("utf-16-le")) // 2


def ustr(s: str, lenfmt: str = "<H") -> bytes:
    """XLUnicodeString (2-byte length) / ShortXLUnicodeString ('<B'): compressed when every char is < 0x100."""
    try:
        b = s.encode("latin-1")
        return struct.pack(lenfmt, len(b)) + b"\x00" + b
    except UnicodeEncodeError:
        b = s.encode("utf-16-le")
        return struct.pack(lenfmt, len(b) // 2) + b"\x01" + b


# ---------------------------------------------------------------------------------------------------------------------
# dates
# ---------------------------------------------------------------------------------------------------------------------
def date_serial(d: datetime.date, datemode: int = 0) -> int:
    if datemode:
        n = (d - datetime.date(1904, 1, 1)).days
        if n < 0:
            raise NotImplementedError("date before 1904-01-01 in the 1904 date system")
        return n
    n = (d - datetime.date(1899, 12, 31)).days
    if n < 1:
        raise NotImplementedError("date before 1900-01-01")
    return n + 1 if d >= datetime.date(1900, 3, 1) else n       # Excel counts the non-existent 1900-02-29


def _hms(s: str) -> float:
    h, m, sec = s.split(":")
    return (int(h) * 3600 + int(m) * 60 + float(sec)) / 86400.0


def cell_number(cell, datemode: int = 0):
    """(float value, xf index) of a numeric-like ADM cell"""
    k = cell[0]
    if k == "i":
        if isinstance(cell[1], bool) or not isinstance(cell[1], int):
            raise TypeError("['i', x] needs an int")
        if abs(cell[1]) > 2 ** 53:
            raise NotImplementedError("integer not representable as a double")
        return float(cell[1]), XF_GENERAL
    if k == "f":
        v = float(cell[1])
        if v != v or v in (float("inf"), float("-inf")):
            raise NotImplementedError("NaN/Infinity have no BIFF8 representation")
        return v, XF_GENERAL
    if k == "d":
        return float(date_serial(datetime.date.fromisoformat(cell[1]), datemode)), XF_DATE
    if k == "dt":
        dt = datetime.datetime.fromisoformat(cell[1])
        return date_serial(dt.date(), datemode) + (dt.hour * 3600 + dt.minute * 60 + dt.second + dt.microsecond / 1e6) / 86400.0, XF_DATETIME
    if k == "tm":
        return _hms(cell[1]), XF_TIME
    if k == "dur":
        if cell[1] < 0:
            raise NotImplementedError("negative duration")
        return cell[1] / 86400.0, XF_DURATION
    raise NotImplementedError("cell type %r" % (k,))


# ---------------------------------------------------------------------------------------------------------------------
# formulas: text -> parsed expression (rgce), [MS-XLS] 2.5.198
# ---------------------------------------------------------------------------------------------------------------------
# name: (iftab, min args, max args, fixed-arity token?, arguments are reference-class?)
FUNCS = {"COUNT": (0, 1, 30, False, True), "SUM": (4, 1, 30, False, True), "AVERAGE": (5, 1, 30, False, True),
         "MIN": (6, 1, 30, False, True), "MAX": (7, 1, 30, False, True), "COUNTA": (169, 1, 30, False, True),
         "PI": (19, 0, 0, True, False), "SQRT": (20, 1, 1, True, False), "ABS": (24, 1, 1, True, False),
         "INT": (25, 1, 1, True, False), "ROUND": (27, 2, 2, True, False), "MID": (31, 3, 3, True, False),
         "LEN": (32, 1, 1, True, False), "AND": (36, 1, 30, False, False), "OR": (37, 1, 30, False, False),
         "NOT": (38, 1, 1, True, False), "MOD": (39, 2, 2, True, False), "DATE": (65, 3, 3, True, False),
         "NOW": (74, 0, 0, True, False), "LOWER": (112, 1, 1, True, False), "UPPER": (113, 1, 1, True, False),
         "LEFT": (115, 1, 2, False, False), "RIGHT": (116, 1, 2, False, False), "TRIM": (118, 1, 1, True, False),
         "TODAY": (221, 0, 0, True, False), "CONCATENATE": (336, 1, 30, False, False)}
_BINOPS = {"+": (3, 0x03), "-": (3, 0x04), "*": (4, 0x05), "/": (4, 0x06), "^": (5, 0x07), "&": (2, 0x08),
           "<": (1, 0x09), "<=": (1, 0x0A), "=": (1, 0x0B), ">=": (1, 0x0C), ">": (1, 0x0D), "<>": (1, 0x0E)}
_TOK = re.compile(r'\s*(?:(?P<num>\d+(?:\.\d+)?(?:[eE][+-]?\d+)?)|(?P<str>"(?:[^"]|"")*")|(?P<ref>\$?[A-Za-z]{1,2}\$?\d+(?![A-Za-z0-9_.(]))|'
                  r'(?P<name>[A-Za-z_][A-Za-z0-9_.]*)|(?P<err>#(?:NULL!|DIV/0!|VALUE!|REF!|NAME\?|NUM!|N/A))|(?P<op><=|>=|<>|[-+*/^&=<>%(),:]))')


def _parse_ref(t: str):
    m = re.fullmatch(r"(\$?)([A-Za-z]{1,2})(\$?)(\d+)", t)
    col = 0
    for ch in m.group(2).upper():
        col = col * 26 + ord(ch) - 64
    col -= 1
    row = int(m.group(4)) - 1
    if not (0 <= row < MAX_ROWS and 0 <= col < MAX_COLS):
        raise NotImplementedError("reference %s outside the BIFF8 grid" % t)
    return row, col | (0 if m.group(1) else 0x4000) | (0 if m.group(3) else 0x8000)


def compile_formula(text: str) -> bytes:
    src = text[1:] if text.startswith("=") else text
    toks = []
    pos = 0
    while pos < len(src):
        if src[pos:].strip() == "":
            break
        m = _TOK.match(src, pos)
        if not m:
            raise NotImplementedError("formula syntax at %r" % src[pos:])
        toks.append((m.lastgroup, m.group(m.lastgroup)))
        pos = m.end()
    i = [0]

    def peek():
        return toks[i[0]] if i[0] < len(toks) else (None, None)

    def take():
        t = peek()
        i[0] += 1
        return t

    def expr(minprec, want_ref=False):
        """returns (bytes, is_single_operand)"""
        k, v = peek()
        if k == "op" and v in "+-":
            take()
            out = expr(6)[0] + bytes([0x12 if v == "+" else 0x13])
            single = False
        else:
            out, single = primary(want_ref)
        while True:
            k, v = peek()
            if k == "op" and v == "%":
                if single and want_ref:
                    raise _Retry()
                take()
                out += b"\x14"
                single = False
                continue
            if k == "op" and v in _BINOPS and _BINOPS[v][0] >= minprec:
                prec, code = _BINOPS[v]
                if single and want_ref:
                    raise _Retry()
                take()
                rhs = expr(prec + 1)[0]
                out += rhs + bytes([code])
                single = False
                continue
            return out, single

    def primary(want_ref):
        k, v = take()
        if k == "num":
            if re.fullmatch(r"\d+", v) and int(v) <= 0xFFFF:
                return b"\x1e" + struct.pack("<H", int(v)), True
            return b"\x1f" + struct.pack("<d", float(v)), True
        if k == "str":
            s = v[1:-1].replace('""', '"')
            if _units(s) > 255:
                raise NotImplementedError("string constant longer than 255 characters")
            return b"\x17" + ustr(s, "<B"), True
        if k == "err":
            return b"\x1c" + bytes([ERROR_CODES[v]]), True
        if k == "ref":
            r1, c1 = _parse_ref(v)
            if peek() == ("op", ":"):
                take()
                k2, v2 = take()
                if k2 != "ref":
                    raise NotImplementedError("range operator on non-cell operands")
                r2, c2 = _parse_ref(v2)
                return bytes([0x25 if want_ref else 0x45]) + struct.pack("<HHHH", r1, r2, c1, c2), True
            return bytes([0x24 if want_ref else 0x44]) + struct.pack("<HH", r1, c1), True
        if k == "name":
            up = v.upper()
            if peek() == ("op", "("):
                if up not in FUNCS:
                    raise NotImplementedError("function %s" % up)
                iftab, lo, hi, fixed, refargs = FUNCS[up]
                take()
                args = []
                if peek() != ("op", ")"):
                    while True:
                        args.append(argument(refargs))
                        k2, v2 = take()
                        if (k2, v2) == ("op", ")"):
                            break
                        if (k2, v2) != ("op", ","):
                            raise NotImplementedError("formula syntax in arguments of %s" % up)
                else:
                    take()
                if not lo <= len(args) <= hi:
                    raise NotImplementedError("%s with %d arguments" % (up, len(args)))
                if fixed:
                    return b"".join(args) + b"\x41" + struct.pack("<H", iftab), True
                return b"".join(args) + b"\x42" + struct.pack("<BH", len(args), iftab), True
            if up in ("TRUE", "FALSE"):
                return b"\x1d" + bytes([up == "TRUE"]), True
            raise NotImplementedError("defined name %s" % v)
        if (k, v) == ("op", "("):
            inner, inner_single = expr(1, want_ref)
            if take() != ("op", ")"):
                raise NotImplementedError("unbalanced parenthesis")
            return inner + b"\x15", inner_single
        raise NotImplementedError("formula syntax at token %r" % (v,))

    class _Retry(Exception):
        pass

    def argument(refargs):
        """a bare reference argument of SUM & co. is reference class, anything computed is value class"""
        save = i[0]
        if refargs:
            try:
                return expr(1, True)[0]
            except _Retry:
                i[0] = save
        return expr(1, False)[0]

    out = expr(1)[0]
    if i[0] != len(toks):
        raise NotImplementedError("formula syntax at token %r" % (toks[i[0]][1],))
    return out


# ---------------------------------------------------------------------------------------------------------------------
# shared strings
# ---------------------------------------------------------------------------------------------------------------------
def sst_records(strings: list, total: int):
    """-> (bytes of SST + CONTINUE records, [(offset in those bytes, offset in its record) per string])"""
    recs = [bytearray(struct.pack("<II", total, len(strings)))]
    where = []
    for s in strings:
        try:
            data = s.encode("latin-1")
            wide = 0
        except UnicodeEncodeError:
            data = s.encode("utf-16-le")
            wide = 1
        csz = 1 + wide
        cch = len(data) // csz
        if cch > 32767:
            raise NotImplementedError("cell text longer than 32767 characters")
        cur = recs[-1]
        if MAX_REC - len(cur) < 3 + (csz if cch else 0):          # header (+ first character) must not be split
            cur = bytearray()
            recs.append(cur)
        where.append((len(recs) - 1, len(cur)))
        cur += struct.pack("<HB", cch, wide)
        p = 0
        while p < len(data):
            room = (MAX_REC - len(cur)) // csz * csz
            if room == 0:
                cur = bytearray([wide])                           # continued string: CONTINUE starts with the option byte
                recs.append(cur)
                continue
            cur += data[p:p + room]
            p += room
    out = b""
    starts = []
    for k, r in enumerate(recs):
        starts.append(len(out))
        out += rec(0x00FC if k == 0 else 0x003C, bytes(r))
    return out, [(starts[k] + 4 + o, 4 + o) for k, o in where]


def extsst_record(positions: list, sst_abs: int) -> bytes:
    n = len(positions)
    dsst = max(8, n // 128 + 1)
    body = struct.pack("<H", dsst)
    for k in range(0, n, dsst):
        off, inrec = positions[k]
        body += struct.pack("<IHH", sst_abs + off, inrec, 0)
    return rec(0x00FF, body)


# ---------------------------------------------------------------------------------------------------------------------
# fixed records
# ---------------------------------------------------------------------------------------------------------------------
def _bof(kind: int) -> bytes:
    return rec(0x0809, struct.pack("<HHHHII", 0x0600, kind, 0x0DBB, 0x07CC, 0x000000C1, 0x00000306))


def _font() -> bytes:
    return rec(0x0031, struct.pack("<HHHHHBBBB", 200, 0, 0x7FFF, 400, 0, 0, 0, 0, 0) + ustr("Arial", "<B"))


def _xf(fmt: int = 0, style: bool = False, used: int = 0) -> bytes:
    flags = 0xFFF5 if style else 0x0001
    return rec(0x00E0, struct.pack("<HHHBBBBIIH", 0, fmt, flags, 0x20, 0, 0, used, 0, 0, 0x20C0))


_FORMATS = [(5, '"$"#,##0_);\\("$"#,##0\\)'), (6, '"$"#,##0_);[Red]\\("$"#,##0\\)'), (7, '"$"#,##0.00_);\\("$"#,##0.00\\)'),
            (8, '"$"#,##0.00_);[Red]\\("$"#,##0.00\\)'), (42, '_("$"* #,##0_);_("$"* \\(#,##0\\);_("$"* "-"_);_(@_)'),
            (41, '_(* #,##0_);_(* \\(#,##0\\);_(* "-"_);_(@_)'), (44, '_("$"* #,##0.00_);_("$"* \\(#,##0.00\\);_("$"* "-"??_);_(@_)'),
            (43, '_(* #,##0.00_);_(* \\(#,##0.00\\);_(* "-"??_);_(@_)')]
FILEPASS_RC4 = rec(0x002F, struct.pack("<HHH", 1, 1, 1) + bytes(range(0x10, 0x20)) + bytes(range(0x40, 0x50)) + bytes(range(0x80, 0x90)))


def _globals_head(nsheets: int, datemode: int) -> list:
    g = [_bof(0x0005),
         rec(0x00E1, struct.pack("<H", 1200)), rec(0x00C1, b"\0\0"), rec(0x00E2),                 # INTERFACEHDR, MMS, INTERFACEEND
         rec(0x005C, (ustr("verif") + b" " * 112)[:112]),                                        # WRITEACCESS
         rec(0x0042, struct.pack("<H", 1200)), rec(0x0161, b"\0\0"),                              # CODEPAGE, DSF
         rec(0x013D, struct.pack("<%dH" % nsheets, *range(1, nsheets + 1))),                      # TABID
         rec(0x009C, struct.pack("<H", 14)),                                                      # FNGROUPCOUNT
         rec(0x0019, b"\0\0"), rec(0x0012, b"\0\0"), rec(0x0013, b"\0\0"), rec(0x01AF, b"\0\0"), rec(0x01BC, b"\0\0"),
         rec(0x003D, struct.pack("<hhHHHHHHH", 0, 0, 0x4000, 0x2000, 0x0038, 0, 0, 1, 600)),      # WINDOW1
         rec(0x0040, b"\0\0"), rec(0x008D, b"\0\0"), rec(0x0022, struct.pack("<H", datemode)),    # BACKUP, HIDEOBJ, DATEMODE
         rec(0x000E, struct.pack("<H", 1)), rec(0x01B7, b"\0\0"), rec(0x00DA, b"\0\0")]           # PRECISION, REFRESHALL, BOOKBOOL
    g += [_font() for _ in range(4)]
    g += [rec(0x041E, struct.pack("<H", i) + ustr(f)) for i, f in _FORMATS]
    g += [_xf(0, True, 0x00 if i == 0 else 0xF4) for i in range(15)]
    g += [_xf(0), _xf(14, used=0x04), _xf(22, used=0x04), _xf(21, used=0x04), _xf(46, used=0x04)]
    g += [rec(0x0293, struct.pack("<HBB", 0x8000, 0, 0xFF)), rec(0x0160, b"\0\0")]                # STYLE Normal, USESELFS
    return g


def _check_sheet_name(name: str):
    if not isinstance(name, str) or not 1 <= _units(name) <= 31 or re.search(r"[\[\]:*?/\\\x00-\x1f]", name) or name[0] == "'" or name[-1] == "'":
        raise NotImplementedError("sheet name %r is not a valid Excel sheet name" % (name,))


def _cached(cell, datemode):
    """-> (8-byte result field, xf, trailing STRING record or b'')"""
    if cell is None:
        raise NotImplementedError("formula without cached value")
    k = cell[0]
    if k == "s":
        if cell[1] == "":
            return b"\x03\0\0\0\0\0\xff\xff", XF_GENERAL, b""
        if _units(cell[1]) > 8000:
            raise NotImplementedError("formula string result longer than one STRING record")
        return b"\x00\0\0\0\0\0\xff\xff", XF_GENERAL, rec(0x0207, ustr(cell[1]))
    if k == "b":
        if not isinstance(cell[1], bool):
            raise TypeError("['b', x] needs a bool")
        return bytes([1, 0, int(cell[1]), 0, 0, 0, 0xFF, 0xFF]), XF_GENERAL, b""
    if k == "err":
        if cell[1] not in ERROR_CODES:
            raise NotImplementedError("error value %r" % (cell[1],))
        return bytes([2, 0, ERROR_CODES[cell[1]], 0, 0, 0, 0xFF, 0xFF]), XF_GENERAL, b""
    v, xf = cell_number(cell, datemode)
    return struct.pack("<d", v), xf, b""


def _sheet_stream(grid, sst, counter, opts, meta, first: bool, drawing: bytes = b"") -> bytes:
    datemode = opts.get("datemode", 0)
    if len(grid) > MAX_ROWS or any(len(r) > MAX_COLS for r in grid):
        raise NotImplementedError("BIFF8 sheets are limited to 65536 rows x 256 columns")
    rows = []                      # (row index, first col, last col + 1, [record bytes])
    blank = opts.get("blank_records")
    width = max([len(r) for r in grid], default=0)
    for r, row in enumerate(grid):
        recs = []
        cols = []
        for c, cell in enumerate(row):
            if cell is None:
                if blank:
                    recs.append(rec(0x0201, struct.pack("<HHH", r, c, XF_GENERAL)))
                    cols.append(c)
                continue
            k = cell[0]
            cols.append(c)
            if k == "s":
                if not isinstance(cell[1], str):
                    raise TypeError("['s', x] needs a str")
                idx = sst.get(cell[1])
                if idx is None:
                    idx = sst[cell[1]] = len(sst)
                counter[0] += 1
                recs.append(rec(0x00FD, struct.pack("<HHHI", r, c, XF_GENERAL, idx)))
            elif k == "b":
                if not isinstance(cell[1], bool):
                    raise TypeError("['b', x] needs a bool")
                recs.append(rec(0x0205, struct.pack("<HHHBB", r, c, XF_GENERAL, int(cell[1]), 0)))
            elif k == "err":
                if cell[1] not in ERROR_CODES:
                    raise NotImplementedError("error value %r" % (cell[1],))
                recs.append(rec(0x0205, struct.pack("<HHHBB", r, c, XF_GENERAL, ERROR_CODES[cell[1]], 1)))
            elif k == "fml":
                rgce = compile_formula(cell[1])
                res, xf, tail = _cached(cell[2], datemode)
                recs.append(rec(0x0006, struct.pack("<HHH", r, c, xf) + res + struct.pack("<HIH", 0, 0, len(rgce)) + rgce) + tail)
            elif k in ("i", "f", "d", "dt", "tm", "dur"):
                v, xf = cell_number(cell, datemode)
                if k == "i" and opts.get("rk") and -(1 << 29) <= cell[1] < (1 << 29):
                    recs.append(rec(0x027E, struct.pack("<HHHi", r, c, xf, (cell[1] << 2) | 2)))
                else:
                    recs.append(rec(0x0203, struct.pack("<HHHd", r, c, xf, v)))
            else:
                raise NotImplementedError("cell type %r" % (k,))
        if blank and len(row) < width:
            for c in range(len(row), width):
                recs.append(rec(0x0201, struct.pack("<HHH", r, c, XF_GENERAL)))
                cols.append(c)
        if recs:
            rows.append((r, min(cols), max(cols) + 1, recs))
    out = [_bof(0x0010),
           rec(0x000D, struct.pack("<H", 1)), rec(0x000C, struct.pack("<H", 100)), rec(0x000F, struct.pack("<H", 1)),     # CALCMODE, CALCCOUNT, REFMODE
           rec(0x0011, b"\0\0"), rec(0x0010, struct.pack("<d", 0.001)), rec(0x005F, struct.pack("<H", 1)),                # ITERATION, DELTA, SAVERECALC
           rec(0x002A, b"\0\0"), rec(0x002B, b"\0\0"), rec(0x0082, struct.pack("<H", 1)),                                 # PRINTHEADERS, PRINTGRIDLINES, GRIDSET
           rec(0x0080, b"\0" * 8), rec(0x0225, struct.pack("<HH", 0, 255)), rec(0x0081, struct.pack("<H", 0x04C1))]       # GUTS, DEFAULTROWHEIGHT, WSBOOL
    out.append(rec(0x0014, ustr("&C" + meta["header"].replace("&", "&&")) if meta.get("header") else b""))                 # HEADER
    out.append(rec(0x0015, ustr("&C" + meta["footer"].replace("&", "&&")) if meta.get("footer") else b""))                 # FOOTER
    out += [rec(0x0083, b"\0\0"), rec(0x0084, b"\0\0"),                                                                    # HCENTER, VCENTER
            rec(0x00A1, struct.pack("<HHHHHHHHddH", 1, 100, 1, 1, 1, 0x0004, 0, 0, 0.5, 0.5, 1)),                          # SETUP (fNoPls)
            rec(0x0055, struct.pack("<H", 8))]                                                                             # DEFCOLWIDTH
    if rows:
        dims = (rows[0][0], rows[-1][0] + 1, min(x[1] for x in rows), max(x[2] for x in rows))
    else:
        dims = (0, 0, 0, 0)
    out.append(rec(0x0200, struct.pack("<IIHHH", dims[0], dims[1], dims[2], dims[3], 0)))                                  # DIMENSIONS
    for b in range(0, len(rows), 32):            # row blocks: up to 32 ROW records, then their cells
        block = rows[b:b + 32]
        for r, c0, c1, _ in block:
            out.append(rec(0x0208, struct.pack("<HHHHHHHH", r, c0, c1, 0x00FF, 0, 0, 0x0100, 0x000F)))
        for _, _, _, recs in block:
            out += recs
    if drawing:
        out.append(drawing)                                                                                                # MSODRAWING / OBJ
    out.append(rec(0x023E, struct.pack("<HHHHHHHI", 0x06B6 if first else 0x00B6, 0, 0, 0x40, 0, 0, 0, 0)))                 # WINDOW2
    out.append(rec(0x000A))
    return b"".join(out)


# ---------------------------------------------------------------------------------------------------------------------
# pictures ([MS-XLS] MsoDrawingGroup / MsoDrawing / Obj, [MS-ODRAW])
# ---------------------------------------------------------------------------------------------------------------------
def _split_continue(first_type: int, data: bytes) -> bytes:
    out = [rec(first_type, data[:MAX_REC])]
    for p in range(MAX_REC, len(data), MAX_REC):
        out.append(rec(0x003C, data[p:p + MAX_REC]))
    return b"".join(out)


def _drawing_group(blips: list, per_sheet: list) -> bytes:
    """blips: [(record, bt, uid, refs)]; per_sheet: number of pictures of every sheet that has a drawing (drawing ids 1..)"""
    oa, box = _cfb.oa_rec, _cfb.oa_container
    ndg = len(per_sheet)
    clusters = b"".join(struct.pack("<II", i + 1, n + 1) for i, n in enumerate(per_sheet))
    spid_max = (ndg << 10) + per_sheet[-1] + 1
    fdgg = oa(0, 0, 0xF006, struct.pack("<IIII", spid_max, ndg + 1, sum(per_sheet) + ndg, ndg) + clusters)
    bstore = box(0xF001, [_cfb.fbse(bt, uid, len(r), 0, r, refs) for r, bt, uid, refs in blips], inst=len(blips))
    opt = oa(3, 3, 0xF00B, struct.pack("<HIHIHI", 0x00BF, 0x00080008, 0x0181, 0x08000041, 0x01C0, 0x08000040))
    colors = oa(0, 4, 0xF11E, struct.pack("<IIII", 0x0800000D, 0x0800000C, 0x08000017, 0x100000F7))
    return _split_continue(0x00EB, box(0xF000, [fdgg] + ([bstore] if blips else []) + [opt, colors]))


def _sheet_notes(dgid: int, notes: list) -> bytes:
    """notes = [(row, col, text)]: per comment MSODRAWING (text-box shape) + OBJ (Note) + MSODRAWING (client text box) + TXO +
    CONTINUE (text) + CONTINUE (formatting runs); then one NOTE record per comment ([MS-XLS] 2.4.179, 2.4.181, 2.4.329)"""
    oa = _cfb.oa_rec
    base = dgid << 10
    tb = oa(0, 0, 0xF00D, b"")
    shapes = []
    for i, (r, c, text) in enumerate(notes):
        body = (oa(2, 202, 0xF00A, struct.pack("<II", base + 1 + i, 0x0A00)) +
                oa(3, 4, 0xF00B, struct.pack("<HIHIHIHI", 0x0080, 0, 0x00BF, 0x00080008, 0x0181, 0x08000050, 0x03BF, 0x00020002)) +
                oa(0, 0, 0xF010, struct.pack("<HHHHHHHHH", 3, min(c + 1, 255), 0x40, r, 0x20, min(c + 3, 255), 0x40, min(r + 4, 65535), 0x20)) +
                oa(0, 0, 0xF011, b""))
        shapes.append(struct.pack("<HHI", 0x000F, 0xF004, len(body) + len(tb)) + body)
    group = oa(0xF, 0, 0xF004, oa(1, 0, 0xF009, b"\0" * 16) + oa(2, 0, 0xF00A, struct.pack("<II", base, 0x0005)))
    spgr_len = len(group) + sum(len(x) + len(tb) for x in shapes)
    fdg = oa(0, dgid, 0xF008, struct.pack("<II", len(notes) + 1, base + len(notes)))
    head = (struct.pack("<HHI", 0x000F, 0xF002, len(fdg) + 8 + spgr_len) + fdg + struct.pack("<HHI", 0x000F, 0xF003, spgr_len) + group)
    out = []
    for i, ((r, c, text), sp) in enumerate(zip(notes, shapes)):
        if not text or len(text) > 4000:
            raise NotImplementedError("comment text of 1..4000 characters")
        try:
            chars = b"\0" + text.encode("latin-1")
        except UnicodeEncodeError:
            chars = b"\1" + text.encode("utf-16-le")
            if len(text.encode("utf-16-le")) != 2 * len(text):
                raise NotImplementedError("non-BMP characters in a comment")
        out.append(rec(0x00EC, (head if i == 0 else b"") + sp))
        out.append(rec(0x005D, struct.pack("<HHHHH", 0x0015, 0x0012, 0x0019, i + 1, 0x4011) + b"\0" * 12 +          # ftCmo: note
                       struct.pack("<HH", 0x000D, 0x0016) + b"\0" * 22 + struct.pack("<HH", 0, 0)))                 # ftNts, ftEnd
        out.append(rec(0x00EC, tb))
        out.append(rec(0x01B6, struct.pack("<HH6xHH4x", 0x0212, 0, len(text), 16)))                                   # TXO
        out.append(rec(0x003C, chars))
        out.append(rec(0x003C, struct.pack("<HH4x", 0, 0) + struct.pack("<HH4x", len(text), 0)))
    for i, (r, c, text) in enumerate(notes):
        out.append(rec(0x001C, struct.pack("<HHHH", r, c, 0, i + 1) + ustr("verif") + b"\0"))                        # NOTE
    return b"".join(out)


def _sheet_drawing(dgid: int, pibs: list) -> bytes:
    """one MSODRAWING + OBJ pair per picture; the first MSODRAWING also carries the drawing / group headers"""
    oa = _cfb.oa_rec
    base = dgid << 10
    shapes = []
    for i, pib in enumerate(pibs):
        anchor = struct.pack("<HHHHHHHHH", 0, 1, 0, 1 + 6 * i, 0, 3, 0, 6 + 6 * i, 0)
        sp = (oa(2, 75, 0xF00A, struct.pack("<II", base + 1 + i, 0x0A00)) +
              oa(3, 2, 0xF00B, struct.pack("<HIHI", 0x4104, pib, 0x01FF, 0x00080000)) +
              oa(0, 0, 0xF010, anchor) + oa(0, 0, 0xF011, b""))
        shapes.append(oa(0xF, 0, 0xF004, sp))
    group = oa(0xF, 0, 0xF004, oa(1, 0, 0xF009, b"\0" * 16) + oa(2, 0, 0xF00A, struct.pack("<II", base, 0x0005)))
    spgr_len = len(group) + sum(map(len, shapes))
    fdg = oa(0, dgid, 0xF008, struct.pack("<II", len(pibs) + 1, base + len(pibs)))
    head = (struct.pack("<HHI", 0x000F, 0xF002, len(fdg) + 8 + spgr_len) + fdg + struct.pack("<HHI", 0x000F, 0xF003, spgr_len) + group)
    out = []
    for i, sp in enumerate(shapes):
        out.append(rec(0x00EC, (head if i == 0 else b"") + sp))
        out.append(rec(0x005D, struct.pack("<HHHHH", 0x0015, 0x0012, 0x0008, i + 1, 0x6011) + b"\0" * 12 +      # ftCmo: picture
                       struct.pack("<HHH", 0x0007, 2, 0xFFFF) + struct.pack("<HHH", 0x0008, 2, 0x0001) + b"\0" * 4))   # ftCf, ftPioGrbit, ftEnd
    return b"".join(out)


def workbook_stream(doc, opts: dict | None = None, images: dict | None = None) -> bytes:
    """the bare BIFF8 'Workbook' stream"""
    opts = opts or {}
    if doc[0] != "doc":
        raise ValueError("not an ADM document")
    meta = doc[1] or {}
    for k in meta:
        if "meta:" + k not in CAPS_XLS:
            raise NotImplementedError("meta:" + k)
    sheets = doc[2]
    if not sheets:
        raise NotImplementedError("a workbook needs at least one sheet")
    seen = set()
    for sh in sheets:
        if sh[0] != "sheet":
            raise NotImplementedError("unit kind %r in a workbook" % (sh[0],))
        _check_sheet_name(sh[1])
        if sh[1].lower() in seen:
            raise NotImplementedError("duplicate sheet name %r" % (sh[1],))
        seen.add(sh[1].lower())
    datemode = opts.get("datemode", 0)
    if datemode not in (0, 1):
        raise NotImplementedError("datemode %r" % (datemode,))
    sst: dict = {}
    counter = [0]
    # pictures: one BSE per distinct image, one drawing per sheet that has pictures
    blips, index, by_sheet = [], {}, {}
    for si, key in opts.get("pictures") or []:
        if not 0 <= si < len(sheets):
            raise ValueError("pictures: no sheet %r" % (si,))
        if images is None or key not in images:
            raise KeyError("pictures: no image %r" % (key,))
        if key not in index:
            r, bt, uid = _cfb.blip(images[key])
            index[key] = len(blips)
            blips.append([r, bt, uid, 0])
        blips[index[key]][3] += 1
        by_sheet.setdefault(si, []).append(index[key] + 1)
    drawings = {si: _sheet_drawing(n + 1, by_sheet[si]) for n, si in enumerate(sorted(by_sheet))}
    notes_by_sheet = {}
    for si, r, c, text in opts.get("comments_at") or []:
        if blips:
            raise NotImplementedError("comments_at together with pictures")
        if not 0 <= si < len(sheets) or not (0 <= r < MAX_ROWS and 0 <= c < MAX_COLS):
            raise ValueError("comments_at: no such sheet / cell %r" % ((si, r, c),))
        if any((r, c) == (r2, c2) for r2, c2, _ in notes_by_sheet.get(si, [])):
            raise ValueError("comments_at: a cell has one comment")
        notes_by_sheet.setdefault(si, []).append((r, c, text))
    for n, si in enumerate(sorted(notes_by_sheet)):
        drawings[si] = _sheet_notes(n + 1, sorted(notes_by_sheet[si]))
    streams = [_sheet_stream(sh[2], sst, counter, opts, meta, i == 0, drawings.get(i, b"")) for i, sh in enumerate(sheets)]
    sst_bytes, positions = sst_records(list(sst), counter[0])
    g = [[r] for r in _globals_head(len(sheets), datemode)]          # one-element lists so records can be patched in place
    bs = [[rec(0x0085, struct.pack("<IBB", 0, 0, 0) + ustr(sh[1], "<B"))] for sh in sheets]
    sst_ref, ext_ref = [sst_bytes], [extsst_record(positions, 0)]
    g += bs + [[rec(0x008C, struct.pack("<HH", 1, 1))]]                                       # BOUNDSHEETs, COUNTRY
    if blips:
        g.append([_drawing_group(blips, [len(by_sheet[si]) for si in sorted(by_sheet)])])     # MSODRAWINGGROUP (+CONTINUE)
    elif notes_by_sheet:
        g.append([_drawing_group([], [len(notes_by_sheet[si]) for si in sorted(notes_by_sheet)])])
    g += [sst_ref, ext_ref, [rec(0x000A)]]                                                    # SST, EXTSST, EOF
    k = opts.get("filepass_at")
    if k is not None:
        if not 0 <= k <= len(g):
            raise ValueError("filepass_at out of range (0..%d)" % len(g))
        g.insert(k, [FILEPASS_RC4])
    gi = opts.get("globals_insert")
    if gi is not None:
        gk, raw = gi
        if not 0 <= gk <= len(g) or len(raw) < 4:
            raise ValueError("globals_insert: [record index 0..%d, raw record bytes]" % len(g))
        g.insert(gk, [bytes(raw)])
    # absolute stream offsets: BOUNDSHEET.lbPlyPos and EXTSST.ib (patching does not change any length)
    off = sum(len(x[0]) for x in g)
    for ref, sh, st in zip(bs, sheets, streams):
        ref[0] = rec(0x0085, struct.pack("<IBB", off, 0, 0) + ustr(sh[1], "<B"))
        off += len(st)
    sst_abs = 0
    for x in g:
        if x is sst_ref:
            break
        sst_abs += len(x[0])
    ext_ref[0] = extsst_record(positions, sst_abs)
    g = [x[0] for x in g]
    return b"".join(g) + b"".join(streams)


def xls(doc, images=None, opts: dict | None = None) -> bytes:
    opts = opts or {}
    name = opts.get("stream_name", "Workbook")
    streams = {name: workbook_stream(doc, opts, images)}
    if not opts.get("no_summary"):
        streams.update(_cfb.summary_streams(_cfb.adm_summary(doc[1], opts.get("summary"))))
    o = {"clsid": {"": _cfb.CLSID_XLS}}
    o.update(opts.get("cfb") or {})
    return _cfb.cfb(streams, o)
