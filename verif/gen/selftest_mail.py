"""Self-test of verif.gen.mail:  PYTHONPATH=/verif /venv/bin/python -B -m verif.gen.selftest_mail [-q]

Part A  writer validity, judged by independent readers only (never by the library under test):
        email.policy.default parser (mail.validate), the legacy compat32 parser + email.header/email.utils, quopri/binascii,
        mailbox.mbox (reader and writer), a wire-format lint (ASCII headers, line lengths, line ends, 7bit claims, boundaries).
        A failure here is printed as WRITER-INVALID and is a bug of the writer.
Part B  the library's read_eml_format_mail over all 1-deviation specs (+ the attachment / html domains under a structure
        that renders them); field-by-field disagreements with the ground truth are printed as EXTRACTOR-DISAGREES.
Part C  the library's read_mbox_format_mail likewise, plus the separator / From-line options.
Exit code is 0 unless the self-test itself crashes; WRITER-INVALID count is in the summary."""
from __future__ import annotations

import binascii
import collections
import email
import email.header
import email.utils
import io
import logging
import mailbox
import os
import quopri
import re
import struct
import sys
import tempfile
import zlib

from . import mail

QUIET = "-q" in sys.argv[1:]
COUNTS = collections.Counter()
DISAGREE = collections.defaultdict(list)          # (extractor, field) -> [case label]
INVALID = []


def line(status, what, detail=""):
    COUNTS[status] += 1
    if QUIET and status == "ok":
        return
    print("%-19s %s%s" % (status, what, ("  " + detail) if detail else ""))


def short(v, n=110):
    r = repr(v)
    return r if len(r) <= n else r[:n] + "...(%d)" % len(r)


# ----------------------------------------------------------------------------------------------------------------------
# independent checks

def lint(data: bytes, crlf: bool) -> list:
    """Wire-format checks that need no MIME understanding."""
    errs = []
    if crlf:
        if b"\n" in data.replace(b"\r\n", b""):
            errs.append("bare LF in CRLF file")
        if b"\r" in data.replace(b"\r\n", b""):
            errs.append("bare CR")
        lines = data.split(b"\r\n")
    else:
        if b"\r" in data:
            errs.append("CR in LF file")
        lines = data.split(b"\n")
    if any(len(ln) > 998 for ln in lines):
        errs.append("line longer than 998 octets")
    head = lines[:lines.index(b"")] if b"" in lines else lines
    for ln in head:
        if any(x > 126 or (x < 32 and x != 9) for x in ln):
            errs.append("non-ASCII / control octet in header: %r" % ln[:40])
        if not (ln[:1] in b" \t" or re.match(rb"^[!-9;-~]+:", ln)):
            errs.append("malformed header line %r" % ln[:40])
        if ln[:1] in b" \t" and not ln.strip():
            errs.append("white-space-only continuation line")
    names = [ln.split(b":", 1)[0].lower() for ln in head if ln[:1] not in b" \t"]
    for h in (b"from", b"date"):
        if names.count(h) != 1:
            errs.append("header %s occurs %d times" % (h.decode(), names.count(h)))
    for h in (b"to", b"cc", b"bcc", b"reply-to", b"subject", b"message-id", b"in-reply-to", b"mime-version", b"content-type"):
        if names.count(h) > 1:
            errs.append("header %s occurs %d times" % (h.decode(), names.count(h)))
    return errs


def _unfold_decode(v):
    v = re.sub(r"\r?\n(?=[ \t])", "", v or "")
    return str(email.header.make_header(email.header.decode_header(v)))


def compat32_check(data: bytes, exp: dict) -> list:
    """Third reader: legacy parser + decode_header / getaddresses / parsedate_to_datetime; transfer decoding by quopri/binascii."""
    errs = []
    m = email.message_from_bytes(data)
    if _unfold_decode(m["Subject"]) != exp["subject"]:
        errs.append("compat32 subject %s" % short(_unfold_decode(m["Subject"])))
    if email.utils.parsedate_to_datetime(m["Date"]).isoformat() != exp["date"]:
        errs.append("compat32 date %s" % m["Date"])
    for h, f in (("From", "from"), ("To", "to"), ("Cc", "cc"), ("Bcc", "bcc"), ("Reply-To", "reply_to")):
        vals = [re.sub(r"\r?\n(?=[ \t])", "", v) for v in m.get_all(h, [])]
        # the legacy reader reports an empty group ("undisclosed-recipients:;") as one ('', '') pair
        got = [[_unfold_decode(n), a] for n, a in email.utils.getaddresses(vals) if (n, a) != ("", "")]
        want = [exp["from"]] if f == "from" else exp[f]
        if got != [list(x) for x in want]:
            errs.append("compat32 %s %s" % (f, short(got)))
    # leaves, without descending into message/rfc822
    leaves = []

    def walk(p):
        if p.get_content_maintype() == "multipart":
            for s in p.get_payload():
                walk(s)
        else:
            leaves.append(p)
    walk(m)
    files = []
    for p in leaves:
        cte = (p.get("Content-Transfer-Encoding") or "7bit").lower()
        if p.get_content_type() == "message/rfc822":
            continue
        if cte == "base64":
            dec = binascii.a2b_base64(p.get_payload().encode("ascii"))
        elif cte == "quoted-printable":
            dec = quopri.decodestring(p.get_payload().encode("ascii"))
        else:
            dec = p.get_payload(decode=True)            # identity for 7bit / 8bit
            if cte == "7bit" and any(x > 127 for x in dec):
                errs.append("8-bit octets in a part labelled 7bit")
        fn = p.get_filename()
        if fn is not None:
            fn = _unfold_decode(fn)
        if p.get("Content-Disposition", "").startswith("attachment"):
            files.append((fn, p.get_content_type(), dec))
    want = [a for a in exp["attachments"] if a[1] != "message/rfc822"]
    if files != want:
        errs.append("compat32 attachments %s" % short(files))
    return errs


def check_png(data: bytes) -> list:
    errs = []
    if data[:8] != b"\x89PNG\r\n\x1a\n":
        return ["png signature"]
    pos, kinds, idat = 8, [], b""
    while pos < len(data):
        n, = struct.unpack(">I", data[pos:pos + 4])
        kind = data[pos + 4:pos + 8]
        body = data[pos + 8:pos + 8 + n]
        crc, = struct.unpack(">I", data[pos + 8 + n:pos + 12 + n])
        if zlib.crc32(kind + body) & 0xFFFFFFFF != crc:
            errs.append("crc of %r" % kind)
        kinds.append(kind)
        if kind == b"IDAT":
            idat += body
        pos += 12 + n
    if kinds != [b"IHDR", b"IDAT", b"IEND"]:
        errs.append("chunks %r" % kinds)
    if zlib.decompress(idat) != b"\x00\xff\x00\x00":
        errs.append("scanline")
    return errs


def stdlib_mbox_bytes(specs, opts) -> bytes:
    """The same mailbox written through mailbox.mbox.add (From_ escaping on); only the standard form exists there."""
    fd, path = tempfile.mkstemp(prefix="verif_mbox_w_", suffix=".mbox")
    os.close(fd)
    os.unlink(path)
    try:
        mb = mailbox.mbox(path, create=True)
        for s in mail._mbox_specs(specs, opts):
            mb.add(mail._from_line(mail.full_spec(s)) + b"\n" + mail.eml(s))
        mb.flush()
        mb.close()
        with open(path, "rb") as f:
            return f.read()
    finally:
        if os.path.exists(path):
            os.unlink(path)


# ----------------------------------------------------------------------------------------------------------------------
# library adapters

def lib_dict(c) -> dict:
    return {"subject": c.subject, "from": [c.from_email.name, c.from_email.address],
            "to": [[a.name, a.address] for a in c.to_emails], "cc": [[a.name, a.address] for a in c.to_cc],
            "bcc": [[a.name, a.address] for a in c.to_bcc], "reply_to": [[a.name, a.address] for a in c.reply_to],
            "date": c.metadata.date, "message_id": c.metadata.message_id, "in_reply_to": c.in_reply_to,
            "body_plain": c.body_plain, "body_html": c.body_html,
            "attachments": [(a.filename, a.mime_type, a.data.getvalue()) for a in c.attachments]}


def lib_compare(exp: dict, got: dict) -> list:
    """diff with the documented normalisations: bodies stripped, a missing filename may be replaced by any placeholder."""
    got = dict(got)
    atts = list(got["attachments"])
    for i, e in enumerate(exp["attachments"]):
        if i < len(atts) and e[0] is None:
            atts[i] = (None,) + tuple(atts[i][1:])
    got["attachments"] = atts
    out = mail.diff(exp, got, "strip")
    if any(f == "attachments" for f, _, _ in out):
        # is the only difference the line-end convention of an embedded message/rfc822 (re-serialised by the reader)?
        def eol(lst):
            return [(a[0], a[1], a[2].replace(b"\r\n", b"\n") if a[1] == "message/rfc822" else a[2]) for a in lst]
        e2, g2 = dict(exp, attachments=eol(exp["attachments"])), dict(got, attachments=eol(atts))
        if not any(f == "attachments" for f, _, _ in mail.diff(e2, g2, "strip")):
            out = [(("attachments~rfc822-eol-only" if f == "attachments" else f), e, g) for f, e, g in out]
    return out


def report(extractor, label, diffs, note=""):
    if not diffs:
        line("ok", "%s %s" % (extractor, label), note)
        return
    for f, e, g in diffs:
        DISAGREE[(extractor, f)].append(label)
        line("EXTRACTOR-DISAGREES", "%s %s field=%s" % (extractor, label, f), "expected=%s got=%s" % (short(e), short(g)))


def writer_check(label, errs):
    if errs:
        INVALID.append(label)
        line("WRITER-INVALID", label, "; ".join(str(e) for e in errs)[:400])
    else:
        line("ok", label)


# ----------------------------------------------------------------------------------------------------------------------

def part_a():
    print("== Part A: writer validity (independent readers) ==")
    writer_check("A0 inline png", check_png(mail.INLINE_PNG))
    # encoders against quopri / binascii on every text of the domains and every attachment
    D = dict(mail.DOMAINS)
    errs = []
    for text in D["body_plain"] + D["body_html"]:
        for cs, codec in (("utf-8", "utf-8"), ("windows-1252", "cp1252")):
            try:
                raw = text.encode(codec)
            except UnicodeEncodeError:
                continue
            q = mail._text_payload(text, cs, "quoted-printable")
            if quopri.decodestring(q) != raw:
                errs.append("qp text %s" % short(text, 30))
            if any(len(ln) > 76 for ln in q.split(b"\n")) or any(ln.endswith((b" ", b"\t")) for ln in q.split(b"\n")):
                errs.append("qp line form %s" % short(text, 30))
            b = mail._text_payload(text, cs, "base64")
            if binascii.a2b_base64(b) != raw.replace(b"\n", b"\r\n") or any(len(ln) > 76 for ln in b.split(b"\n")):
                errs.append("b64 text %s" % short(text, 30))
    for atts in D["attachments"] + [mail.DEFAULT_ATTACHMENTS]:
        for a in atts:
            data = bytes.fromhex(a["data_hex"])
            if quopri.decodestring(mail._qp_binary(data)) != data:
                errs.append("qp binary %s" % a.get("filename"))
            if binascii.a2b_base64(mail._b64(data)) != data:
                errs.append("b64 binary %s" % a.get("filename"))
    writer_check("A1 transfer encoders vs quopri/binascii", errs)

    skipped = []
    for s in mail.deviations(1, only_expressible=False):
        try:
            mail.eml(s)
        except NotImplementedError as e:
            skipped.append("%s (%s)" % (mail.deviation_key(s), str(e).replace("mail writer: ", "")))
    line("info", "A2 inexpressible 1-deviations (raise NotImplementedError): %d" % len(skipped), "; ".join(skipped))

    n = 0
    for s in mail.deviations(1):
        n += 1
        key = mail.deviation_key(s)
        full = mail.full_spec(s)
        data = mail.eml(s)
        exp = mail.truth(s)
        errs = ["policy.default %s: expected %s got %s" % (f, short(e, 60), short(g, 60)) for f, e, g in mail.validate(s)]
        errs += lint(data, full["line_end"] == "\r\n")
        errs += compat32_check(data, exp)
        if mail.eml(s) != data:
            errs.append("not deterministic")
        if mail.parse(data)["defects"] and not any(a.get("filename_style") == "rfc2047" for a in mail._attachments(full)):
            errs.append("stdlib parser defects %s" % mail.parse(data)["defects"])
        writer_check("A3 eml %s" % key, errs)
    bad2 = n2 = 0
    for s in mail.deviations(2):
        n2 += 1
        full = mail.full_spec(s)
        data = mail.eml(s)
        errs = ["policy.default %s" % f for f, e, g in mail.validate(s)] + lint(data, full["line_end"] == "\r\n") + \
            compat32_check(data, mail.truth(s))
        if errs:
            bad2 += 1
            writer_check("A4 eml %s" % mail.deviation_key(s), errs)
    line("ok" if not bad2 else "info", "A4 eml all <=2-deviation specs: %d rendered, %d invalid" % (n2, bad2))

    # boundary sweep of the header / body encoders: lengths around every folding and splitting limit
    errs, n, nie = [], 0, 0
    alph = "aé€中 "

    def sweep(spec, label):
        nonlocal n, nie
        n += 1
        try:
            v = mail.validate(spec)
            data = mail.eml(spec)
        except NotImplementedError:
            nie += 1
            return
        v += [("lint", x, "") for x in lint(data, True)]
        for ln in data.split(b"\r\n"):
            if ln.startswith((b"Subject:", b"From:", b"To:", b" =?", b" filename=\"=?")) and b"=?" in ln and len(ln) > 76:
                v.append(("encoded-word line > 76", ln, len(ln)))
        if v:
            errs.append("%s: %s" % (label, short(v[0], 160)))

    for ln_ in range(1, 100):
        for off in range(4):
            text = " ".join("".join(alph[(i + off) % 5] for i in range(ln_)).split())
            if not text:
                continue
            for st in ("utf8-b", "utf8-q"):
                sweep({"subject": [st, text]}, "subject %s len %d" % (st, ln_))
            sweep({"subject": ["latin1-q", "".join(c for c in text if c in "aé ").strip() or "a"]}, "subject latin1-q len %d" % ln_)
            sweep({"from": [text, "a@b.example"], "reply_to": [[text, "c@d.example"]] * 2}, "name len %d" % ln_)
            for fs in ("rfc2231", "rfc2047"):
                sweep({"structure": "mixed-plain-att-att", "attachments": [{"filename": text, "filename_style": fs, "data_hex": "00"}]},
                      "filename %s len %d" % (fs, ln_))
    for k in range(1, 40):
        for wl in (1, 3, 7, 20, 90):
            for gap in (" ", "  "):
                text = gap.join("w" * wl + str(i) for i in range(k))
                if len(text) < 900:
                    sweep({"subject": ["ascii", text]}, "subject ascii %d words of %d" % (k, wl))
                    if k > 12:
                        sweep({"subject": ["long-folded", text]}, "subject long-folded %d words of %d" % (k, wl))
    for ln_ in range(66, 82):
        for ch in "a=é \t":
            body = ("x" * ln_ + ch + "\n") * 2 + ch * 3 + "y"
            for cte in ("quoted-printable", "base64", "8bit"):
                sweep({"body_plain": body, "cte": cte}, "body line %d+%r %s" % (ln_, ch, cte))
    writer_check("A8 boundary sweep (%d specs, %d inexpressible) vs policy.default + lint" % (n, nie), errs[:5])

    # mbox
    second = {"message_id": "<second.2@verif.example>", "subject": ["ascii", "Hscndm second"], "date": ["-0500", "2024-03-06T08:00:01"]}
    D = dict(mail.DOMAINS)
    fromy = {"body_plain": D["body_plain"][4]}
    for opts in ({}, {"from_line_in_body": "escaped"}):
        for specs in ([{}, second], [fromy, {}, second], [{"cte": "8bit"}, {"structure": "mixed-plain-att-att"}]):
            a, b = mail.mbox(specs, opts), stdlib_mbox_bytes(specs, opts)
            writer_check("A5 mbox standard form == mailbox.mbox.add output  opts=%s n=%d" % (opts, len(specs)),
                         [] if a == b else ["bytes differ"])
    for sep in ("standard", "no-blank-line", "crlf"):
        for flb in (None, "escaped", "unescaped"):
            for cte in ("quoted-printable", "8bit"):
                opts = {"separator": sep}
                if flb:
                    opts["from_line_in_body"] = flb
                specs = [{"cte": cte}, second, {"structure": "alternative", "cte": cte}]
                data = mail.mbox(specs, opts)
                exp = mail.mbox_expected(specs, opts)
                got = mail.mbox_truth(data)
                errs = lint_mbox(data, sep)
                label = "A6 mbox sep=%s from_line=%s cte=%s" % (sep, flb, cte)
                if exp["ambiguous"]:
                    # not a valid mboxo file: the stdlib reader is the only reference; it must split at the unescaped line
                    if len(got) != len(specs) + 1:
                        errs.append("stdlib reader found %d messages in the unescaped file (expected split: %d)" % (len(got), len(specs) + 1))
                    writer_check(label + " (ambiguous form, stdlib splits: %d messages)" % len(got), errs)
                    continue
                if len(got) != len(specs):
                    errs.append("stdlib reader found %d messages" % len(got))
                else:
                    for i, (e, g) in enumerate(zip(exp["messages"], got)):
                        e = dict(e)
                        e["body_plain"] = e["body_plain_mboxo"]          # mailbox.mbox does not undo the escaping
                        # mailbox.mbox leaves the separating blank line at the end of the message: compare modulo trailing newlines
                        for f in ("body_plain", "body_html"):
                            g[f] = g[f].replace("\r\n", "\n").rstrip("\n")
                            e[f] = e[f].rstrip("\n")
                        errs += ["msg %d %s: expected %s got %s" % (i, f, short(x, 50), short(y, 50)) for f, x, y in mail.diff(e, g, "exact")]
                writer_check(label, errs)
    n = 0
    bad = 0
    for s in mail.deviations(1):
        n += 1
        specs = [s, second]
        data = mail.mbox(specs)
        exp = mail.mbox_expected(specs)
        got = mail.mbox_truth(data)
        errs = lint_mbox(data, "standard")
        if len(got) != 2:
            errs.append("count %d" % len(got))
        else:
            for i, (e, g) in enumerate(zip(exp["messages"], got)):
                e = dict(e)
                e["body_plain"] = e["body_plain_mboxo"]
                for f in ("body_plain", "body_html"):
                    g[f] = g[f].replace("\r\n", "\n").rstrip("\n")
                    e[f] = e[f].rstrip("\n")
                errs += ["msg %d %s: expected %s got %s" % (i, f, short(x, 50), short(y, 50)) for f, x, y in mail.diff(e, g, "exact")]
        if errs:
            bad += 1
            writer_check("A7 mbox [%s, second]" % mail.deviation_key(s), errs)
    line("ok" if not bad else "info", "A7 mbox of every 1-deviation spec read back by mailbox.mbox: %d files, %d invalid" % (n, bad))


def lint_mbox(data: bytes, sep: str) -> list:
    errs = []
    if not data.startswith(b"From "):
        errs.append("does not start with a From_ line")
    if sep == "crlf":
        if b"\n" in data.replace(b"\r\n", b""):
            errs.append("bare LF in CRLF mbox")
    elif b"\r" in data:
        errs.append("CR in LF mbox")
    return errs


def extra_specs():
    """1-deviations of dimensions that the baseline structure does not render, under the simplest structure that does."""
    D = dict(mail.DOMAINS)
    for v in D["attachments"][1:]:
        yield {"structure": "mixed-plain-att-att", "attachments": v}
    for v in D["body_html"][1:]:
        yield {"structure": "html", "body_html": v}
    yield {"charset": "us-ascii", "body_plain": D["body_plain"][1]}
    yield {"cte": "7bit", "body_plain": D["body_plain"][1]}
    yield {"charset": "windows-1252", "body_plain": D["body_plain"][3]}
    yield {"charset": "windows-1252", "cte": "8bit", "body_plain": D["body_plain"][3]}
    yield {"charset": "iso-8859-1", "cte": "8bit"}
    yield {"charset": "unknown-8bit", "body_plain": D["body_plain"][1]}
    yield {"structure": "alternative", "cte": "base64"}
    yield {"structure": "html", "charset": "iso-8859-1"}
    yield {"structure": "rfc822-attachment", "body_plain": ""}


def part_b():
    print("== Part B: library read_eml_format_mail vs ground truth ==")
    from sharepoint2text.parsing.extractors.mail.eml_email_extractor import read_eml_format_mail
    specs = list(mail.deviations(1)) + list(extra_specs())
    for s in specs:
        key = mail.deviation_key(s)
        errs = mail.validate(s)
        if errs:
            writer_check("B eml %s" % key, ["policy.default %s" % f for f, _, _ in errs])
            continue
        data = mail.eml(s)
        exp = mail.truth(s)
        try:
            res = list(read_eml_format_mail(io.BytesIO(data)))
        except Exception as e:                       # noqa: BLE001 - the finding is the exception
            cause = getattr(e, "__cause__", None)
            DISAGREE[("eml", "EXCEPTION")].append(key)
            line("EXTRACTOR-DISAGREES", "eml %s raised %s" % (key, type(e).__name__), "cause=%s" % short(cause))
            continue
        if len(res) != 1:
            DISAGREE[("eml", "COUNT")].append(key)
            line("EXTRACTOR-DISAGREES", "eml %s yielded %d results" % (key, len(res)))
            continue
        diffs = lib_compare(exp, lib_dict(res[0]))
        if any(a[0] is None for a in exp["attachments"]):
            # a nameless attachment may get a placeholder name, but the same input must give the same output
            again = lib_dict(list(read_eml_format_mail(io.BytesIO(data)))[0])
            n1, n2 = [a[0] for a in lib_dict(res[0])["attachments"]], [a[0] for a in again["attachments"]]
            if n1 != n2:
                diffs.append(("attachments~nondeterministic-placeholder-filename", n1, n2))
        # iterate_supported_attachments: every text/* attachment must come back as its text (declared charset applied)
        want = []
        for a in mail._attachments(mail.full_spec(s)):
            if a["ctype"].lower() in ("text/plain", "text/csv"):
                want.append(mail.norm_text(bytes.fromhex(a["data_hex"]).decode(mail._CODEC.get(a.get("charset") or "us-ascii", a.get("charset") or "ascii")), "strip"))
        if want:
            try:
                subs = [mail.norm_text(x.get_full_text(), "strip") for x in res[0].iterate_supported_attachments()
                        if type(x).__name__ == "PlainTextContent"]
            except Exception as e:                   # noqa: BLE001
                subs = ["raised %r" % (e,)]
            if subs != want:
                diffs.append(("iterate_supported_attachments~text", want, subs))
        report("eml", key, diffs)


def part_c():
    print("== Part C: library read_mbox_format_mail vs ground truth ==")
    from sharepoint2text.parsing.extractors.mail.mbox_email_extractor import read_mbox_format_mail
    second = {"message_id": "<second.2@verif.example>", "subject": ["ascii", "Hscndm second"], "date": ["-0500", "2024-03-06T08:00:01"]}

    def run(label, specs, opts):
        data = mail.mbox(specs, opts)
        exp = mail.mbox_expected(specs, opts)
        ref = mail.mbox_truth(data)
        try:
            res = list(read_mbox_format_mail(io.BytesIO(data)))
        except Exception as e:                       # noqa: BLE001
            DISAGREE[("mbox", "EXCEPTION")].append(label)
            line("EXTRACTOR-DISAGREES", "mbox %s raised %s" % (label, type(e).__name__), "cause=%s" % short(getattr(e, "__cause__", None)))
            return
        if exp["ambiguous"]:
            note = "ambiguous form: spec says %d messages, mailbox.mbox reads %d, library reads %d" % (len(specs), len(ref), len(res))
            if len(res) not in (len(specs), len(ref)):
                DISAGREE[("mbox", "COUNT")].append(label)
                line("EXTRACTOR-DISAGREES", "mbox %s" % label, note)
            else:
                line("info", "mbox %s" % label, note)
            return
        if len(res) != len(specs):
            DISAGREE[("mbox", "COUNT")].append(label)
            line("EXTRACTOR-DISAGREES", "mbox %s message count" % label, "expected=%d got=%d (mailbox.mbox: %d)" % (len(specs), len(res), len(ref)))
            return
        for i, (e, c) in enumerate(zip(exp["messages"], res)):
            g = lib_dict(c)
            d = lib_compare(e, g)
            note = ""
            if any(f == "body_plain" for f, _, _ in d) and e["body_plain_mboxo"] != e["body_plain"]:
                e2 = dict(e)
                e2["body_plain"] = e["body_plain_mboxo"]
                d2 = lib_compare(e2, g)
                if not any(f == "body_plain" for f, _, _ in d2):
                    d = d2
                    note = "(body keeps the mboxo '>From ' escaping, as mailbox.mbox does)"
            report("mbox", "%s msg%d" % (label, i), d, note)

    for s in list(mail.deviations(1)) + list(extra_specs()):
        if mail.validate(s):
            continue
        run("[%s, second]" % mail.deviation_key(s), [s, second], {})
    for sep in ("standard", "no-blank-line", "crlf"):
        for flb in (None, "escaped", "unescaped"):
            opts = {"separator": sep}
            if flb:
                opts["from_line_in_body"] = flb
            run("opts sep=%s from_line=%s" % (sep, flb), [{"cte": "8bit"}, second, {"structure": "alternative"}], opts)


def main():
    logging.disable(logging.CRITICAL)
    part_a()
    part_b()
    part_c()
    print("== Summary ==")
    print("checks: %d ok, %d info, %d WRITER-INVALID, %d EXTRACTOR-DISAGREES lines" %
          (COUNTS["ok"], COUNTS["info"], COUNTS["WRITER-INVALID"], COUNTS["EXTRACTOR-DISAGREES"]))
    for lab in INVALID:
        print("  WRITER-INVALID: %s" % lab)
    for (ex, f), labels in sorted(DISAGREE.items()):
        print("  EXTRACTOR-DISAGREES %-4s %-12s %3d case(s): %s" % (ex, f, len(labels), ", ".join(labels[:12]) + (" ..." if len(labels) > 12 else "")))
    return 0


if __name__ == "__main__":
    sys.exit(main())
