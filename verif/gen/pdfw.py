"""Reference PDF writer (written from ISO 32000-1 / PDF 1.4 reference) for the abstract document model.

    pdf(doc, images=None, opts=None) -> bytes          CAPS_PDF

The file is serialised by hand (objects, classic cross-reference table, trailer) so that object numbers, byte offsets and
the optional encryption are fully under control and deterministic; nothing of pypdf is used for writing.

Layout
    1 0 obj  Catalog      2 0 obj  Pages      3 0 obj  Font /F1 = Type1 /Helvetica, /WinAnsiEncoding
    per unit one Page object (MediaBox 612 x 792) followed by its content stream (if any) and its image XObjects,
    then the /Info dictionary (if meta is given) and the /Encrypt dictionary (if requested).
    trailer: /Size /Root [/Info] /ID [md5 of the unencrypted body, twice] [/Encrypt]

Mapping of the ADM
    unit             one page; an empty unit is a page without /Contents ("nostream", default) or with a
                     zero-length content stream ("emptystream")
    ["p"] / ["h"]    one text line:   BT /F1 12 Tf 72 y Td (text) Tj ET      y = 720, 700, 680 ...
                     the ["t"] tokens of the paragraph are joined by one space inside a single Tj; ["br"] starts a new
                     line (new BT..ET, y - 20); an empty paragraph only advances y
    ["img", key]     JPEG only: image XObject (/Filter /DCTDecode) painted with  q w 0 0 h 72 y' cm /ImN Do Q
                     (N counts per page); by default every occurrence gets its own XObject object,
                     opts "shared_images": True uses one object per image key for the whole document
    meta             /Info  /Title /Author /Subject /Keywords  (text strings: ASCII literal or UTF-16BE with BOM)
    everything else (lists, tables, links, tab, ins/del, notes, page breaks, header/footer, description,
    png/gif/bmp images, characters outside cp1252, more lines than fit on the page) -> NotImplementedError

opts
    "empty_page":    "nostream" (default) | "emptystream"
    "shared_images": False (default) | True
    "image_filters": None (default: /Filter /DCTDecode, a name) | list of filter names that are applied BEFORE /DCTDecode when the
                     stream is decoded (ISO 32000-1 7.4.1: a /Filter array lists the filters in decoding order, so the last one
                     names the format of the image data): [] writes the one-element array [/DCTDecode]; ["FlateDecode"] writes
                     /Filter [/FlateDecode /DCTDecode] with the JPEG file deflated; also "ASCII85Decode", "ASCIIHexDecode",
                     "RunLengthDecode" (literal runs), in any combination / repetition, e.g. ["ASCII85Decode", "FlateDecode"]
                     = the deflated file in an ASCII base-85 wrapper.  The image the page shows is the same JPEG file in every case
    "encrypt":       None | {"user": "", "owner": "x", "algorithm": "RC4-40" | "RC4-128", "permissions": -4}
                     standard security handler, /V 1 /R 2 (40 bit) or /V 2 /R 3 /Length 128; strings and streams are
                     RC4-encrypted with the per-object key (Algorithm 1). AES-128 / AES-256 -> NotImplementedError
                     (neither `cryptography` nor `pycryptodome` is installed, pypdf cannot write them either).
                     optional key "crypt_filter": {"name": "StdCF", "cfm": "V2" | "AESV2" | "AESV3"} (absent: output as before)
                     writes the crypt-filter form of the standard security handler instead: /CF << /<name> << /CFM /<cfm>
                     /AuthEvent /DocOpen /Length n >> >> /StmF /<name> /StrF /<name>; the filter name is free (ISO 32000-1
                     7.6.5: /StmF and /StrF reference it).  "V2" / "AESV2": /V 4 /R 4 /Length 128 ("algorithm" must be
                     "RC4-128": 128-bit file key, Algorithm 2); AESV2 = AES-128-CBC, per-object key with the "sAlT"
                     suffix (Algorithm 1), 16-byte IV in front, PKCS#7 padding.  "AESV3": /V 5 /R 5 /Length 256 (Adobe
                     extension level 3: SHA-256 based /U /O /UE /OE /Perms), AES-256-CBC with the file key itself.
                     AES comes from the independent reference verif.ref.aes; IVs, salts and the V5 file key are
                     derived from the file identifier and the object number, so the bytes are a function of the input.
"""
from __future__ import annotations

import hashlib
import re
import struct

CAPS_PDF = frozenset({
    "unit", "multiunit", "p", "h", "t", "br", "img",
    "meta:title", "meta:author", "meta:subject", "meta:keywords",
})

_INFO_KEYS = (("title", "Title"), ("author", "Author"), ("subject", "Subject"), ("keywords", "Keywords"))

PAGE_W, PAGE_H = 612, 792
LEFT, TOP, LEADING, BOTTOM = 72, 720, 20, 40
MAX_IMG_W, MAX_IMG_H = PAGE_W - 2 * LEFT, 300

_PAD = bytes.fromhex("28BF4E5E4E758A4164004E56FFFA01082E2E00B6D0683E802F0CA9FE6453697A")


# ----------------------------------------------------------------------------------------------------------------------
# helpers
# ----------------------------------------------------------------------------------------------------------------------

def _rc4(key: bytes, data: bytes) -> bytes:
    s = list(range(256))
    j = 0
    n = len(key)
    for i in range(256):
        j = (j + s[i] + key[i % n]) & 255
        s[i], s[j] = s[j], s[i]
    out = bytearray(len(data))
    i = j = 0
    for k, c in enumerate(data):
        i = (i + 1) & 255
        j = (j + s[i]) & 255
        s[i], s[j] = s[j], s[i]
        out[k] = c ^ s[(s[i] + s[j]) & 255]
    return bytes(out)


def _lit(b: bytes) -> bytes:
    """PDF literal string from raw bytes."""
    out = bytearray(b"(")
    for c in b:
        if c in (0x28, 0x29, 0x5C):
            out += b"\\" + bytes([c])
        elif c < 0x20 or c > 0x7E:
            out += b"\\%03o" % c
        else:
            out.append(c)
    out += b")"
    return bytes(out)


def _page_text(s: str) -> bytes:
    """String operand of Tj for the WinAnsiEncoding font."""
    try:
        return _lit(s.encode("cp1252"))
    except UnicodeEncodeError:
        raise NotImplementedError("character outside WinAnsiEncoding cannot be shown with the Type1 Helvetica font")


def _text_string(s: str) -> bytes:
    """Raw bytes of a PDF 'text string' (7.9.2.2): ASCII as is (a subset of PDFDocEncoding), else UTF-16BE with BOM."""
    if all(0x20 <= ord(c) < 0x7F for c in s):
        return s.encode("ascii")
    return b"\xfe\xff" + s.encode("utf-16-be")


def jpeg_info(data: bytes):
    """(width, height, components) from the SOF marker of a JPEG."""
    if data[:2] != b"\xff\xd8":
        raise ValueError("not a JPEG")
    i = 2
    while i + 4 <= len(data):
        if data[i] != 0xFF:
            raise ValueError("bad JPEG marker")
        m = data[i + 1]
        if m == 0xFF:
            i += 1
            continue
        if m == 0x01 or 0xD0 <= m <= 0xD9:
            i += 2
            continue
        ln = struct.unpack(">H", data[i + 2:i + 4])[0]
        if 0xC0 <= m <= 0xCF and m not in (0xC4, 0xC8, 0xCC):
            h, w = struct.unpack(">HH", data[i + 5:i + 9])
            return w, h, data[i + 9]
        i += 2 + ln
    raise ValueError("JPEG without SOF")


def _num(x) -> str:
    if isinstance(x, int) or float(x).is_integer():
        return "%d" % int(x)
    return ("%.3f" % x).rstrip("0").rstrip(".")


# ----------------------------------------------------------------------------------------------------------------------
# encryption (standard security handler, revisions 2 and 3)
# ----------------------------------------------------------------------------------------------------------------------

def _pad_pw(pw: str) -> bytes:
    try:
        b = pw.encode("latin-1")
    except UnicodeEncodeError:
        raise NotImplementedError("password outside PDFDocEncoding/latin-1")
    return (b + _PAD)[:32]


def _owner_value(owner: str, user: str, rev: int, n: int) -> bytes:        # Algorithm 3
    h = hashlib.md5(_pad_pw(owner or user)).digest()
    if rev >= 3:
        for _ in range(50):
            h = hashlib.md5(h).digest()
    key = h[:n]
    v = _rc4(key, _pad_pw(user))
    if rev >= 3:
        for i in range(1, 20):
            v = _rc4(bytes(b ^ i for b in key), v)
    return v


def _file_key(user: str, o: bytes, p: int, id0: bytes, rev: int, n: int) -> bytes:     # Algorithm 2
    h = hashlib.md5(_pad_pw(user) + o + struct.pack("<I", p & 0xFFFFFFFF) + id0).digest()
    if rev >= 3:
        for _ in range(50):
            h = hashlib.md5(h[:n]).digest()
    return h[:n]


def _user_value(key: bytes, id0: bytes, rev: int) -> bytes:                 # Algorithms 4 and 5
    if rev == 2:
        return _rc4(key, _PAD)
    v = _rc4(key, hashlib.md5(_PAD + id0).digest())
    for i in range(1, 20):
        v = _rc4(bytes(b ^ i for b in key), v)
    return v + b"\x00" * 16


def _object_key(key: bytes, num: int, gen: int = 0, aes: bool = False) -> bytes:               # Algorithm 1
    h = hashlib.md5(key + struct.pack("<I", num)[:3] + struct.pack("<H", gen) + (b"sAlT" if aes else b"")).digest()
    return h[:min(len(key) + 5, 16)]


def _aes_cbc_pkcs7(key: bytes, iv: bytes, data: bytes) -> bytes:           # 7.6.2: IV, then the CBC blocks of the padded data
    from verif.ref import aes
    pad = 16 - len(data) % 16
    return iv + aes.cbc_encrypt(key, iv, data + bytes([pad]) * pad)


def _v5_values(user: str, owner: str, perms: int, id0: bytes):
    """/V 5 /R 5 (Adobe extension level 3): -> (file key, /U, /O, (/UE, /OE, /Perms)); salts and key derived from id0"""
    from verif.ref import aes
    up, op = user.encode("utf-8")[:127], (owner or user).encode("utf-8")[:127]
    fkey = hashlib.sha256(b"verif-v5-key" + id0).digest()
    salt = hashlib.sha256(b"verif-v5-salt" + id0).digest()
    uvs, uks, ovs, oks = salt[0:8], salt[8:16], salt[16:24], salt[24:32]
    u = hashlib.sha256(up + uvs).digest() + uvs + uks
    ue = aes.cbc_encrypt(hashlib.sha256(up + uks).digest(), bytes(16), fkey)
    o = hashlib.sha256(op + ovs + u).digest() + ovs + oks
    oe = aes.cbc_encrypt(hashlib.sha256(op + oks + u).digest(), bytes(16), fkey)
    pblock = struct.pack("<I", perms & 0xFFFFFFFF) + b"\xff\xff\xff\xff" + b"Tadb" + salt[28:32]
    return fkey, u, o, (ue, oe, aes.ecb_encrypt(fkey, pblock))


# ----------------------------------------------------------------------------------------------------------------------
# page content
# ----------------------------------------------------------------------------------------------------------------------

def _lines(inls):
    """inline list -> list of text lines (["br"] splits); tokens of a line are joined by one space."""
    lines, cur = [], []
    for x in inls:
        k = x[0]
        if k == "t":
            cur.append(x[1])
        elif k == "br":
            lines.append(" ".join(cur))
            cur = []
        else:
            raise NotImplementedError("inline %r cannot be expressed by the PDF writer" % (k,))
    lines.append(" ".join(cur))
    return lines


def _encode_stream(data: bytes, filters) -> bytes:
    """the stream bytes that decode to `data` when `filters` are applied in list order (7.4: the first filter is undone first,
    so the encoders run in reverse order)"""
    import base64
    import zlib
    for f in reversed(list(filters)):
        if f == "FlateDecode":
            data = zlib.compress(data, 9)
        elif f == "ASCII85Decode":
            data = base64.a85encode(data) + b"~>"
        elif f == "ASCIIHexDecode":
            data = data.hex().upper().encode("ascii") + b">"
        elif f == "RunLengthDecode":
            out = bytearray()
            for i in range(0, len(data), 128):
                run = data[i:i + 128]
                out.append(len(run) - 1)            # 0..127: copy the next length + 1 bytes literally
                out += run
            out.append(128)                         # EOD
            data = bytes(out)
        else:
            raise NotImplementedError("stream filter %r cannot be written" % (f,))
    return data


def pdf(doc, images=None, opts=None) -> bytes:
    images = images or {}
    o = dict(opts or {})
    empty_page = o.pop("empty_page", "nostream")
    shared = bool(o.pop("shared_images", False))
    image_filters = o.pop("image_filters", None)
    if image_filters is not None and (isinstance(image_filters, (str, bytes)) or not all(isinstance(f, str) for f in image_filters)):
        raise ValueError("image_filters: list of filter names expected")
    enc = o.pop("encrypt", None)
    if o:
        raise ValueError("unknown pdf opts: %s" % sorted(o))
    if empty_page not in ("nostream", "emptystream"):
        raise ValueError("empty_page")
    if doc[0] != "doc":
        raise ValueError("not a doc")
    meta = doc[1] or {}
    for k in meta:
        if k not in ("title", "author", "subject", "keywords"):
            raise NotImplementedError("meta key %r cannot be expressed in the PDF /Info dictionary by this writer" % k)

    rev = n = perms = 0
    cf = cf_name = cfm = None
    if enc is not None:
        alg = enc.get("algorithm", "RC4-128")
        if alg == "RC4-40":
            rev, n = 2, 5
        elif alg == "RC4-128":
            rev, n = 3, 16
        elif alg in ("AES-128", "AES-256", "AES-256-R5"):
            raise NotImplementedError("AES encryption needs a crypto package that is not installed")
        else:
            raise ValueError("unknown encryption algorithm %r" % (alg,))
        perms = int(enc.get("permissions", -4))
        cf = enc.get("crypt_filter")
        if cf is not None:
            cf_name, cfm = str(cf.get("name", "StdCF")), cf.get("cfm", "AESV2")
            if cfm not in ("V2", "AESV2", "AESV3"):
                raise ValueError("unknown crypt filter method %r" % (cfm,))
            if cfm != "AESV3" and alg != "RC4-128":
                raise ValueError("a /V 4 crypt filter needs the 128-bit key derivation (algorithm RC4-128)")
            if not cf_name or any(c in cf_name for c in " /()<>[]{}%#") or not cf_name.isascii():
                raise NotImplementedError("crypt filter name %r needs name escapes" % (cf_name,))
            rev = 5 if cfm == "AESV3" else 4

    # objects: list of (dict_body: bytes, stream: bytes | None, strings: list[(placeholder, raw)] )
    objs = [None, None, None]            # 1 catalog, 2 pages, 3 font (filled below)
    STR = b"\x00S%d\x00"                 # placeholder for a string inside a dictionary body

    def add(body, stream=None, strings=None):
        objs.append((body, stream, strings or []))
        return len(objs)

    objs[2] = (b"<< /Type /Font /Subtype /Type1 /BaseFont /Helvetica /Encoding /WinAnsiEncoding >>", None, [])
    shared_objs = {}
    kids = []
    for u in doc[2]:
        if u[0] != "unit":
            raise NotImplementedError("unit kind %r cannot be expressed in PDF" % (u[0],))
        for k, v in (u[2] or {}).items():
            if v:
                raise NotImplementedError("unit extra %r cannot be expressed in PDF" % k)
        ops = []
        y = TOP
        page_imgs = []               # (name, key) in order of first use
        pending = []                 # image XObjects to be added after the page and content objects
        for b in u[1]:
            k = b[0]
            if k in ("p", "h"):
                if k == "h" and b[1] not in (1, 2, 3):
                    raise NotImplementedError("heading level %r" % (b[1],))
                for line in _lines(b[-1]):
                    if y < BOTTOM:
                        raise NotImplementedError("more lines than fit on one page")
                    if line:
                        ops.append(b"BT /F1 12 Tf %d %d Td %s Tj ET\n" % (LEFT, y, _page_text(line)))
                    y -= LEADING
            elif k == "img":
                key = b[1]
                if key not in images:
                    raise KeyError("image key %r not in images" % (key,))
                data, ext = images[key]
                if ext not in ("jpeg", "jpg"):
                    raise NotImplementedError("only JPEG images (DCTDecode) can be expressed, not %r" % (ext,))
                w, h, comps = jpeg_info(data)
                if comps not in (1, 3):
                    raise NotImplementedError("JPEG with %d components" % comps)
                scale = min(1.0, MAX_IMG_W / w, MAX_IMG_H / h)
                dw, dh = w * scale, h * scale
                bottom = y + 10 - dh
                if bottom < BOTTOM - 10:
                    raise NotImplementedError("image does not fit on the page")
                name = None
                if shared:
                    for nm, kk in page_imgs:
                        if kk == key:
                            name = nm
                if name is None:
                    name = "Im%d" % (len(page_imgs) + 1)
                    page_imgs.append((name, key))
                    pending.append((name, key, data, w, h, comps))
                ops.append(("q %s 0 0 %s %d %s cm /%s Do Q\n" % (_num(dw), _num(dh), LEFT, _num(bottom), name)).encode("ascii"))
                y = int(bottom) - LEADING
            else:
                raise NotImplementedError("block %r cannot be expressed by the PDF writer" % (k,))
        page_no = len(objs) + 1
        has_stream = bool(ops) or empty_page == "emptystream"
        next_no = page_no + 1 + (1 if has_stream else 0)
        xobj = []
        img_objs = []
        for name, key, data, w, h, comps in pending:
            if shared and key in shared_objs:
                xobj.append((name, shared_objs[key]))
                continue
            num = next_no
            next_no += 1
            if shared:
                shared_objs[key] = num
            xobj.append((name, num))
            cs = b"/DeviceGray" if comps == 1 else b"/DeviceRGB"
            filt = b"/DCTDecode"
            if image_filters is not None:
                data = _encode_stream(data, image_filters)
                filt = b"[" + b" ".join(b"/" + f.encode("ascii") for f in list(image_filters) + ["DCTDecode"]) + b"]"
            img_objs.append((b"<< /Type /XObject /Subtype /Image /Width %d /Height %d /ColorSpace %s /BitsPerComponent 8"
                             b" /Filter %s /Length %d >>" % (w, h, cs, filt, len(data)), data))
        res = b"/Font << /F1 3 0 R >>"
        if xobj:
            res += b" /XObject << " + b" ".join(b"/%s %d 0 R" % (nm.encode("ascii"), num) for nm, num in xobj) + b" >>"
        body = b"<< /Type /Page /Parent 2 0 R /MediaBox [0 0 %d %d] /Resources << %s >>" % (PAGE_W, PAGE_H, res)
        if has_stream:
            body += b" /Contents %d 0 R" % (page_no + 1)
        body += b" >>"
        kids.append(add(body))
        if has_stream:
            content = b"".join(ops)
            add(b"<< /Length %d >>" % len(content), content)
        for ibody, idata in img_objs:
            add(ibody, idata)

    objs[0] = (b"<< /Type /Catalog /Pages 2 0 R >>", None, [])
    objs[1] = (b"<< /Type /Pages /Kids [" + b" ".join(b"%d 0 R" % k for k in kids) + b"] /Count %d >>" % len(kids), None, [])

    info_no = 0
    if meta:
        parts, strings = [], []
        for key, name in _INFO_KEYS:
            if key in meta:
                ph = STR % len(strings)
                strings.append((ph, _text_string(meta[key])))
                parts.append(b"/%s %s" % (name.encode("ascii"), ph))
        info_no = add(b"<< " + b" ".join(parts) + b" >>", None, strings)

    # file identifier: md5 over the unencrypted object bodies (deterministic)
    hid = hashlib.md5()
    for body, stream, strings in objs:
        hid.update(body)
        for ph, raw in strings:
            hid.update(raw)
        if stream is not None:
            hid.update(stream)
    id0 = hid.digest()

    key = None
    enc_no = 0
    if enc is not None:
        user, owner = enc.get("user", ""), enc.get("owner", "")
        if rev == 5:
            key, uv, ov, v5 = _v5_values(user, owner, perms, id0)
        else:
            ov = _owner_value(owner, user, rev, n)
            key = _file_key(user, ov, perms, id0, rev, n)
            uv = _user_value(key, id0, rev)
        enc_no = len(objs) + 1            # the encryption dictionary itself is never encrypted

    def crypt(i, okey, raw):
        if cfm in ("AESV2", "AESV3"):
            return _aes_cbc_pkcs7(okey, hashlib.md5(b"verif-iv" + id0 + struct.pack("<II", i, len(raw)) + raw[:16]).digest(), raw)
        return _rc4(okey, raw)

    out = bytearray(b"%PDF-1.4\n%\xe2\xe3\xcf\xd3\n")
    offsets = []
    for i, (body, stream, strings) in enumerate(objs, 1):
        okey = None
        if key is not None:
            okey = key if cfm == "AESV3" else _object_key(key, i, 0, cfm == "AESV2")
        for ph, raw in strings:
            if okey is not None:
                body = body.replace(ph, b"<" + crypt(i, okey, raw).hex().encode("ascii") + b">")
            elif raw[:2] == b"\xfe\xff":
                body = body.replace(ph, b"<" + raw.hex().encode("ascii") + b">")
            else:
                body = body.replace(ph, _lit(raw))
        if stream is not None and okey is not None:
            stream = crypt(i, okey, stream)
            if cf is not None:
                m = re.search(rb"/Length \d+ >>$", body)      # block ciphers change the stream length
                body = body[:m.start()] + b"/Length %d >>" % len(stream)
        offsets.append(len(out))
        out += b"%d 0 obj\n" % i + body
        if stream is not None:
            out += b"\nstream\n" + stream + b"\nendstream"
        out += b"\nendobj\n"
    if enc is not None:
        offsets.append(len(out))
        if rev == 2:
            head = b"/Filter /Standard /V 1 /R 2"
        elif cf is None:
            head = b"/Filter /Standard /V 2 /R 3 /Length 128"
        else:
            nm = cf_name.encode("ascii")
            head = (b"/Filter /Standard /V %d /R %d /Length %d /CF << /%s << /CFM /%s /AuthEvent /DocOpen /Length %d >> >> /StmF /%s /StrF /%s"
                    % (((5, 5, 256) if rev == 5 else (4, 4, 128)) + (nm, cfm.encode("ascii"), 32 if rev == 5 else 16, nm, nm)))
            if rev == 5:
                head += b" /UE <%s> /OE <%s> /Perms <%s>" % tuple(x.hex().encode("ascii") for x in v5)
        out += (b"%d 0 obj\n<< %s /O <%s> /U <%s> /P %d >>\nendobj\n"
                % (enc_no, head, ov.hex().encode("ascii"), uv.hex().encode("ascii"), perms))
    total = len(offsets) + 1
    xref = len(out)
    out += b"xref\n0 %d\n0000000000 65535 f \n" % total
    for off in offsets:
        out += b"%010d 00000 n \n" % off
    hx = id0.hex().encode("ascii")
    trailer = b"/Size %d /Root 1 0 R" % total
    if info_no:
        trailer += b" /Info %d 0 R" % info_no
    trailer += b" /ID [<%s> <%s>]" % (hx, hx)
    if enc_no:
        trailer += b" /Encrypt %d 0 R" % enc_no
    out += b"trailer\n<< " + trailer + b" >>\nstartxref\n%d\n%%%%EOF\n" % xref
    return bytes(out)
