"""Reference writer for RFC 5322 / MIME messages (.eml) and mbox mailboxes, with ground truth.

A message is described by a plain-JSON dict `spec`; every key is optional and the missing keys are taken from BASELINE.

    subject        [style, text]    style in SUBJECT_STYLES; text is the decoded subject
    from           [name|None, addr]                name None -> bare addr-spec, "" -> "<addr>", str -> display name
    to cc bcc reply_to   [[name|None, addr], ...]   [] -> header absent (To with address_style group: empty group)
    address_style  "plain" | "group"                group: To / Cc are written as  Zgrpnm: a@x, b@y;
    date           [style, "YYYY-MM-DDTHH:MM:SS"]   style in DATE_STYLES (offset / obsolete forms); local wall time
    message_id     "<id@host>" | None               in_reply_to likewise
    structure      one of STRUCTURES
    charset        one of CHARSETS (label of every text part; "unknown-8bit" carries UTF-8 bytes) or of EXTRA_CHARSETS
    cte            "7bit" | "8bit" | "quoted-printable" | "base64"      (of every text part)
    body_plain, body_html    text with "\n" newlines
    attachments    [{"filename": str|None, "filename_style": "plain"|"rfc2231"|"rfc2047", "ctype": "type/sub",
                     "data_hex": "..", "cte": "base64"|"quoted-printable", "charset": optional label}, ...]
                   [] -> the structure's default attachments (DEFAULT_ATTACHMENTS[:n])
    inner          spec of the embedded message of structure "rfc822-attachment" (None -> INNER_DEFAULT)
    line_end       "\r\n" | "\n"

Everything is serialised by hand from RFC 5322 / 2045-2047 / 2183 / 2231 (so that the exact wire form is under control:
encoded-word kind, folding points, parameter syntax); the standard library parser (email.policy.default) is the
independent reader: `validate(spec)` parses the bytes back and compares with `truth(spec)`, which is computed from the
spec only.  Forms that cannot be expressed raise NotImplementedError (e.g. non-ASCII text with charset us-ascii,
8-bit data with cte 7bit, a non-default body_html with a structure that has no html part).

API: BASELINE, eml(spec), truth(spec), validate(spec), parse(data), diff(expected, got, body_mode), norm_text, expressible(spec),
full_spec(spec), mbox(specs, opts), mbox_expected(specs, opts), mbox_truth(data), DOMAINS, deviations(d), deviation_key(spec), CAPS.

Structures: plain | html | alternative[plain, html] | mixed-alt-att = mixed[alternative[plain, html], att..] |
mixed-plain-att-att = mixed[plain, att..] | related-html-img = related[html, inline image/png with Content-ID] |
mixed-mixed = mixed[mixed[plain, att0], att1..] | rfc822-attachment = mixed[plain, message/rfc822, att..].

Dropped form: a non-ASCII display name that needs more than one encoded-word (the reference reader of CPython 3.12 keeps the
white space between adjacent encoded-words of a phrase, against RFC 2047 6.2) raises NotImplementedError.

Notes on forms that are de facto rather than de jure:
  * filename_style "rfc2047" (encoded-word inside a quoted parameter value) is forbidden by RFC 2047 section 5 but is
    what Outlook / Gmail emit; the stdlib parser decodes it (with a defect), so it is kept and flagged here.
  * base64 text bodies carry the canonical CRLF form of the text (RFC 2045/2046); compare bodies modulo CRLF -> LF.
  * mboxo ">From " escaping is lossy; `mbox_expected` reports both the original and the escaped body.
"""
from __future__ import annotations

import base64
import copy
import datetime as _dt
import email
import email.policy
import itertools
import mailbox
import os
import re
import struct
import tempfile
import zlib

from .tokens import Tokens

# ----------------------------------------------------------------------------------------------------------------------
# vocabulary

SUBJECT_STYLES = ("ascii", "utf8-b", "utf8-q", "latin1-q", "long-folded", "contains-eqmark")
DATE_STYLES = ("+0000", "-0500", "+0530", "2digit", "gmt", "no-seconds", "comment")
STRUCTURES = ("plain", "html", "alternative", "mixed-alt-att", "mixed-plain-att-att", "related-html-img", "mixed-mixed",
              "rfc822-attachment")
CHARSETS = ("us-ascii", "utf-8", "iso-8859-1", "windows-1252", "unknown-8bit")
CTES = ("7bit", "8bit", "quoted-printable", "base64")
CAPS = set(["subject:" + s for s in SUBJECT_STYLES] + ["date:" + s for s in DATE_STYLES] + ["structure:" + s for s in STRUCTURES] +
           ["charset:" + s for s in CHARSETS] + ["cte:" + s for s in CTES] +
           ["address_style:plain", "address_style:group", "name:none", "name:empty", "name:atoms", "name:quoted", "name:rfc2047",
            "filename:none", "filename:plain", "filename:rfc2231", "filename:rfc2047", "att-cte:base64", "att-cte:quoted-printable",
            "line_end:crlf", "line_end:lf", "message_id", "in_reply_to", "cc", "bcc", "reply_to", "mbox"])

_CODEC = {"us-ascii": "ascii", "utf-8": "utf-8", "iso-8859-1": "latin-1", "windows-1252": "cp1252", "unknown-8bit": "utf-8"}
# Further charset labels accepted for spec["charset"] (and for the subject styles "cs-b:<label>" / "cs-q:<label>"): label -> Python
# codec.  Additive: they are not part of CHARSETS / DOMAINS / deviations().  Groups: other single-byte charsets; multibyte 8-bit
# charsets; 7-bit stateful charsets (their bytes are ASCII, hence also valid UTF-8); wide charsets (code units are not octets: only
# base64 / quoted-printable can carry them, RFC 2045 2.7-2.8; no encoded-words); other spellings of the labels in CHARSETS.
EXTRA_CHARSETS = {
    "iso-8859-2": "iso8859_2", "iso-8859-5": "iso8859_5", "iso-8859-7": "iso8859_7", "iso-8859-8": "iso8859_8",
    "iso-8859-9": "iso8859_9", "iso-8859-15": "iso8859_15", "windows-1250": "cp1250", "windows-1251": "cp1251",
    "windows-1253": "cp1253", "windows-1255": "cp1255", "windows-1256": "cp1256", "koi8-r": "koi8_r", "koi8-u": "koi8_u",
    "macintosh": "mac_roman", "ibm850": "cp850", "tis-620": "tis_620",
    "shift_jis": "shift_jis", "euc-jp": "euc_jp", "gb2312": "gb2312", "gbk": "gbk", "gb18030": "gb18030", "big5": "big5",
    "euc-kr": "euc_kr", "ks_c_5601-1987": "euc_kr",
    "iso-2022-jp": "iso2022_jp", "iso-2022-kr": "iso2022_kr", "hz-gb-2312": "hz", "utf-7": "utf-7",
    "utf-16": "utf-16", "utf-16le": "utf-16-le", "utf-16be": "utf-16-be", "utf-32": "utf-32", "utf-32be": "utf-32-be",
    "UTF-8": "utf-8", "utf8": "utf-8", "ISO-8859-1": "latin-1", "latin1": "latin-1", "cp1252": "cp1252", "US-ASCII": "ascii",
    "Shift_JIS": "shift_jis", "ISO-2022-JP": "iso2022_jp",
}
WIDE_CHARSETS = ("utf-16", "utf-16le", "utf-16be", "utf-32", "utf-32be")
SEVENBIT_CHARSETS = ("iso-2022-jp", "iso-2022-kr", "hz-gb-2312", "utf-7", "ISO-2022-JP")


def charset_codec(label: str) -> str:
    """Python codec of a charset label of CHARSETS or EXTRA_CHARSETS."""
    if label in _CODEC:
        return _CODEC[label]
    if label in EXTRA_CHARSETS:
        return EXTRA_CHARSETS[label]
    _nie("charset %r" % (label,))


_DATE_OFFSET = {"+0000": 0, "-0500": -300, "+0530": 330, "2digit": 0, "gmt": 0, "no-seconds": 0, "comment": 60}
_DOW = ("Mon", "Tue", "Wed", "Thu", "Fri", "Sat", "Sun")
_MON = ("Jan", "Feb", "Mar", "Apr", "May", "Jun", "Jul", "Aug", "Sep", "Oct", "Nov", "Dec")

HAS_PLAIN = {"plain", "alternative", "mixed-alt-att", "mixed-plain-att-att", "mixed-mixed", "rfc822-attachment"}
HAS_HTML = {"html", "alternative", "mixed-alt-att", "related-html-img"}
ATT_SLOTS = {"mixed-alt-att": 1, "mixed-plain-att-att": 2, "mixed-mixed": 2, "rfc822-attachment": 0}   # default attachment count

_ATEXT = set("abcdefghijklmnopqrstuvwxyzABCDEFGHIJKLMNOPQRSTUVWXYZ0123456789!#$%&'*+-/=?^_`{|}~")
_QSAFE = set("abcdefghijklmnopqrstuvwxyzABCDEFGHIJKLMNOPQRSTUVWXYZ0123456789!*+-/")
_ATTRCHAR = set("abcdefghijklmnopqrstuvwxyzABCDEFGHIJKLMNOPQRSTUVWXYZ0123456789!#$&+-.^_`|~")
_ECRE = re.compile(r"=\?[^?\s]+\?[bBqQ]\?[^?\s]*\?=")          # anything a decoder could take for an encoded-word
_ADDR = re.compile(r"^[A-Za-z0-9!#$%&'*+/=?^_`{|}~-]+(\.[A-Za-z0-9!#$%&'*+/=?^_`{|}~-]+)*@[A-Za-z0-9-]+(\.[A-Za-z0-9-]+)+$")
_MSGID = re.compile(r"^<[A-Za-z0-9!#$%&'*+/=?^_`{|}~.-]+@[A-Za-z0-9.-]+>$")

GROUP_TO = "Zgrpnm"
GROUP_CC = "Zgrpcc"
INLINE_CID = "img1@verif.example"


def _png1x1() -> bytes:
    def chunk(kind, data):
        return struct.pack(">I", len(data)) + kind + data + struct.pack(">I", zlib.crc32(kind + data) & 0xFFFFFFFF)
    return (b"\x89PNG\r\n\x1a\n" + chunk(b"IHDR", struct.pack(">IIBBBBB", 1, 1, 8, 2, 0, 0, 0)) +
            chunk(b"IDAT", zlib.compress(b"\x00\xff\x00\x00", 9)) + chunk(b"IEND", b""))


INLINE_PNG = _png1x1()

_T = Tokens()
_n = _T.new

DEFAULT_ATTACHMENTS = [
    {"filename": "note.txt", "filename_style": "plain", "ctype": "text/plain", "cte": "base64",
     "data_hex": (_n("B") + " attached " + _n("B") + "\n").encode("ascii").hex()},
    {"filename": "blob.bin", "filename_style": "plain", "ctype": "application/octet-stream", "cte": "base64",
     "data_hex": bytes(range(256)).hex()},
]

INNER_DEFAULT = {
    "subject": ["ascii", _n("X") + " inner " + _n("X")], "from": [_n("X"), "inner@verif.example"],
    "to": [[None, "innerto@verif.example"]], "message_id": "<inner.1@verif.example>", "structure": "plain",
    "charset": "us-ascii", "cte": "7bit", "body_plain": _n("X") + " inner body " + _n("X") + "\n",
}

_HTML0 = ("<html><body><p>" + _n("B") + " café <b>" + _n("B") + "</b></p><img src=\"cid:" + INLINE_CID + "\" alt=\"" + _n("Z") +
          "\"></body></html>\n")

BASELINE = {
    "subject": ["ascii", _n("H") + " " + _n("H")],
    "from": [_n("N") + " " + _n("N"), "sender@verif.example"],
    "to": [[_n("N") + " " + _n("N"), "rcpt1@verif.example"]],
    "cc": [], "bcc": [], "reply_to": [],
    "address_style": "plain",
    "date": ["+0000", "2024-03-05T14:07:09"],
    "message_id": "<base.1@verif.example>",
    "in_reply_to": None,
    "structure": "plain",
    "charset": "utf-8",
    "cte": "quoted-printable",
    "body_plain": _n("B") + " café " + _n("B") + "\n",
    "body_html": _HTML0,
    "attachments": [],
    "alt_extra": [],
    "inner": None,
    "line_end": "\r\n",
}


def _nie(msg):
    raise NotImplementedError("mail writer: " + msg)


# ----------------------------------------------------------------------------------------------------------------------
# spec normalisation

def full_spec(spec: dict | None) -> dict:
    """BASELINE overlaid with `spec`; rejects unknown keys and non-default values of keys the structure does not render."""
    spec = spec or {}
    for k in spec:
        if k not in BASELINE:
            raise ValueError("mail spec: unknown key %r" % (k,))
    full = copy.deepcopy(BASELINE)
    for k, v in spec.items():
        full[k] = copy.deepcopy(v)
    st = full["structure"]
    if st not in STRUCTURES:
        _nie("structure %r" % (st,))
    if st not in HAS_PLAIN and full["body_plain"] != BASELINE["body_plain"]:
        _nie("body_plain is not rendered by structure %s" % st)
    if st not in HAS_HTML and full["body_html"] != BASELINE["body_html"]:
        _nie("body_html is not rendered by structure %s" % st)
    if st not in ATT_SLOTS and full["attachments"]:
        _nie("attachments are not rendered by structure %s" % st)
    if st not in ("alternative", "mixed-alt-att") and full["alt_extra"]:
        _nie("alt_extra is not rendered by structure %s" % st)
    if st != "rfc822-attachment" and full["inner"] is not None:
        _nie("inner is not rendered by structure %s" % st)
    if full["line_end"] not in ("\n", "\r\n"):
        _nie("line_end %r" % (full["line_end"],))
    if full["charset"] not in CHARSETS and full["charset"] not in EXTRA_CHARSETS:
        _nie("charset %r" % (full["charset"],))
    if full["cte"] not in CTES:
        _nie("cte %r" % (full["cte"],))
    if full["address_style"] not in ("plain", "group"):
        _nie("address_style %r" % (full["address_style"],))
    return full


def _attachments(full: dict) -> list:
    st = full["structure"]
    if st not in ATT_SLOTS:
        return []
    atts = full["attachments"] or copy.deepcopy(DEFAULT_ATTACHMENTS[:ATT_SLOTS[st]])
    return _norm_atts(atts)


def _norm_atts(atts: list) -> list:
    """Attachment atoms with their defaults.  Optional keys: "disposition" ("attachment" (default) | "inline" in any letter case |
    None = no Content-Disposition field) and "name_param" (a name="..." parameter on Content-Type; default None)."""
    out = []
    for a in atts:
        for k in a:
            if k not in ("filename", "filename_style", "ctype", "data_hex", "cte", "charset", "disposition", "name_param"):
                raise ValueError("mail spec: unknown attachment key %r" % (k,))
        b = {"filename": a.get("filename"), "filename_style": a.get("filename_style", "plain"),
             "ctype": a.get("ctype", "application/octet-stream"), "data_hex": a.get("data_hex", ""),
             "cte": a.get("cte", "base64"), "charset": a.get("charset"),
             "disposition": a.get("disposition", "attachment"), "name_param": a.get("name_param")}
        out.append(b)
    return out


def _alt_extra(full: dict) -> list:
    """Further representations inside the multipart/alternative (after text/plain and text/html), e.g. a text/calendar object."""
    if full["structure"] not in ("alternative", "mixed-alt-att"):
        return []
    return _norm_atts(full["alt_extra"] or [])


def _att_name(a: dict):
    """The file name a reader sees: the filename parameter of Content-Disposition, else the name parameter of Content-Type."""
    return a["filename"] if a["filename"] is not None else a.get("name_param")


# ----------------------------------------------------------------------------------------------------------------------
# header encoders

def _no_ctl(s: str, what: str):
    for c in s:
        if ord(c) < 32 or ord(c) == 127:
            _nie("control character in %s" % what)


def _encoded_words(text: str, label: str, codec: str, enc: str, first_max: int, maxlen: int = 75) -> list:
    """RFC 2047 encoded-words covering the whole text; every word holds whole characters and is <= maxlen long."""
    if not text:
        _nie("empty text as encoded-word")
    pre = "=?%s?%s?" % (label, enc)
    words = []
    limit = first_max

    def length(nbytes, qlen):
        return len(pre) + 2 + (4 * ((nbytes + 2) // 3) if enc == "B" else qlen)

    cur_b, cur_q = b"", ""
    for ch in text:
        try:
            b = ch.encode(codec)
        except UnicodeEncodeError:
            _nie("character %r not encodable in %s" % (ch, label))
        q = "".join(chr(x) if chr(x) in _QSAFE else ("_" if x == 32 else "=%02X" % x) for x in b)
        if cur_b and length(len(cur_b) + len(b), len(cur_q) + len(q)) > limit:
            words.append(pre + (base64.b64encode(cur_b).decode("ascii") if enc == "B" else cur_q) + "?=")
            cur_b, cur_q = b"", ""
            limit = maxlen
        cur_b += b
        cur_q += q
    words.append(pre + (base64.b64encode(cur_b).decode("ascii") if enc == "B" else cur_q) + "?=")
    for w in words:
        if len(w) > 75:
            _nie("encoded-word longer than 75")
    return words


def _fold_text(prefix: str, text: str, limit: int) -> list:
    """Fold an unstructured ASCII value: a line break is inserted only in front of the first WSP of a WSP run (RFC 5322 2.2.3),
    so unfolding (deleting the line breaks) gives the text back exactly."""
    cands = [i for i in range(1, len(text)) if text[i] in " \t" and text[i - 1] not in " \t"]
    segs, start, col, prev = [], 0, len(prefix), None
    for c in cands + [len(text)]:
        if prev is not None and prev > start and col + (c - start) > limit:
            segs.append(text[start:prev])
            start, col = prev, 0
        prev = c
    segs.append(text[start:])
    return [prefix + segs[0]] + segs[1:]


def _subject_lines(style: str, text: str) -> list:
    generic = None
    if style not in SUBJECT_STYLES:
        # additive styles "cs-b:<label>" / "cs-q:<label>": encoded-words in any octet charset of CHARSETS / EXTRA_CHARSETS
        m = re.match(r"^cs-([bq]):(.+)$", style)
        if not m or m.group(2) in WIDE_CHARSETS or m.group(2) == "unknown-8bit":
            _nie("subject style %r" % (style,))
        generic = (m.group(2), charset_codec(m.group(2)), m.group(1).upper())
    _no_ctl(text, "subject")
    if text != text.strip():
        _nie("subject with leading/trailing white space")
    if style in ("ascii", "long-folded", "contains-eqmark"):
        if not text.isascii():
            _nie("non-ASCII subject in style %s" % style)
        if _ECRE.search(text):
            _nie("raw subject containing an encoded-word look-alike")
        if style == "contains-eqmark" and "=?" not in text:
            _nie("contains-eqmark subject without '=?'")
        if not text:
            return ["Subject:"]
        lines = _fold_text("Subject: ", text, 40 if style == "long-folded" else 78)
        if style == "long-folded" and len(lines) < 3:
            _nie("long-folded subject that does not fold at least twice")
        return lines
    label, codec, enc = generic or {"utf8-b": ("utf-8", "utf-8", "B"), "utf8-q": ("utf-8", "utf-8", "Q"),
                                    "latin1-q": ("iso-8859-1", "latin-1", "Q")}[style]
    words = _encoded_words(text, label, codec, enc, first_max=76 - len("Subject: "))
    return ["Subject: " + words[0]] + [" " + w for w in words[1:]]


def _phrase_tokens(name: str) -> list:
    _no_ctl(name, "display name")
    if name.isascii():
        if _ECRE.search(name):
            _nie("display name containing an encoded-word look-alike")
        words = name.split(" ")
        if all(w and all(c in _ATEXT for c in w) for w in words):
            return words                                             # phrase = 1*atom
        if name != name.strip():
            _nie("display name with leading/trailing white space")
        return ['"' + name.replace("\\", "\\\\").replace('"', '\\"') + '"']     # quoted-string
    words = _encoded_words(name, "utf-8", "utf-8", "B", first_max=64)     # "Reply-To: " + word stays within 76 columns
    if len(words) > 1:
        # RFC 2047 6.2 says the white space between adjacent encoded-words is dropped, but the reference reader
        # (email.policy.default of CPython 3.12) keeps a space between them inside a display name: form dropped
        _nie("non-ASCII display name that needs more than one encoded-word")
    return words


def _mailbox_tokens(name, addr: str) -> list:
    if not isinstance(addr, str) or not _ADDR.match(addr):
        _nie("address %r (only dot-atom local parts and ASCII domains)" % (addr,))
    if name is None:
        return [addr]
    if name == "":
        return ["<" + addr + ">"]
    return _phrase_tokens(name) + ["<" + addr + ">"]


def _fold_tokens(prefix: str, tokens: list, limit: int = 78) -> list:
    lines, cur = [], prefix
    for i, tok in enumerate(tokens):
        if i and len(cur) + 1 + len(tok) > limit:
            lines.append(cur)
            cur = " " + tok
        else:
            cur += " " + tok
    lines.append(cur)
    return lines


def _address_header(hname: str, boxes: list, group: str | None) -> list:
    """Lines of one address header; `group` is a group display name or None."""
    if not boxes:
        if group is not None and hname == "To":
            return ["To: undisclosed-recipients:;"]
        return []
    toks = [group + ":"] if group is not None else []
    for i, (name, addr) in enumerate(boxes):
        t = _mailbox_tokens(name, addr)
        last = i == len(boxes) - 1
        t[-1] += (";" if group is not None else "") if last else ","
        toks += t
    return _fold_tokens(hname + ":", toks)


def _date_value(style: str, wall: str) -> str:
    if style not in DATE_STYLES:
        _nie("date style %r" % (style,))
    d = _dt.datetime.strptime(wall, "%Y-%m-%dT%H:%M:%S")
    dow, mon = _DOW[d.weekday()], _MON[d.month - 1]
    hms = "%02d:%02d:%02d" % (d.hour, d.minute, d.second)
    if style == "2digit":
        if not 2000 <= d.year <= 2049:
            _nie("2-digit year outside 2000..2049")          # RFC 5322 4.3: 00..49 -> 20xx
        return "%s, %d %s %02d %s +0000" % (dow, d.day, mon, d.year % 100, hms)
    if not 1900 <= d.year <= 9999:
        _nie("year")
    if style == "gmt":
        return "%s, %02d %s %04d %s GMT" % (dow, d.day, mon, d.year, hms)
    if style == "no-seconds":
        if d.second:
            _nie("no-seconds date with non-zero seconds")
        return "%s, %02d %s %04d %02d:%02d +0000" % (dow, d.day, mon, d.year, d.hour, d.minute)
    if style == "comment":
        return "%s, %02d %s %04d %s +0100 (CET)" % (dow, d.day, mon, d.year, hms)
    return "%s, %02d %s %04d %s %s" % (dow, d.day, mon, d.year, hms, style)


def _date_truth(style: str, wall: str) -> _dt.datetime:
    d = _dt.datetime.strptime(wall, "%Y-%m-%dT%H:%M:%S")
    return d.replace(tzinfo=_dt.timezone(_dt.timedelta(minutes=_DATE_OFFSET[style])))


def _msgid(v: str, what: str) -> str:
    if not isinstance(v, str) or not _MSGID.match(v):
        _nie("%s %r" % (what, v))
    return v


def _disposition_lines(disp: str, filename, style: str) -> list:
    head = "Content-Disposition: " + disp
    if filename is None:
        return [head]
    _no_ctl(filename, "filename")
    if not filename:
        _nie("empty filename")
    if style == "plain":
        if not filename.isascii():
            _nie("non-ASCII filename in style plain")
        if _ECRE.search(filename):
            _nie("plain filename containing an encoded-word look-alike")
        params = ['filename="' + filename.replace("\\", "\\\\").replace('"', '\\"') + '"']
    elif style == "rfc2047":
        words = _encoded_words(filename, "utf-8", "utf-8", "B", first_max=62)     # ' filename="' + word + '"' within 76 columns
        if len(words) != 1:
            _nie("rfc2047 filename that needs more than one encoded-word")
        params = ['filename="' + words[0] + '"']
    elif style == "rfc2231":
        units = [chr(x) if chr(x) in _ATTRCHAR else "%%%02X" % x for x in filename.encode("utf-8")]
        if sum(map(len, units)) <= 60:
            params = ["filename*=utf-8''" + "".join(units)]
        else:
            chunks, cur = [], ""
            for u in units:
                if len(cur) + len(u) > 50:
                    chunks.append(cur)
                    cur = ""
                cur += u
            chunks.append(cur)
            params = ["filename*%d*=%s%s" % (i, "utf-8''" if i == 0 else "", c) for i, c in enumerate(chunks)]
    else:
        _nie("filename_style %r" % (style,))
    one = head + "; " + "; ".join(params)
    if len(one) <= 78:
        return [one]
    return [head + ";"] + [" " + p + (";" if i < len(params) - 1 else "") for i, p in enumerate(params)]


# ----------------------------------------------------------------------------------------------------------------------
# body encoders (all produce ASCII/8-bit bytes with "\n" line ends; eml() converts to the requested line end)

def _qp_line(data: bytes, protect_first: bool = False) -> list:
    """Quoted-printable encoding of one logical line (RFC 2045 6.7); returns the physical lines (soft breaks included)."""
    toks = []
    for i, x in enumerate(data):
        if x == 61 or x > 126 or (x < 32 and x != 9):
            toks.append("=%02X" % x)
        elif x in (9, 32) and i == len(data) - 1:
            toks.append("=%02X" % x)                                    # rule 3: no trailing white space
        else:
            toks.append(chr(x))
    if protect_first and toks[:5] == ["F", "r", "o", "m", " "]:
        toks[0] = "=46"
    lines, cur = [], ""
    for i, t in enumerate(toks):
        if len(cur) + len(t) > 75:
            lines.append(cur + "=")
            cur = ""
            if toks[i:i + 5] == ["F", "r", "o", "m", " "]:
                t = "=46"           # RFC 2049: a soft-wrapped physical line must not start with "From " (mbox writers would mangle it)
        cur += t
    lines.append(cur)
    return lines


def _qp_text(text: str, codec: str) -> bytes:
    if text == "":
        return b""
    logical = text.split("\n")
    trailing = logical[-1] == ""
    if trailing:
        logical = logical[:-1]
    out = []
    for ln in logical:
        out.extend(_qp_line(ln.encode(codec)))
    return ("\n".join(out) + ("\n" if trailing else "")).encode("ascii")


def _qp_binary(data: bytes) -> bytes:
    """Binary-safe quoted-printable: CR and LF are always written as =0D / =0A (RFC 2045 6.7 rule 4), the physical lines are
    joined by soft line breaks only and there is no final line break (it would decode to a line break)."""
    return "\n".join(_qp_line(data, protect_first=True)).encode("ascii")


def _b64(data: bytes) -> bytes:
    if not data:
        return b""
    s = base64.b64encode(data).decode("ascii")
    return ("\n".join(s[i:i + 76] for i in range(0, len(s), 76)) + "\n").encode("ascii")


def _text_payload(text: str, charset: str, cte: str) -> bytes:
    if "\r" in text:
        _nie("CR in body text")
    codec = charset_codec(charset)
    try:
        raw = text.encode(codec)
    except UnicodeEncodeError:
        _nie("body text not encodable in %s" % charset)
    if charset in WIDE_CHARSETS:
        if cte in ("7bit", "8bit"):
            _nie("charset %s with cte %s (code units are not octets)" % (charset, cte))
        if cte == "quoted-printable":
            return _qp_binary(raw)                                              # line breaks are code units too: =0A=00 ...
    if cte in ("7bit", "8bit"):
        if b"\0" in raw:
            _nie("NUL in %s body" % cte)
        if cte == "7bit" and any(x > 127 for x in raw):
            _nie("8-bit data with cte 7bit")
        if any(len(ln) > 998 for ln in raw.split(b"\n")):
            _nie("line longer than 998 octets with cte %s" % cte)
        return raw
    if cte == "quoted-printable":
        return _qp_text(text, codec)
    return _b64(text.replace("\n", "\r\n").encode(codec))                   # canonical CRLF form inside base64


def _leaf_text(subtype: str, text: str, charset: str, cte: str) -> bytes:
    head = ["Content-Type: text/%s; charset=%s" % (subtype, charset),
            "Content-Transfer-Encoding: " + cte]
    return "\n".join(head).encode("ascii") + b"\n\n" + _text_payload(text, charset, cte)


def _att_bytes(a: dict) -> bytes:
    try:
        return bytes.fromhex(a["data_hex"])
    except ValueError:
        raise ValueError("mail spec: bad data_hex")


def _ctype_ok(ctype: str) -> str:
    if not re.match(r"^[A-Za-z0-9][A-Za-z0-9!#$&^_.+-]*/[A-Za-z0-9][A-Za-z0-9!#$&^_.+-]*$", ctype):
        _nie("content type %r" % (ctype,))
    if ctype.lower().startswith(("multipart/", "message/")):
        _nie("composite attachment type %r" % (ctype,))
    return ctype


def _leaf_att(a: dict, disp: str = "attachment", cid: str | None = None) -> bytes:
    ct = "Content-Type: " + _ctype_ok(a["ctype"])
    if a.get("charset"):
        if not re.match(r"^[A-Za-z0-9._-]+$", a["charset"]):
            _nie("attachment charset %r" % (a["charset"],))
        ct += "; charset=" + a["charset"]
    head = [ct]
    np = a.get("name_param")
    if np is not None:
        _no_ctl(np, "name parameter")
        if not np or not np.isascii() or _ECRE.search(np):
            _nie("name parameter %r (plain ASCII only)" % (np,))
        p = 'name="' + np.replace("\\", "\\\\").replace('"', '\\"') + '"'
        if len(ct) + 2 + len(p) <= 78:
            head = [ct + "; " + p]
        else:
            head = [ct + ";", " " + p]
    head.append("Content-Transfer-Encoding: " + a["cte"])
    if cid:
        head.append("Content-ID: <" + cid + ">")
    if "disposition" in a:
        disp = a["disposition"]
    if disp is not None and disp.lower() not in ("attachment", "inline"):
        _nie("disposition %r" % (disp,))
    if (disp is None or disp.lower() != "attachment") and a["filename"] is None and np is None and not cid \
            and a["ctype"].lower() in ("text/plain", "text/html"):
        _nie("an unnamed text/plain or text/html part without an attachment disposition is a body, not a file")
    if disp is None:
        if a["filename"] is not None:
            _nie("filename parameter without a Content-Disposition field")
    else:
        head += _disposition_lines(disp, a["filename"], a["filename_style"])
    data = _att_bytes(a)
    if a["cte"] == "base64":
        body = _b64(data)
    elif a["cte"] == "quoted-printable":
        body = _qp_binary(data)
    else:
        _nie("attachment cte %r" % (a["cte"],))
    return "\n".join(head).encode("ascii") + b"\n\n" + body


class _Ctx:
    def __init__(self):
        self.n = 0

    def boundary(self) -> str:
        self.n += 1
        return "=_verif_part_%d_=" % self.n


def _multipart(ctx: _Ctx, subtype: str, parts: list, params: str = "", preamble: bool = False) -> bytes:
    bnd = ctx.boundary()
    delim = ("--" + bnd).encode("ascii")
    for p in parts:
        if delim in p:
            _nie("boundary string occurs in content")
    head = 'Content-Type: multipart/%s;%s boundary="%s"' % (subtype, params, bnd)
    out = [head.encode("ascii"), b"\n\n"]
    if preamble:
        out.append(b"This is a multi-part message in MIME format.\n")
    for p in parts:
        out += [delim, b"\n", p, b"\n"]          # the line break in front of a delimiter belongs to the delimiter
    out += [delim, b"--"]
    return b"".join(out)


def _render(full: dict, ctx: _Ctx | None = None) -> bytes:
    """The message with "\n" line ends."""
    ctx = ctx or _Ctx()
    st, cs, cte = full["structure"], full["charset"], full["cte"]
    head = []
    frm = full["from"]
    head += _fold_tokens("From:", _mailbox_tokens(frm[0], frm[1]))
    grp = full["address_style"] == "group"
    head += _address_header("To", full["to"], GROUP_TO if grp else None)
    head += _address_header("Cc", full["cc"], GROUP_CC if grp else None)
    head += _address_header("Bcc", full["bcc"], None)
    head += _address_header("Reply-To", full["reply_to"], None)
    head += _subject_lines(full["subject"][0], full["subject"][1])
    head.append("Date: " + _date_value(full["date"][0], full["date"][1]))
    if full["message_id"] is not None:
        head.append("Message-ID: " + _msgid(full["message_id"], "message_id"))
    if full["in_reply_to"] is not None:
        head.append("In-Reply-To: " + _msgid(full["in_reply_to"], "in_reply_to"))
    head.append("MIME-Version: 1.0")
    for ln in head:
        if len(ln) > 998 or not ln.isascii():
            _nie("header line too long or not ASCII")

    def plain():
        return _leaf_text("plain", full["body_plain"], cs, cte)

    def html():
        return _leaf_text("html", full["body_html"], cs, cte)

    atts = [_leaf_att(a) for a in _attachments(full)]
    altx = [_leaf_att(a) for a in _alt_extra(full)]
    if st == "plain":
        entity = plain()
    elif st == "html":
        entity = html()
    elif st == "alternative":
        entity = _multipart(ctx, "alternative", [plain(), html()] + altx, preamble=True)
    elif st == "mixed-alt-att":
        entity = _multipart(ctx, "mixed", [_multipart(ctx, "alternative", [plain(), html()] + altx)] + atts, preamble=True)
    elif st == "mixed-plain-att-att":
        entity = _multipart(ctx, "mixed", [plain()] + atts, preamble=True)
    elif st == "related-html-img":
        img = {"filename": "img1.png", "filename_style": "plain", "ctype": "image/png", "cte": "base64", "data_hex": INLINE_PNG.hex()}
        entity = _multipart(ctx, "related", [html(), _leaf_att(img, "inline", INLINE_CID)], params=' type="text/html";', preamble=True)
    elif st == "mixed-mixed":
        entity = _multipart(ctx, "mixed", [_multipart(ctx, "mixed", [plain()] + atts[:1])] + atts[1:], preamble=True)
    elif st == "rfc822-attachment":
        inner = _inner_bytes(full, ctx)
        ih = ["Content-Type: message/rfc822", "Content-Transfer-Encoding: " + ("7bit" if inner.isascii() else "8bit"),
              'Content-Disposition: attachment; filename="forwarded.eml"']
        entity = _multipart(ctx, "mixed", [plain(), "\n".join(ih).encode("ascii") + b"\n\n" + inner] + atts, preamble=True)
    else:
        _nie("structure %r" % (st,))
    data = "\n".join(head).encode("ascii") + b"\n" + entity
    if not data.endswith(b"\n") and entity.endswith(b"--"):
        data += b"\n"
    return data


def _inner_bytes(full: dict, ctx: _Ctx | None = None) -> bytes:
    inner = full_spec(full["inner"] if full["inner"] is not None else INNER_DEFAULT)
    data = _render(inner, ctx or _Ctx())
    if any(len(ln) > 998 for ln in data.split(b"\n")):
        _nie("inner message line too long")
    return data


# ----------------------------------------------------------------------------------------------------------------------
# public API: eml / truth

def eml(spec: dict | None = None) -> bytes:
    """The complete message as bytes."""
    full = full_spec(spec)
    data = _render(full)
    if full["line_end"] == "\r\n":
        data = data.replace(b"\n", b"\r\n")
    return data


def expressible(spec: dict | None) -> bool:
    try:
        eml(spec)
        return True
    except NotImplementedError:
        return False


def _box_truth(b):
    return [b[0] or "", b[1]]


def truth(spec: dict | None = None) -> dict:
    """Expected decoded values, computed from the spec only.

    subject; from [name, addr]; to/cc/bcc/reply_to [[name, addr]...]; date (aware ISO string); message_id; in_reply_to;
    body_plain / body_html ("" when the structure has no such part; "\n" newlines); body_fuzzy (True when the charset label
    does not determine the decoding of the non-ASCII characters: only the ASCII skeleton is defined);
    attachments [(filename|None, mime_type, bytes)...] in order; inline [(filename, mime_type, bytes, content_id)...]
    (parts of multipart/related that a reader may or may not list as attachments)."""
    full = full_spec(spec)
    st = full["structure"]
    bp = full["body_plain"] if st in HAS_PLAIN else ""
    bh = full["body_html"] if st in HAS_HTML else ""
    atts = []
    if st == "rfc822-attachment":
        inner = _inner_bytes(full)
        if full["line_end"] == "\r\n":
            inner = inner.replace(b"\n", b"\r\n")
        atts.append(("forwarded.eml", "message/rfc822", inner))
    for a in _alt_extra(full) + _attachments(full):
        atts.append((_att_name(a), a["ctype"].lower(), _att_bytes(a)))
    inline = [("img1.png", "image/png", INLINE_PNG, INLINE_CID)] if st == "related-html-img" else []
    fuzzy = full["charset"] == "unknown-8bit" and not (bp + bh).isascii()
    return {
        "subject": full["subject"][1],
        "from": _box_truth(full["from"]),
        "to": [_box_truth(b) for b in full["to"]], "cc": [_box_truth(b) for b in full["cc"]],
        "bcc": [_box_truth(b) for b in full["bcc"]], "reply_to": [_box_truth(b) for b in full["reply_to"]],
        "date": _date_truth(full["date"][0], full["date"][1]).isoformat(),
        "message_id": full["message_id"] or "", "in_reply_to": full["in_reply_to"] or "",
        "body_plain": bp, "body_html": bh, "body_fuzzy": fuzzy,
        "attachments": atts, "inline": inline,
    }


# ----------------------------------------------------------------------------------------------------------------------
# the independent reader (standard library, policy.default) and the comparison

def _leaves(part, parent=None, index=0):
    if part.get_content_maintype() == "multipart":
        for i, sub in enumerate(part.iter_parts()):
            yield from _leaves(sub, part.get_content_subtype(), i)
    else:
        yield part, parent, index


def parse(data: bytes) -> dict:
    """Read a message with the standard library (email.policy.default) into the same shape as truth()."""
    msg = email.message_from_bytes(data, policy=email.policy.default)
    crlf = b"\r\n" in data

    def boxes(h):
        out = []
        for v in msg.get_all(h, []):
            out += [[a.display_name, a.addr_spec] for a in v.addresses]
        return out

    frm = boxes("from")
    date = ""
    if msg["date"] is not None and getattr(msg["date"], "datetime", None) is not None:
        date = msg["date"].datetime.isoformat()
    res = {"subject": str(msg["subject"]) if msg["subject"] is not None else "", "from": frm[0] if frm else ["", ""],
           "to": boxes("to"), "cc": boxes("cc"), "bcc": boxes("bcc"), "reply_to": boxes("reply-to"), "date": date,
           "message_id": str(msg["message-id"]).strip() if msg["message-id"] is not None else "",
           "in_reply_to": str(msg["in-reply-to"]).strip() if msg["in-reply-to"] is not None else "",
           "body_plain": "", "body_html": "", "attachments": [], "inline": [], "defects": []}
    seen = set()
    for part, parent, idx in _leaves(msg):
        ctype = part.get_content_type()
        disp = part.get_content_disposition()
        fn = part.get_filename()
        res["defects"] += [type(d).__name__ for d in part.defects]
        if disp != "attachment" and fn is None and ctype in ("text/plain", "text/html") and ctype not in seen:
            seen.add(ctype)
            try:
                text = part.get_content()
            except LookupError:
                text = (part.get_payload(decode=True) or b"").decode("utf-8", "replace")
            res["body_plain" if ctype == "text/plain" else "body_html"] = text
            continue
        if ctype == "message/rfc822":
            sub = part.get_payload(0)
            raw = sub.as_bytes(policy=sub.policy.clone(linesep="\r\n" if crlf else "\n", refold_source="none", max_line_length=0))
        else:
            raw = part.get_payload(decode=True) or b""
        if parent == "related" and disp != "attachment" and idx > 0:
            cid = (part["content-id"] or "").strip().strip("<>")
            res["inline"].append((fn, ctype, raw, cid))
        else:
            res["attachments"].append((fn, ctype, raw))
    res["defects"] += [type(d).__name__ for d in msg.defects]
    return res


def norm_text(s: str, mode: str = "exact") -> str:
    """exact: CRLF -> LF only.  strip: additionally strip leading/trailing white space (the library's documented normalisation)."""
    s = (s or "").replace("\r\n", "\n")
    return s.strip() if mode == "strip" else s


def _skeleton(s: str) -> str:
    return "".join(c for c in s if ord(c) < 128)


def _instant(iso: str):
    if not iso:
        return None
    try:
        d = _dt.datetime.fromisoformat(iso)
    except ValueError:
        return "unparsable:" + iso
    if d.tzinfo is None:
        d = d.replace(tzinfo=_dt.timezone.utc)
    return d.astimezone(_dt.timezone.utc)


FIELDS = ("subject", "from", "to", "cc", "bcc", "reply_to", "date", "message_id", "in_reply_to", "body_plain", "body_html",
          "attachments")


def diff(expected: dict, got: dict, body_mode: str = "exact", fields=FIELDS) -> list:
    """Field-by-field differences [(field, expected, got)...].  Dates are compared as instants (a naive value counts as UTC);
    bodies modulo norm_text(body_mode) (and as ASCII skeletons when expected["body_fuzzy"]); inline parts of
    multipart/related may or may not be listed among the attachments."""
    out = []
    for f in fields:
        e, g = expected.get(f), got.get(f)
        if f == "date":
            if _instant(e) != _instant(g):
                out.append((f, e, g))
        elif f in ("body_plain", "body_html"):
            e2, g2 = norm_text(e, body_mode), norm_text(g, body_mode)
            if expected.get("body_fuzzy"):
                e2, g2 = _skeleton(e2), _skeleton(g2.replace("�", ""))
            if e2 != g2:
                out.append((f, e, g))
        elif f == "attachments":
            e2 = [tuple(a[:3]) for a in e or []]
            g2 = [tuple(a[:3]) for a in g or []]
            inl = [tuple(a[:3]) for a in expected.get("inline", [])]
            if g2 != e2 and [a for a in g2 if a not in inl] != e2:
                out.append((f, e2, g2))
        elif f in ("from",):
            if list(e or []) != list(g or []):
                out.append((f, e, g))
        elif f in ("to", "cc", "bcc", "reply_to"):
            if [list(x) for x in e or []] != [list(x) for x in g or []]:
                out.append((f, e, g))
        else:
            if (e or "") != (g or ""):
                out.append((f, e, g))
    return out


def validate(spec: dict | None = None) -> list:
    """Writer validity: differences between truth(spec) and what the standard library reads from eml(spec) (must be [])."""
    exp = truth(spec)
    got = parse(eml(spec))
    out = diff(exp, got, "exact")
    gi = [tuple(a) for a in got["inline"]]
    if gi != [tuple(a) for a in exp["inline"]]:
        out.append(("inline", exp["inline"], gi))
    return out


# ----------------------------------------------------------------------------------------------------------------------
# mbox

MBOX_FROM_LINE = "From " + _n("B") + " desk since 2024"
MBOX_AFTER_LINE = _n("B") + " after"


def _from_line(full: dict, envelope: str = "address") -> bytes:
    utc = _date_truth(full["date"][0], full["date"][1]).astimezone(_dt.timezone.utc)
    stamp = "%s %s %2d %02d:%02d:%02d %04d" % (_DOW[utc.weekday()], _MON[utc.month - 1], utc.day, utc.hour, utc.minute, utc.second, utc.year)
    sender = {"address": full["from"][1], "daemon": "MAILER-DAEMON", "dash": "-"}[envelope]
    return ("From %s %s" % (sender, stamp)).encode("ascii")


def _mbox_specs(specs: list, opts: dict) -> list:
    """The specs as mbox() writes them: file-wide line end, optional extra body lines in message 0."""
    for k in opts:
        if k not in ("separator", "from_line_in_body", "envelope", "envelope_first"):
            raise ValueError("mbox opts: unknown key %r" % (k,))
    sep = opts.get("separator", "standard")
    if sep not in ("standard", "no-blank-line", "crlf"):
        _nie("mbox separator %r" % (sep,))
    if opts.get("envelope", "address") not in ("address", "daemon", "dash"):
        _nie("mbox envelope %r" % (opts.get("envelope"),))
    flb = opts.get("from_line_in_body")
    if flb not in (None, "escaped", "unescaped"):
        _nie("mbox from_line_in_body %r" % (flb,))
    out = []
    for i, s in enumerate(specs):
        s = dict(s or {})
        s["line_end"] = "\r\n" if sep == "crlf" else "\n"
        if i == 0 and flb is not None:
            full = full_spec(s)
            if full["structure"] not in HAS_PLAIN:
                _nie("from_line_in_body needs a plain body in message 0")
            if full["cte"] == "base64":
                _nie("from_line_in_body is invisible with cte base64")
            body = full["body_plain"]
            if body and not body.endswith("\n"):
                body += "\n"
            s["body_plain"] = body + "\n" + MBOX_FROM_LINE + "\n" + MBOX_AFTER_LINE + "\n"
        out.append(s)
    return out


def mbox(specs: list, opts: dict | None = None) -> bytes:
    """An mbox file (mboxo: "From " lines inside messages are written as ">From " unless from_line_in_body is "unescaped").

    opts: separator  "standard" (LF file, blank line after every message: byte-identical to what mailbox.mbox.add writes),
                     "no-blank-line" (LF file, the next From_ line follows the last message line directly),
                     "crlf" (the whole file, From_ lines included, uses CRLF)
          from_line_in_body "escaped" | "unescaped": appends a blank line, MBOX_FROM_LINE and MBOX_AFTER_LINE to the plain body of
                     message 0; "unescaped" switches the ">From " escaping off for the whole file (not a valid mboxo file: the
                     stdlib reader splits there; see mbox_truth).
    The line_end of the individual specs is overridden by the file-wide convention."""
    opts = opts or {}
    sep = opts.get("separator", "standard")
    escape = opts.get("from_line_in_body") != "unescaped"
    nl = b"\r\n" if sep == "crlf" else b"\n"
    out = []
    for s in _mbox_specs(specs, opts):
        full = full_spec(s)
        data = eml(s)
        if escape:
            data = data.replace(b"\nFrom ", b"\n>From ")
        # envelope sender of the From_ line: the message's address, or the forms a bounce ("MAILER-DAEMON") and Thunderbird ("-") write
        out.append(_from_line(full, opts.get("envelope", "address") if len(out) else opts.get("envelope_first", opts.get("envelope", "address"))) + nl)
        out.append(data)
        if not data.endswith(nl):
            out.append(nl)
        if sep != "no-blank-line":
            out.append(nl)
    return b"".join(out)


def mbox_expected(specs: list, opts: dict | None = None) -> dict:
    """Ground truth of mbox(specs, opts) from the specs: {"messages": [truth..., each with body_plain_mboxo / body_html_mboxo = the
    body as a reader that does not undo the (lossy) ">From " escaping sees it], "mboxo_body0": that escaped plain body of message 0
    when it differs from the original, else None, "ambiguous": True when the file is not a valid mboxo file (unescaped From line in
    a body) so that only mbox_truth() is a reference}."""
    opts = opts or {}
    ms = [truth(s) for s in _mbox_specs(specs, opts)]
    flb = opts.get("from_line_in_body")
    escaped = None
    for i, (m, s) in enumerate(zip(ms, _mbox_specs(specs, opts))):
        b64 = full_spec(s)["cte"] == "base64"           # nothing to escape inside base64
        for f in ("body_plain", "body_html"):
            m[f + "_mboxo"] = m[f] if b64 else ("\n" + m[f]).replace("\nFrom ", "\n>From ")[1:]
        if i == 0 and m["body_plain_mboxo"] != m["body_plain"]:
            escaped = m["body_plain_mboxo"]
    return {"messages": ms, "mboxo_body0": escaped if flb != "unescaped" else None, "ambiguous": flb == "unescaped"}


def mbox_truth(data: bytes) -> list:
    """What the standard library's mailbox.mbox reads back (second implementation): one parse() dict per message, in file
    order, plus "from_line"."""
    fd, path = tempfile.mkstemp(prefix="verif_mbox_", suffix=".mbox")
    try:
        with os.fdopen(fd, "wb") as f:
            f.write(data)
        mb = mailbox.mbox(path, create=False)
        try:
            out = []
            for key in sorted(mb.keys()):
                raw = mb.get_bytes(key)
                d = parse(raw)
                d["from_line"] = mb.get_bytes(key, from_=True).split(b"\n", 1)[0].rstrip(b"\r").decode("ascii", "replace")
                out.append(d)
            return out
        finally:
            mb.close()
    finally:
        try:
            os.unlink(path)
        except OSError:
            pass


# ----------------------------------------------------------------------------------------------------------------------
# deviation domains

def _toks(cls, k):
    return [_n(cls) for _ in range(k)]


def _domains() -> list:
    H = lambda: _n("H")
    N = lambda: _n("N")
    B = lambda: _n("B")
    a = lambda i: "rcpt%d@verif.example" % i
    att_txt = DEFAULT_ATTACHMENTS[0]
    att_pdf = {"filename": _n("B") + " € report.pdf", "filename_style": "rfc2231", "ctype": "application/pdf", "cte": "base64",
               "data_hex": (b"%PDF-1.4\r\n\x00\xff\xfe binary\n" + _n("B").encode() + b"\r\n%%EOF").hex()}
    att_2047 = {"filename": "café " + _n("B") + ".txt", "filename_style": "rfc2047", "ctype": "text/plain", "charset": "utf-8",
                "cte": "base64", "data_hex": (_n("B") + " café €\n").encode("utf-8").hex()}
    att_qp = {"filename": "data.bin", "filename_style": "plain", "ctype": "application/octet-stream", "cte": "quoted-printable",
              "data_hex": (b"line1 = \r\nline2 \n\ttab\x00\xff " + _n("B").encode() + b" ").hex()}
    att_noname = {"filename": None, "ctype": "application/octet-stream", "cte": "base64", "data_hex": _n("B").encode().hex()}
    att_csv = {"filename": "table " + _n("B") + ".csv", "filename_style": "plain", "ctype": "text/csv", "cte": "base64",
               "data_hex": ("a,b\r\n" + _n("C") + "," + _n("C") + "\r\n").encode().hex()}
    att_long = {"filename": " ".join(_toks("B", 6)) + " übergröße 中文文件名.docx", "filename_style": "rfc2231",
                "ctype": "application/vnd.openxmlformats-officedocument.wordprocessingml.document", "cte": "base64",
                "data_hex": b"PK\x03\x04not really".hex()}
    att_latin = {"filename": "latin.txt", "filename_style": "plain", "ctype": "text/plain", "charset": "iso-8859-1", "cte": "quoted-printable",
                 "data_hex": (_n("B") + " café\r\n").encode("latin-1").hex()}
    return [
        ("subject", [
            BASELINE["subject"],
            ["utf8-b", H() + " café € 中文 " + H()],
            ["utf8-q", H() + " café €_? " + H()],
            ["latin1-q", H() + " café naïve " + H()],
            ["long-folded", " ".join(_toks("H", 14))],
            ["contains-eqmark", H() + " 2+2=? " + H() + " =?not-encoded " + H() + " ?= " + H()],
            ["utf8-q", H() + " =?utf-8?q?" + _n("Z") + "?= " + H()],
            ["utf8-b", " ".join(t + " 中文€é" for t in _toks("H", 8))],
        ]),
        ("from", [
            BASELINE["from"],
            [None, "sender@verif.example"],
            [N() + ", " + N(), "sender@verif.example"],
            [N() + " Jörg Müller", "sender@verif.example"],
            [N() + ", Jörg", "sender@verif.example"],
            [N() + ' "' + N() + '" ' + N() + "\\x", "sender@verif.example"],
            ["Dr. " + N(), "first.last+tag@mail.verif.example"],
        ]),
        ("to", [
            BASELINE["to"],
            [[None, a(1)]],
            [[N() + " " + N(), a(1)], [N(), a(2)], [None, a(3)]],
            [[N() + ", " + N(), a(1)], [N() + " " + N(), a(2)]],
            [[N() + " Åsa Øst", a(1)], [N() + " " + N(), a(2)]],
            [[N() + ", Åsa", a(1)], [N() + " " + N(), a(2)]],
            [],
            [[N() + " " + N(), a(i)] for i in range(1, 9)],
        ]),
        ("cc", [[], [[N() + " " + N(), a(11)]], [[None, a(11)], [N(), a(12)]], [[N() + ", " + N(), a(11)], [None, a(12)]]]),
        ("bcc", [[], [[N() + " " + N(), a(21)]], [[None, a(21)], [None, a(22)]]]),
        ("reply_to", [[], [[N() + " " + N(), a(31)]], [[None, a(31)]], [[N() + " Renée", a(31)], [None, a(32)]]]),
        ("address_style", ["plain", "group"]),
        ("date", [
            BASELINE["date"],
            ["-0500", "2024-03-05T14:07:09"],
            ["+0530", "2024-03-05T14:07:09"],
            ["2digit", "2024-03-05T14:07:09"],
            ["gmt", "2024-03-05T14:07:09"],
            ["no-seconds", "2024-03-05T14:07:00"],
            ["comment", "2024-03-05T14:07:09"],
            ["-0500", "2024-12-31T23:30:00"],
        ]),
        ("message_id", [
            BASELINE["message_id"],
            "<UPPER.lower+tag$x=1@Mail.Verif.Example>",
            "<" + ".".join(t.lower() for t in _toks("Z", 14)) + "@verif.example>",
            None,
        ]),
        ("in_reply_to", [None, "<parent.7@verif.example>"]),
        ("structure", list(STRUCTURES)),
        ("charset", ["utf-8", "us-ascii", "iso-8859-1", "windows-1252", "unknown-8bit"]),
        ("cte", ["quoted-printable", "7bit", "8bit", "base64"]),
        ("body_plain", [
            BASELINE["body_plain"],
            B() + " " + B() + "\n",
            B() + "\n\n  " + B() + "\t" + B() + "\nx=3D y = z " + B() + "\n",
            B() + " €—“" + B() + "”\n",
            B() + "\nFrom " + B() + " here\n.\n-- \n" + B() + "\n",
            " ".join(_toks("B", 160)) + "\n",
            "",
            B() + " " + B(),
        ]),
        ("body_html", [
            BASELINE["body_html"],
            "<html><head><meta charset=\"utf-8\"></head><body><p>" + B() + " &amp; caf&eacute; é " + B() + "</p></body></html>\n",
            "<p>" + B() + "</p>",
        ]),
        ("attachments", [
            [], [att_txt], [att_pdf], [att_2047], [att_qp], [att_noname], [att_txt, att_pdf, att_csv], [att_long, att_latin],
        ]),
        ("line_end", ["\r\n", "\n"]),
    ]


DOMAINS = _domains()
for _k, _vals in DOMAINS:
    assert _vals[0] == BASELINE[_k], _k
DIMENSIONS = [k for k, _ in DOMAINS]


def deviations(d: int = 1, only_expressible: bool = True):
    """Sparse specs ({} is the baseline; use full_spec() for the complete dict) that deviate from BASELINE in <= d dimensions,
    in canonical order (by number of deviating dimensions, then DOMAINS order, then value order).  Combinations that the writer
    cannot express (NotImplementedError, e.g. attachments with structure plain) are skipped unless only_expressible is False."""
    if d not in (0, 1, 2):
        raise ValueError("d must be 0, 1 or 2")
    for k in range(0, d + 1):
        for dims in itertools.combinations(range(len(DOMAINS)), k):
            choices = [[(DOMAINS[i][0], v) for v in DOMAINS[i][1][1:]] for i in dims]
            for combo in itertools.product(*choices):
                spec = {key: copy.deepcopy(v) for key, v in combo}
                if only_expressible and not expressible(spec):
                    continue
                yield spec


def deviation_key(spec: dict) -> str:
    """Short stable label: dimension=index of the value in its domain (or '?')."""
    out = []
    for k, vals in DOMAINS:
        if k in spec and spec[k] != BASELINE[k]:
            out.append("%s=%s" % (k, vals.index(spec[k]) if spec[k] in vals else "?"))
    return ",".join(out) or "baseline"
