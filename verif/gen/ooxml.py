"""Reference writers ADM -> OOXML packages (DOCX, PPTX, XLSX), written from ECMA-376 / ISO 29500.

    docx(doc, images=None, opts=None) -> bytes     CAPS_DOCX
    pptx(doc, images=None, opts=None) -> bytes     CAPS_PPTX
    xlsx(doc, images=None, opts=None) -> bytes     CAPS_XLSX   (doc[2] = [["sheet", name, grid(, extras)], ...])

`images` maps an image key to (bytes, ext), ext in {"png", "jpeg", "gif", "bmp", "tiff", "emf", "wmf"}.
`opts` (all optional):
  common  image_ref       "relative" (default) | "parent" | "absolute" | "shared" | "dup_rid_parts" | "missing" | "external"
          alt             {image key: alt text}  -> descr attribute of the picture's cNvPr (default: none)
          core_dates      W3CDTF string written as dcterms:created / dcterms:modified (default: not written)
          zip_stored      True stores the parts uncompressed (default False = deflate)
          math_seed       seed of the C19 Labeler used per formula (default 0);  labeler: a shared Labeler instance
          math_word_props True: a formula tree may hold w: elements (w:rPr inside m:r); default False = rejected
  docx    block_sdt       True: a top-level ["p", [["sdt", ..]]] becomes a block-level w:sdt around the paragraph
          last_rendered_breaks  True: w:lastRenderedPageBreak in the first paragraph after every page break
  pptx    no_offsets      True: shapes carry no a:xfrm (graphic frames keep the schema-mandatory p:xfrm, all zero)
          comment_part_numbering  "sequential" (default, PowerPoint numbers comment parts in creation order) | "slide"
          math_fallback_image     True (default): the mc:Fallback shape of a formula shape has a picture fill
  xlsx    inline_strings  True: strings as t="inlineStr" instead of sharedStrings.xml
          sheet_images    {sheet index (0-based): [image key, ...]} (alternative to sheet extras {"images": [...]})
          comments_at     [[sheet index (0-based), row, col, text], ...]: cell comments (xl/commentsN.xml + the legacy VML drawing
                          Excel writes with it); the cell itself may be empty (no c element)

Output is deterministic (fixed ZIP timestamps, no clock, no randomness). Anything that the target format cannot
express raises NotImplementedError; malformed input (bad sheet name, unknown image key, XML-illegal characters)
raises ValueError.
"""
from __future__ import annotations

import datetime as _dt
import io
import re
import struct
import zipfile
import zlib

# ---------------------------------------------------------------------------------------------- CAPS

_META_CORE = ("title", "author", "subject", "keywords", "description")
CAPS_DOCX = frozenset(
    ["unit", "multiunit", "p", "h", "ul", "ul-nested", "tbl", "tbl-nested", "img", "pb",
     "t", "tab", "br", "a", "ins", "del", "cref", "fn", "sdt", "box", "math", "extra:comments",
     "meta:header", "meta:footer"] + ["meta:" + k for k in _META_CORE])
CAPS_PPTX = frozenset(
    ["unit", "multiunit", "p", "h", "ul", "ul-nested", "tbl", "img", "t", "tab", "br", "a", "math",
     "extra:notes", "extra:comments"] + ["meta:" + k for k in _META_CORE])
CAPS_XLSX = frozenset(["sheet", "multiunit"] + ["meta:" + k for k in _META_CORE])

# ---------------------------------------------------------------------------------------------- namespaces

NS_W = "http://schemas.openxmlformats.org/wordprocessingml/2006/main"
NS_R = "http://schemas.openxmlformats.org/officeDocument/2006/relationships"
NS_A = "http://schemas.openxmlformats.org/drawingml/2006/main"
NS_P = "http://schemas.openxmlformats.org/presentationml/2006/main"
NS_S = "http://schemas.openxmlformats.org/spreadsheetml/2006/main"
NS_M = "http://schemas.openxmlformats.org/officeDocument/2006/math"
NS_MC = "http://schemas.openxmlformats.org/markup-compatibility/2006"
NS_WP = "http://schemas.openxmlformats.org/drawingml/2006/wordprocessingDrawing"
NS_PIC = "http://schemas.openxmlformats.org/drawingml/2006/picture"
NS_WPS = "http://schemas.microsoft.com/office/word/2010/wordprocessingShape"
NS_XDR = "http://schemas.openxmlformats.org/drawingml/2006/spreadsheetDrawing"
NS_A14 = "http://schemas.microsoft.com/office/drawing/2010/main"
NS_V = "urn:schemas-microsoft-com:vml"
NS_O = "urn:schemas-microsoft-com:office:office"
NS_W10 = "urn:schemas-microsoft-com:office:word"
NS_REL = "http://schemas.openxmlformats.org/package/2006/relationships"
NS_CT = "http://schemas.openxmlformats.org/package/2006/content-types"
RT = "http://schemas.openxmlformats.org/officeDocument/2006/relationships/"
RT_CORE = "http://schemas.openxmlformats.org/package/2006/relationships/metadata/core-properties"
CT_RELS = "application/vnd.openxmlformats-package.relationships+xml"
CT_CORE = "application/vnd.openxmlformats-package.core-properties+xml"
CT_W = "application/vnd.openxmlformats-officedocument.wordprocessingml."
CT_P = "application/vnd.openxmlformats-officedocument.presentationml."
CT_S = "application/vnd.openxmlformats-officedocument.spreadsheetml."
CT_THEME = "application/vnd.openxmlformats-officedocument.theme+xml"
CT_DRAWING = "application/vnd.openxmlformats-officedocument.drawing+xml"
XML_DECL = '<?xml version="1.0" encoding="UTF-8" standalone="yes"?>\n'
IMG_CT = {"png": "image/png", "jpeg": "image/jpeg", "gif": "image/gif", "bmp": "image/bmp",
          "tiff": "image/tiff", "emf": "image/x-emf", "wmf": "image/x-wmf"}       # the last three: picture-kind family of C04
IMAGE_REFS = ("relative", "parent", "absolute", "shared", "dup_rid_parts", "missing", "external")
FIXED_DATE = "2020-01-01T00:00:00Z"
AUTHOR = "verif"

# ---------------------------------------------------------------------------------------------- XML text helpers

_XML_ILLEGAL = re.compile("[\x00-\x08\x0b\x0c\x0e-\x1f\ud800-\udfff\ufffe\uffff]")


def _esc(s) -> str:
    """Escape element content."""
    s = str(s)
    if _XML_ILLEGAL.search(s):
        raise ValueError("character not allowed in XML 1.0: %r" % s)
    if "&" in s:
        s = s.replace("&", "&amp;")
    if "<" in s:
        s = s.replace("<", "&lt;")
    if ">" in s:
        s = s.replace(">", "&gt;")
    if "\r" in s:
        s = s.replace("\r", "&#13;")
    return s


def _attr(s) -> str:
    """Escape an attribute value (double-quoted)."""
    s = _esc(s)
    if '"' in s:
        s = s.replace('"', "&quot;")
    if "\t" in s:
        s = s.replace("\t", "&#9;")
    if "\n" in s:
        s = s.replace("\n", "&#10;")
    return s


# ---------------------------------------------------------------------------------------------- package helpers


class _Package:
    """Collects parts, content types and relationships; serialises to a deterministic ZIP."""

    def __init__(self, stored=False):
        self.parts = []            # (name, bytes) in write order
        self.names = set()
        self.defaults = {"rels": CT_RELS, "xml": "application/xml"}
        self.overrides = []        # (partname, content type)
        self.rels = {}             # source part name ("" = package) -> list of (id, type, target, external)
        self.stored = stored

    def add(self, name, data, ctype=None):
        if name in self.names:
            raise AssertionError("duplicate part " + name)
        self.names.add(name)
        if isinstance(data, str):
            data = data.encode("utf-8")
        self.parts.append((name, data))
        if ctype:
            self.overrides.append(("/" + name, ctype))

    def rel(self, source, rtype, target, external=False, rid=None):
        lst = self.rels.setdefault(source, [])
        if rid is None:
            rid = "rId%d" % (len(lst) + 1)
        lst.append((rid, rtype, target, external))
        return rid

    @staticmethod
    def rels_name(source):
        if source == "":
            return "_rels/.rels"
        d, _, f = source.rpartition("/")
        return (d + "/" if d else "") + "_rels/" + f + ".rels"

    def tobytes(self):
        ct = [XML_DECL, '<Types xmlns="%s">' % NS_CT]
        for ext, c in self.defaults.items():
            ct.append('<Default Extension="%s" ContentType="%s"/>' % (ext, c))
        for pn, c in self.overrides:
            ct.append('<Override PartName="%s" ContentType="%s"/>' % (_attr(pn), c))
        ct.append("</Types>")
        out = [("[Content_Types].xml", "".join(ct).encode("utf-8"))]
        relparts = {}
        for source, lst in self.rels.items():
            x = [XML_DECL, '<Relationships xmlns="%s">' % NS_REL]
            for rid, rtype, target, external in lst:
                x.append('<Relationship Id="%s" Type="%s" Target="%s"%s/>' % (
                    rid, rtype, _attr(target), ' TargetMode="External"' if external else ""))
            x.append("</Relationships>")
            relparts[source] = (self.rels_name(source), "".join(x).encode("utf-8"))
        if "" in relparts:
            out.append(relparts.pop(""))
        for name, data in self.parts:
            out.append((name, data))
            if name in relparts:
                out.append(relparts.pop(name))
        for source in list(relparts):       # relationships of parts that were not written (cannot happen)
            out.append(relparts.pop(source))
        bio = io.BytesIO()
        comp = zipfile.ZIP_STORED if self.stored else zipfile.ZIP_DEFLATED
        with zipfile.ZipFile(bio, "w") as z:
            for name, data in out:
                zi = zipfile.ZipInfo(name, date_time=(1980, 1, 1, 0, 0, 0))
                zi.compress_type = comp
                zi.create_system = 0
                zi.external_attr = 0
                z.writestr(zi, data, compresslevel=None if self.stored else 1)
        return bio.getvalue()


_OPTS_COMMON = ("image_ref", "alt", "core_dates", "zip_stored", "math_seed", "labeler", "math_word_props")
OPTS_DOCX = _OPTS_COMMON + ("block_sdt", "last_rendered_breaks", "br_type", "cell_sdt")
OPTS_PPTX = _OPTS_COMMON + ("no_offsets", "comment_part_numbering", "math_fallback_image", "slide_part_numbers")
OPTS_XLSX = _OPTS_COMMON + ("inline_strings", "sheet_images", "date1904", "comments_at")


def _check_opts(opts, allowed):
    opts = opts or {}
    for k in opts:
        if k not in allowed:
            raise ValueError("unknown option %r (known: %s)" % (k, ", ".join(allowed)))
    return opts


def _check_url(url):
    if not isinstance(url, str) or not url or url != url.strip():
        raise ValueError("hyperlink target must be a non-empty URI without surrounding blanks: %r" % (url,))
    return url


def _check_meta(meta, allowed, fmt):
    meta = meta or {}
    for k in meta:
        if k not in allowed:
            raise NotImplementedError("%s cannot express meta key %r" % (fmt, k))
    return meta


def _core_xml(meta, opts):
    """docProps/core.xml; element order follows what Office writes (the schema is xsd:all)."""
    x = [XML_DECL, '<cp:coreProperties xmlns:cp="http://schemas.openxmlformats.org/package/2006/metadata/core-properties" '
         'xmlns:dc="http://purl.org/dc/elements/1.1/" xmlns:dcterms="http://purl.org/dc/terms/" '
         'xmlns:dcmitype="http://purl.org/dc/dcmitype/" xmlns:xsi="http://www.w3.org/2001/XMLSchema-instance">']
    for key, tag in (("title", "dc:title"), ("subject", "dc:subject"), ("author", "dc:creator"),
                     ("keywords", "cp:keywords"), ("description", "dc:description")):
        if key in meta and meta[key] is not None:
            x.append("<%s>%s</%s>" % (tag, _esc(meta[key]), tag))
    d = opts.get("core_dates")
    if d:
        x.append('<dcterms:created xsi:type="dcterms:W3CDTF">%s</dcterms:created>' % _esc(d))
        x.append('<dcterms:modified xsi:type="dcterms:W3CDTF">%s</dcterms:modified>' % _esc(d))
    x.append("</cp:coreProperties>")
    return "".join(x)


def _add_core(pkg, meta, opts):
    pkg.add("docProps/core.xml", _core_xml(meta, opts), CT_CORE)
    pkg.rel("", RT_CORE, "docProps/core.xml")


def _img_px(data: bytes):
    """Pixel size declared by the image header; (1, 1) when it cannot be told."""
    try:
        if data[:8] == b"\x89PNG\r\n\x1a\n" and len(data) >= 24:
            w, h = struct.unpack(">II", data[16:24])
        elif data[:6] in (b"GIF87a", b"GIF89a") and len(data) >= 10:
            w, h = struct.unpack("<HH", data[6:10])
        elif data[:2] == b"BM" and len(data) >= 26:
            w, h = struct.unpack("<ii", data[18:26])
            w, h = abs(w), abs(h)
        elif data[:2] == b"\xff\xd8":
            i, w, h = 2, 0, 0
            while i + 4 <= len(data):
                if data[i] != 0xFF:
                    i += 1
                    continue
                mk = data[i + 1]
                if mk == 0xFF:
                    i += 1
                    continue
                if mk in (0xD8, 0x01) or 0xD0 <= mk <= 0xD7:
                    i += 2
                    continue
                if mk in (0xD9, 0xDA):
                    break
                ln = struct.unpack(">H", data[i + 2:i + 4])[0]
                if 0xC0 <= mk <= 0xCF and mk not in (0xC4, 0xC8, 0xCC):
                    h, w = struct.unpack(">HH", data[i + 5:i + 9])
                    break
                i += 2 + ln
        else:
            w = h = 0
    except (struct.error, IndexError):
        w = h = 0
    return (w or 1, h or 1)


class _Images:
    """Image parts + relationships of one source part, for every image_ref shape.

    media_dir: package directory of the media parts ("word/media"); rel_prefix: the normal relative form
    from the source part's directory ("media/" for word/document.xml, "../media/" for slides and drawings).
    The part counter is shared per package (one _ImagePool)."""

    def __init__(self, pool, source, rel_prefix, parent_prefix):
        self.pool = pool
        self.source = source
        self.rel_prefix = rel_prefix
        self.parent_prefix = parent_prefix
        self.by_key = {}           # key -> (rid, partname) for "shared" (relationships are per source part)

    def ref(self, key):
        """-> (attribute text for a:blip, width px, height px, part file name)"""
        pool = self.pool
        if pool.images is None or key not in pool.images:
            raise ValueError("unknown image key %r" % (key,))
        data, ext = pool.images[key]
        if ext not in IMG_CT:
            raise ValueError("unsupported image extension %r" % (ext,))
        mode = pool.mode
        w, h = _img_px(data)
        if mode == "shared" and key in self.by_key:
            rid, fname = self.by_key[key]
            return 'r:embed="%s"' % rid, w, h, fname
        if mode in ("shared", "dup_rid_parts"):
            fname = pool.part_for_key(key, data, ext)
        elif mode == "external":
            fname = pool.next_name(ext)
        elif mode == "missing":
            fname = pool.next_name(ext)
            pool.pkg.defaults.setdefault(ext, IMG_CT[ext])
        else:
            fname = pool.new_part(data, ext)
        if mode == "external":
            rid = pool.pkg.rel(self.source, RT + "image", "file:///C:/verif/" + fname, external=True)
            return 'r:link="%s"' % rid, w, h, fname
        if mode == "parent":
            target = self.parent_prefix + fname
        elif mode == "absolute":
            target = "/" + pool.media_dir + "/" + fname
        else:
            target = self.rel_prefix + fname
        rid = pool.pkg.rel(self.source, RT + "image", target)
        if mode == "shared":
            self.by_key[key] = (rid, fname)
        return 'r:embed="%s"' % rid, w, h, fname


class _ImagePool:
    def __init__(self, pkg, images, opts, media_dir):
        self.pkg = pkg
        self.images = images
        self.mode = opts.get("image_ref", "relative")
        if self.mode not in IMAGE_REFS:
            raise ValueError("image_ref must be one of %s" % (IMAGE_REFS,))
        self.media_dir = media_dir
        self.n = 0
        self.key_part = {}
        self.alt = opts.get("alt") or {}

    def next_name(self, ext):
        self.n += 1
        return "image%d.%s" % (self.n, ext)

    def new_part(self, data, ext):
        fname = self.next_name(ext)
        self.pkg.defaults.setdefault(ext, IMG_CT[ext])
        self.pkg.add(self.media_dir + "/" + fname, data)
        return fname

    def part_for_key(self, key, data, ext):
        k = repr(key)
        if k not in self.key_part:
            self.key_part[k] = self.new_part(data, ext)
        return self.key_part[k]

    def descr(self, key):
        a = self.alt.get(key)
        return ' descr="%s"' % _attr(a) if a else ""


def _png_1x1() -> bytes:
    def chunk(t, d):
        return struct.pack(">I", len(d)) + t + d + struct.pack(">I", zlib.crc32(t + d) & 0xFFFFFFFF)
    return (b"\x89PNG\r\n\x1a\n" + chunk(b"IHDR", struct.pack(">IIBBBBB", 1, 1, 8, 0, 0, 0, 0)) +
            chunk(b"IDAT", zlib.compress(b"\x00\xff", 9)) + chunk(b"IEND", b""))


PNG_1X1 = _png_1x1()

# ---------------------------------------------------------------------------------------------- OMML


def _math_xml(tree, opts):
    """Serialise the C19 tree (built by verif.props.C19.build) with the m: prefix; no global ET state is touched."""
    from verif.props import C19
    lab = opts.get("labeler") or C19.Labeler(opts.get("math_seed", 0))
    try:
        el = C19.build(tree, lab)
    except OverflowError as e:
        raise NotImplementedError("formula has more unique runs than the Labeler alphabet") from e
    pre = "{" + NS_M + "}"
    prew = "{" + NS_W + "}"
    wprops = bool(opts.get("math_word_props"))      # allow w: elements (w:rPr inside m:r, as Word writes them)
    out = []

    def ser(e, top):
        if wprops and e.tag.startswith(prew):
            name = "w:" + e.tag[len(prew):]
        elif not e.tag.startswith(pre):
            raise ValueError("non-OMML element in formula tree: " + e.tag)
        else:
            name = "m:" + e.tag[len(pre):]
        out.append("<" + name)
        if top:
            out.append(' xmlns:m="%s"' % NS_M)
            if wprops:
                out.append(' xmlns:w="%s"' % NS_W)
        for k, v in e.attrib.items():
            if wprops and k.startswith(prew):
                out.append(' w:%s="%s"' % (k[len(prew):], _attr(v)))
                continue
            if not k.startswith(pre):
                raise ValueError("non-OMML attribute in formula tree: " + k)
            out.append(' m:%s="%s"' % (k[len(pre):], _attr(v)))
        kids = list(e)
        if not kids and not e.text:
            # m:t keeps its (possibly empty) text; an empty element is equivalent
            out.append("/>")
            return
        out.append(">")
        if e.text:
            if name == "m:t" and (e.text != e.text.strip() or e.text == " "):
                out[-1] = ' xml:space="preserve">'
            out.append(_esc(e.text))
        for k in kids:
            ser(k, False)
        out.append("</" + name + ">")
    ser(el, True)
    return "".join(out)


# ============================================================================================== DOCX

_W_ROOT_NS = ('xmlns:w="%s" xmlns:r="%s" xmlns:m="%s" xmlns:mc="%s" xmlns:wp="%s" xmlns:wps="%s" '
              'xmlns:v="%s" xmlns:o="%s" xmlns:w10="%s"' % (NS_W, NS_R, NS_M, NS_MC, NS_WP, NS_WPS, NS_V, NS_O, NS_W10))
_W_NS_SMALL = 'xmlns:w="%s" xmlns:r="%s"' % (NS_W, NS_R)


def _docx_styles() -> str:
    x = [XML_DECL, '<w:styles xmlns:w="%s">' % NS_W,
         '<w:docDefaults><w:rPrDefault><w:rPr><w:rFonts w:ascii="Calibri" w:eastAsia="Calibri" w:hAnsi="Calibri" w:cs="Times New Roman"/>'
         '<w:sz w:val="22"/><w:szCs w:val="22"/><w:lang w:val="en-US" w:eastAsia="en-US" w:bidi="ar-SA"/></w:rPr></w:rPrDefault>'
         '<w:pPrDefault><w:pPr><w:spacing w:after="160" w:line="259" w:lineRule="auto"/></w:pPr></w:pPrDefault></w:docDefaults>',
         '<w:style w:type="paragraph" w:default="1" w:styleId="Normal"><w:name w:val="Normal"/><w:qFormat/></w:style>']
    for lvl, sz in ((1, 32), (2, 26), (3, 24)):
        x.append('<w:style w:type="paragraph" w:styleId="Heading%d"><w:name w:val="heading %d"/><w:basedOn w:val="Normal"/>'
                 '<w:next w:val="Normal"/><w:uiPriority w:val="9"/><w:qFormat/><w:pPr><w:keepNext/><w:keepLines/>'
                 '<w:spacing w:before="240" w:after="0"/><w:outlineLvl w:val="%d"/></w:pPr><w:rPr><w:b/><w:sz w:val="%d"/>'
                 '<w:szCs w:val="%d"/></w:rPr></w:style>' % (lvl, lvl, lvl - 1, sz, sz))
    x.append('<w:style w:type="character" w:default="1" w:styleId="DefaultParagraphFont"><w:name w:val="Default Paragraph Font"/>'
             '<w:uiPriority w:val="1"/><w:semiHidden/><w:unhideWhenUsed/></w:style>'
             '<w:style w:type="table" w:default="1" w:styleId="TableNormal"><w:name w:val="Normal Table"/><w:uiPriority w:val="99"/>'
             '<w:semiHidden/><w:unhideWhenUsed/><w:tblPr><w:tblInd w:w="0" w:type="dxa"/><w:tblCellMar><w:top w:w="0" w:type="dxa"/>'
             '<w:left w:w="108" w:type="dxa"/><w:bottom w:w="0" w:type="dxa"/><w:right w:w="108" w:type="dxa"/></w:tblCellMar></w:tblPr></w:style>'
             '<w:style w:type="numbering" w:default="1" w:styleId="NoList"><w:name w:val="No List"/><w:uiPriority w:val="99"/>'
             '<w:semiHidden/><w:unhideWhenUsed/></w:style>'
             '<w:style w:type="table" w:styleId="TableGrid"><w:name w:val="Table Grid"/><w:basedOn w:val="TableNormal"/>'
             '<w:uiPriority w:val="39"/><w:tblPr><w:tblBorders>')
    for side in ("top", "left", "bottom", "right", "insideH", "insideV"):
        x.append('<w:%s w:val="single" w:sz="4" w:space="0" w:color="auto"/>' % side)
    x.append('</w:tblBorders></w:tblPr></w:style>'
             '<w:style w:type="paragraph" w:styleId="ListParagraph"><w:name w:val="List Paragraph"/><w:basedOn w:val="Normal"/>'
             '<w:uiPriority w:val="34"/><w:qFormat/><w:pPr><w:ind w:left="720"/><w:contextualSpacing/></w:pPr></w:style>'
             '<w:style w:type="character" w:styleId="Hyperlink"><w:name w:val="Hyperlink"/><w:basedOn w:val="DefaultParagraphFont"/>'
             '<w:uiPriority w:val="99"/><w:unhideWhenUsed/><w:rPr><w:color w:val="0563C1"/><w:u w:val="single"/></w:rPr></w:style>'
             '<w:style w:type="paragraph" w:styleId="Header"><w:name w:val="header"/><w:basedOn w:val="Normal"/><w:uiPriority w:val="99"/>'
             '<w:unhideWhenUsed/><w:pPr><w:tabs><w:tab w:val="center" w:pos="4680"/><w:tab w:val="right" w:pos="9360"/></w:tabs></w:pPr></w:style>'
             '<w:style w:type="paragraph" w:styleId="Footer"><w:name w:val="footer"/><w:basedOn w:val="Normal"/><w:uiPriority w:val="99"/>'
             '<w:unhideWhenUsed/><w:pPr><w:tabs><w:tab w:val="center" w:pos="4680"/><w:tab w:val="right" w:pos="9360"/></w:tabs></w:pPr></w:style>'
             '<w:style w:type="paragraph" w:styleId="FootnoteText"><w:name w:val="footnote text"/><w:basedOn w:val="Normal"/>'
             '<w:uiPriority w:val="99"/><w:semiHidden/><w:unhideWhenUsed/><w:rPr><w:sz w:val="20"/><w:szCs w:val="20"/></w:rPr></w:style>'
             '<w:style w:type="character" w:styleId="FootnoteReference"><w:name w:val="footnote reference"/>'
             '<w:basedOn w:val="DefaultParagraphFont"/><w:uiPriority w:val="99"/><w:semiHidden/><w:unhideWhenUsed/>'
             '<w:rPr><w:vertAlign w:val="superscript"/></w:rPr></w:style>'
             '<w:style w:type="character" w:styleId="CommentReference"><w:name w:val="annotation reference"/>'
             '<w:basedOn w:val="DefaultParagraphFont"/><w:uiPriority w:val="99"/><w:semiHidden/><w:unhideWhenUsed/>'
             '<w:rPr><w:sz w:val="16"/><w:szCs w:val="16"/></w:rPr></w:style>'
             '<w:style w:type="paragraph" w:styleId="CommentText"><w:name w:val="annotation text"/><w:basedOn w:val="Normal"/>'
             '<w:uiPriority w:val="99"/><w:unhideWhenUsed/><w:rPr><w:sz w:val="20"/><w:szCs w:val="20"/></w:rPr></w:style>'
             '</w:styles>')
    return "".join(x)


_DOCX_STYLES = _docx_styles().encode("utf-8")


def _docx_numbering(nnums: int) -> str:
    x = [XML_DECL, '<w:numbering xmlns:w="%s"><w:abstractNum w:abstractNumId="0"><w:multiLevelType w:val="hybridMultilevel"/>' % NS_W]
    bullets = ("•", "o", "–")
    for i in range(9):
        x.append('<w:lvl w:ilvl="%d"><w:start w:val="1"/><w:numFmt w:val="bullet"/><w:lvlText w:val="%s"/><w:lvlJc w:val="left"/>'
                 '<w:pPr><w:ind w:left="%d" w:hanging="360"/></w:pPr></w:lvl>' % (i, bullets[i % 3], 720 * (i + 1)))
    x.append("</w:abstractNum>")
    for n in range(1, nnums + 1):
        x.append('<w:num w:numId="%d"><w:abstractNumId w:val="0"/></w:num>' % n)
    x.append("</w:numbering>")
    return "".join(x)


_TXBX_W, _TXBX_H = 2360930, 1404620


class _Docx:
    def __init__(self, pkg, images, opts):
        self.pkg = pkg
        self.opts = opts
        self.src = "word/document.xml"
        self.pool = _ImagePool(pkg, images, opts, "word/media")
        self.imgs = _Images(self.pool, self.src, "media/", "../word/media/")
        self.annot_id = 0          # w:ins / w:del / comment ids (one ST_DecimalNumber space is the simplest valid choice)
        self.sdt_id = 0
        self.docpr_id = 0
        self.shape_id = 1025
        self.num_id = 0
        self.footnotes = []        # (id, tok)
        self.comments = []         # (id, tok)
        self.pending_comments = []  # unit comments waiting for the unit's first paragraph
        self.pending_lrpb = False
        self.lrpb = bool(opts.get("last_rendered_breaks"))
        self.in_box = 0
        self.in_link = 0

    # ---- ids
    def _annot(self):
        i = self.annot_id
        self.annot_id += 1
        return i

    def _comment(self, tok):
        i = self._annot()
        self.comments.append((i, tok))
        return i

    # ---- paragraphs
    def para(self, inlines, ppr="", raw=""):
        """One w:p. `raw` is ready-made run markup appended after the inlines. The first paragraph of a unit carries the
        unit's comments, the first paragraph after a page break the lastRenderedPageBreak marker (if enabled)."""
        pre, post = "", ""
        if not self.in_box:
            if self.pending_comments:
                ids = [self._comment(t) for t in self.pending_comments]
                self.pending_comments = []
                pre = "".join('<w:commentRangeStart w:id="%d"/>' % i for i in ids)
                post = "".join('<w:commentRangeEnd w:id="%d"/><w:r><w:rPr><w:rStyle w:val="CommentReference"/></w:rPr>'
                               '<w:commentReference w:id="%d"/></w:r>' % (i, i) for i in reversed(ids))
            if self.pending_lrpb:
                self.pending_lrpb = False
                pre += "<w:r><w:lastRenderedPageBreak/></w:r>"
        body = self.inlines(inlines, "") + raw
        return "<w:p>%s%s%s%s</w:p>" % ("<w:pPr>%s</w:pPr>" % ppr if ppr else "", pre, body, post)

    def page_break(self):
        if self.in_box:
            raise NotImplementedError("a page break cannot be expressed inside a text box")
        out = self.para([], "", raw='<w:r><w:br w:type="page"/></w:r>')
        if self.lrpb:
            self.pending_lrpb = True
        return out

    # ---- inlines
    def run_t(self, tok, rpr):
        return '<w:r>%s<w:t xml:space="preserve">%s</w:t></w:r>' % (rpr, _esc(tok))

    def inlines(self, xs, rpr):
        out = []
        for x in xs:
            k = x[0]
            if k == "t":
                out.append(self.run_t(x[1], rpr))
            elif k == "tab":
                out.append("<w:r>%s<w:tab/></w:r>" % rpr)
            elif k == "br":
                # ST_BrType: textWrapping (the default), page, column - all of them end the line
                bt = self.opts.get("br_type")
                if bt not in (None, "textWrapping", "page", "column"):
                    raise ValueError("br_type")
                out.append("<w:r>%s<w:br%s/></w:r>" % (rpr, ' w:type="%s"' % bt if bt else ""))
            elif k == "a":
                if self.in_link:
                    raise NotImplementedError("nested hyperlinks cannot be expressed in WordprocessingML")
                rid = self.pkg.rel(self.src, RT + "hyperlink", _check_url(x[1]), external=True)
                self.in_link += 1
                inner = self.inlines(x[2], '<w:rPr><w:rStyle w:val="Hyperlink"/></w:rPr>')
                self.in_link -= 1
                out.append('<w:hyperlink r:id="%s" w:history="1">%s</w:hyperlink>' % (rid, inner))
            elif k == "ins":
                out.append('<w:ins w:id="%d" w:author="%s" w:date="%s">%s</w:ins>' % (self._annot(), AUTHOR, FIXED_DATE, self.run_t(x[1], rpr)))
            elif k == "del":
                out.append('<w:del w:id="%d" w:author="%s" w:date="%s"><w:r>%s<w:delText xml:space="preserve">%s</w:delText></w:r></w:del>'
                           % (self._annot(), AUTHOR, FIXED_DATE, rpr, _esc(x[1])))
            elif k == "cref":
                if self.in_box:
                    raise NotImplementedError("Word does not allow comments inside text boxes")
                i = self._comment(x[1])
                out.append('<w:commentRangeStart w:id="%d"/><w:commentRangeEnd w:id="%d"/><w:r><w:rPr><w:rStyle w:val="CommentReference"/>'
                           '</w:rPr><w:commentReference w:id="%d"/></w:r>' % (i, i, i))
            elif k == "fn":
                if self.in_box:
                    raise NotImplementedError("Word does not allow footnotes inside text boxes")
                i = len(self.footnotes) + 1
                self.footnotes.append((i, x[1]))
                out.append('<w:r><w:rPr><w:rStyle w:val="FootnoteReference"/></w:rPr><w:footnoteReference w:id="%d"/></w:r>' % i)
            elif k == "sdt":
                self.sdt_id += 1
                sid = 100000 + self.sdt_id
                out.append('<w:sdt><w:sdtPr><w:id w:val="%d"/></w:sdtPr><w:sdtContent>%s</w:sdtContent></w:sdt>' % (sid, self.inlines(x[1], rpr)))
            elif k == "box":
                out.append(self.box(x[1]))
            elif k == "math":
                out.append(_math_xml(x[1], self.opts))
            else:
                raise NotImplementedError("DOCX inline %r" % (k,))
        return "".join(out)

    def box(self, blocks):
        if self.in_box:
            raise NotImplementedError("a text box inside a text box cannot be expressed (DrawingML shapes)")
        self.in_box += 1
        content = self.blocks(blocks, None, "box")
        self.in_box -= 1
        self.docpr_id += 1
        self.shape_id += 1
        n = self.docpr_id
        name = "Text Box %d" % n
        choice = (
            '<w:drawing><wp:anchor distT="45720" distB="45720" distL="114300" distR="114300" simplePos="0" relativeHeight="%d" '
            'behindDoc="0" locked="0" layoutInCell="1" allowOverlap="1"><wp:simplePos x="0" y="0"/>'
            '<wp:positionH relativeFrom="column"><wp:posOffset>0</wp:posOffset></wp:positionH>'
            '<wp:positionV relativeFrom="paragraph"><wp:posOffset>0</wp:posOffset></wp:positionV>'
            '<wp:extent cx="%d" cy="%d"/><wp:effectExtent l="0" t="0" r="0" b="0"/><wp:wrapSquare wrapText="bothSides"/>'
            '<wp:docPr id="%d" name="%s"/><wp:cNvGraphicFramePr/><a:graphic xmlns:a="%s">'
            '<a:graphicData uri="%s"><wps:wsp><wps:cNvSpPr txBox="1"/><wps:spPr><a:xfrm><a:off x="0" y="0"/><a:ext cx="%d" cy="%d"/></a:xfrm>'
            '<a:prstGeom prst="rect"><a:avLst/></a:prstGeom><a:solidFill><a:srgbClr val="FFFFFF"/></a:solidFill>'
            '<a:ln w="9525"><a:solidFill><a:srgbClr val="000000"/></a:solidFill></a:ln></wps:spPr>'
            '<wps:txbx><w:txbxContent>%s</w:txbxContent></wps:txbx>'
            '<wps:bodyPr rot="0" vert="horz" wrap="square" lIns="91440" tIns="45720" rIns="91440" bIns="45720" anchor="t" anchorCtr="0">'
            '<a:noAutofit/></wps:bodyPr></wps:wsp></a:graphicData></a:graphic></wp:anchor></w:drawing>'
            % (251658240 + n, _TXBX_W, _TXBX_H, n, name, NS_A, NS_WPS, _TXBX_W, _TXBX_H, content))
        fallback = (
            '<w:pict><v:shapetype id="_x0000_t202" coordsize="21600,21600" o:spt="202" path="m,l,21600r21600,l21600,xe">'
            '<v:stroke joinstyle="miter"/><v:path gradientshapeok="t" o:connecttype="rect"/></v:shapetype>'
            '<v:shape id="%s" o:spid="_x0000_s%d" type="#_x0000_t202" style="position:absolute;margin-left:0;margin-top:0;'
            'width:185.9pt;height:110.6pt;z-index:%d;visibility:visible;mso-wrap-style:square;mso-position-horizontal:absolute;'
            'mso-position-horizontal-relative:text;mso-position-vertical:absolute;mso-position-vertical-relative:text">'
            '<v:textbox><w:txbxContent>%s</w:txbxContent></v:textbox><w10:wrap type="square"/></v:shape></w:pict>'
            % (_attr(name), self.shape_id, 251658240 + n, content))
        return ('<w:r><mc:AlternateContent><mc:Choice Requires="wps">%s</mc:Choice><mc:Fallback>%s</mc:Fallback>'
                '</mc:AlternateContent></w:r>' % (choice, fallback))

    def image_para(self, key, ppr=""):
        ref, w, h, fname = self.imgs.ref(key)
        self.docpr_id += 1
        n = self.docpr_id
        cx, cy = w * 9525, h * 9525
        descr = self.pool.descr(key)
        run = ('<w:r><w:drawing><wp:inline distT="0" distB="0" distL="0" distR="0"><wp:extent cx="%d" cy="%d"/>'
               '<wp:effectExtent l="0" t="0" r="0" b="0"/><wp:docPr id="%d" name="Picture %d"%s/><wp:cNvGraphicFramePr>'
               '<a:graphicFrameLocks xmlns:a="%s" noChangeAspect="1"/></wp:cNvGraphicFramePr><a:graphic xmlns:a="%s">'
               '<a:graphicData uri="%s"><pic:pic xmlns:pic="%s"><pic:nvPicPr><pic:cNvPr id="%d" name="%s"%s/><pic:cNvPicPr/></pic:nvPicPr>'
               '<pic:blipFill><a:blip %s/><a:stretch><a:fillRect/></a:stretch></pic:blipFill><pic:spPr><a:xfrm><a:off x="0" y="0"/>'
               '<a:ext cx="%d" cy="%d"/></a:xfrm><a:prstGeom prst="rect"><a:avLst/></a:prstGeom></pic:spPr></pic:pic></a:graphicData>'
               '</a:graphic></wp:inline></w:drawing></w:r>'
               % (cx, cy, n, n, descr, NS_A, NS_A, NS_PIC, NS_PIC, n, _attr(fname), descr, ref, cx, cy))
        return self.para([], ppr, raw=run)

    # ---- blocks
    def blocks(self, bs, slot, container, top=False):
        """container: 'body' | 'cell' | 'box' | 'item'; slot: numbering state of the enclosing list item (or None).
        Returns markup; cells and boxes always end with a paragraph, two tables never touch."""
        out = []
        state = {"tbl": False}

        def put(sx):
            if sx:
                out.append(sx)
                state["tbl"] = sx.endswith("</w:tbl>")
        for b in bs:
            k = b[0]
            if k == "tbl":
                if state["tbl"]:
                    put(self.para([]))             # Word merges adjacent tables: keep them apart
                elif slot is not None and slot["fresh"]:
                    put(self.para([], self._list_ppr("", slot)))   # the bullet needs a paragraph; a table cannot carry numPr
                put(self.table(b[1], container))
            elif k == "p":
                if top and self.opts.get("block_sdt") and len(b[1]) == 1 and b[1][0][0] == "sdt":
                    self.sdt_id += 1
                    put('<w:sdt><w:sdtPr><w:id w:val="%d"/></w:sdtPr><w:sdtContent>%s</w:sdtContent></w:sdt>'
                        % (100000 + self.sdt_id, self.para(b[1][0][1])))
                else:
                    put(self.para(b[1], self._list_ppr("", slot)))
            elif k == "h":
                lvl = b[1]
                if lvl not in (1, 2, 3):
                    raise NotImplementedError("heading level %r" % (lvl,))
                put(self.para(b[2], self._list_ppr('<w:pStyle w:val="Heading%d"/>' % lvl, slot)))
            elif k == "img":
                put(self.image_para(b[1], self._list_ppr("", slot)))
            elif k == "pb":
                put(self.page_break())
            elif k == "ul":
                sx = self.ulist(b[1], slot)
                if state["tbl"] and sx.startswith("<w:tbl>"):
                    put(self.para([]))
                put(sx)
            else:
                raise NotImplementedError("DOCX block %r" % (k,))
        if container in ("cell", "box") and (state["tbl"] or not out):
            put(self.para([]))                     # w:tc / w:txbxContent must end with (contain) a paragraph
        if container == "body" and state["tbl"]:
            put(self.para([]))                     # Word always has a paragraph after a table at the end of the body
        return "".join(out)

    def _list_ppr(self, style, slot):
        """pPr children for a paragraph inside a list item: the first paragraph of an item carries w:numPr,
        the following ones are continuation paragraphs (indented, unnumbered)."""
        if slot is None:
            return style
        level = slot["level"]
        if slot["fresh"]:
            slot["fresh"] = False
            return ((style or '<w:pStyle w:val="ListParagraph"/>') +
                    '<w:numPr><w:ilvl w:val="%d"/><w:numId w:val="%d"/></w:numPr>' % (level, slot["num"]))
        return (style or '<w:pStyle w:val="ListParagraph"/>') + '<w:ind w:left="%d"/>' % (720 * (level + 1))

    def ulist(self, items, parent_slot):
        if parent_slot is None:
            self.num_id += 1
            num, level = self.num_id, 0
        else:
            num = parent_slot["num"]
            level = parent_slot["level"] + 1
            parent_slot["fresh"] = False     # an item that starts with a nested list has no paragraph of its own
        if level > 8:
            raise NotImplementedError("list nesting deeper than 9 levels")
        out = []
        for item in items:
            slot = {"num": num, "fresh": True, "level": level}
            sx = self.blocks(item, slot, "item")
            if not sx:
                sx = self.para([], self._list_ppr("", slot))      # an empty item is an empty bullet paragraph
            if out and out[-1].endswith("</w:tbl>") and sx.startswith("<w:tbl>"):
                out.append(self.para([]))
            out.append(sx)
        return "".join(out)

    def table(self, rows, container):
        ncols = max([len(r) for r in rows] + [1])
        total = 9360 if container == "body" else 4000
        cw = max(total // ncols, 200)
        x = ['<w:tbl><w:tblPr><w:tblStyle w:val="TableGrid"/><w:tblW w:w="0" w:type="auto"/></w:tblPr><w:tblGrid>',
             '<w:gridCol w:w="%d"/>' % cw * ncols, "</w:tblGrid>"]
        if not rows:
            raise NotImplementedError("a table without rows cannot be expressed (w:tbl needs a w:tr)")
        for row in rows:
            if not row:
                raise NotImplementedError("a table row without cells cannot be expressed (w:tr needs a w:tc)")
            x.append("<w:tr>")
            if len(row) < ncols:
                x.append('<w:trPr><w:gridAfter w:val="%d"/></w:trPr>' % (ncols - len(row)))
            for cell in row:
                x.append('<w:tc><w:tcPr><w:tcW w:w="%d" w:type="dxa"/></w:tcPr>' % cw)
                inner = self.blocks(cell, None, "cell")
                if self.opts.get("cell_sdt"):
                    # the cell's whole content inside one block-level content control (CT_SdtCell's sibling: w:tc/w:sdt/w:sdtContent)
                    self.sdt_id += 1
                    inner = ('<w:sdt><w:sdtPr><w:id w:val="%d"/></w:sdtPr><w:sdtContent>%s</w:sdtContent></w:sdt>'
                             % (100000 + self.sdt_id, inner))
                x.append(inner)
                x.append("</w:tc>")
            x.append("</w:tr>")
        x.append("</w:tbl>")
        return "".join(x)


def _docx_hdrftr(tag, style, tok):
    return (XML_DECL + '<w:%s %s><w:p><w:pPr><w:pStyle w:val="%s"/></w:pPr><w:r><w:t xml:space="preserve">%s</w:t></w:r></w:p></w:%s>'
            % (tag, _W_NS_SMALL, style, _esc(tok), tag))


def docx(doc, images=None, opts=None) -> bytes:
    """ADM -> WordprocessingML package. Units are separated by a page-break paragraph."""
    opts = _check_opts(opts, OPTS_DOCX)
    if doc[0] != "doc":
        raise ValueError("not an ADM document")
    meta = _check_meta(doc[1], _META_CORE + ("header", "footer"), "DOCX")
    pkg = _Package(stored=bool(opts.get("zip_stored")))
    src = "word/document.xml"
    pkg.rel("", RT + "officeDocument", src)
    _add_core(pkg, meta, opts)
    pkg.rel(src, RT + "styles", "styles.xml")
    pkg.rel(src, RT + "settings", "settings.xml")
    # fixed relationship ids for the optional parts are reserved now so that they precede images / hyperlinks
    wr = _Docx(pkg, images, opts)
    hdr_rid = pkg.rel(src, RT + "header", "header1.xml") if meta.get("header") else None
    ftr_rid = pkg.rel(src, RT + "footer", "footer1.xml") if meta.get("footer") else None
    body = []
    units = doc[2]
    for ui, u in enumerate(units):
        if u[0] != "unit":
            raise NotImplementedError("DOCX cannot express unit kind %r" % (u[0],))
        extras = (u[2] if len(u) > 2 else None) or {}
        for k, v in extras.items():
            if v and k != "comments":
                raise NotImplementedError("DOCX cannot express unit extra %r" % (k,))
        if ui:
            body.append(wr.page_break())
        wr.pending_comments = list(extras.get("comments") or [])
        sx = wr.blocks(u[1], None, "body", top=True)
        if wr.pending_comments:          # the unit produced no paragraph: give the comments an (empty) anchor paragraph
            sx += wr.para([])
        body.append(sx)
    if not "".join(body):
        body.append("<w:p/>")
    sect = ["<w:sectPr>"]
    if hdr_rid:
        sect.append('<w:headerReference w:type="default" r:id="%s"/>' % hdr_rid)
    if ftr_rid:
        sect.append('<w:footerReference w:type="default" r:id="%s"/>' % ftr_rid)
    sect.append('<w:pgSz w:w="12240" w:h="15840"/><w:pgMar w:top="1440" w:right="1440" w:bottom="1440" w:left="1440" '
                'w:header="720" w:footer="720" w:gutter="0"/></w:sectPr>')
    # optional parts and their relationships
    if wr.num_id:
        pkg.rel(src, RT + "numbering", "numbering.xml")
    if wr.footnotes:
        pkg.rel(src, RT + "footnotes", "footnotes.xml")
    if wr.comments:
        pkg.rel(src, RT + "comments", "comments.xml")
    document = (XML_DECL + "<w:document %s><w:body>%s%s</w:body></w:document>" % (_W_ROOT_NS, "".join(body), "".join(sect)))
    pkg.parts.insert(1, (src, document.encode("utf-8")))
    pkg.names.add(src)
    pkg.overrides.insert(1, ("/" + src, CT_W + "document.main+xml"))
    pkg.add("word/styles.xml", _DOCX_STYLES, CT_W + "styles+xml")
    settings = (XML_DECL + '<w:settings xmlns:w="%s"><w:zoom w:percent="100"/><w:defaultTabStop w:val="720"/>'
                '<w:characterSpacingControl w:val="doNotCompress"/>%s<w:compat><w:compatSetting w:name="compatibilityMode" '
                'w:uri="http://schemas.microsoft.com/office/word" w:val="15"/></w:compat></w:settings>'
                % (NS_W, '<w:footnotePr><w:footnote w:id="-1"/><w:footnote w:id="0"/></w:footnotePr>' if wr.footnotes else ""))
    pkg.add("word/settings.xml", settings, CT_W + "settings+xml")
    if wr.num_id:
        pkg.add("word/numbering.xml", _docx_numbering(wr.num_id), CT_W + "numbering+xml")
    if wr.footnotes:
        x = [XML_DECL, "<w:footnotes %s>" % _W_NS_SMALL,
             '<w:footnote w:type="separator" w:id="-1"><w:p><w:pPr><w:spacing w:after="0" w:line="240" w:lineRule="auto"/></w:pPr>'
             '<w:r><w:separator/></w:r></w:p></w:footnote>'
             '<w:footnote w:type="continuationSeparator" w:id="0"><w:p><w:pPr><w:spacing w:after="0" w:line="240" w:lineRule="auto"/></w:pPr>'
             '<w:r><w:continuationSeparator/></w:r></w:p></w:footnote>']
        for i, tok in wr.footnotes:
            x.append('<w:footnote w:id="%d"><w:p><w:pPr><w:pStyle w:val="FootnoteText"/></w:pPr><w:r><w:rPr>'
                     '<w:rStyle w:val="FootnoteReference"/></w:rPr><w:footnoteRef/></w:r><w:r><w:t xml:space="preserve"> </w:t></w:r>'
                     '<w:r><w:t xml:space="preserve">%s</w:t></w:r></w:p></w:footnote>' % (i, _esc(tok)))
        x.append("</w:footnotes>")
        pkg.add("word/footnotes.xml", "".join(x), CT_W + "footnotes+xml")
    if wr.comments:
        x = [XML_DECL, "<w:comments %s>" % _W_NS_SMALL]
        for i, tok in sorted(wr.comments):
            x.append('<w:comment w:id="%d" w:author="%s" w:date="%s" w:initials="V"><w:p><w:pPr><w:pStyle w:val="CommentText"/></w:pPr>'
                     '<w:r><w:rPr><w:rStyle w:val="CommentReference"/></w:rPr><w:annotationRef/></w:r>'
                     '<w:r><w:t xml:space="preserve">%s</w:t></w:r></w:p></w:comment>' % (i, AUTHOR, FIXED_DATE, _esc(tok)))
        x.append("</w:comments>")
        pkg.add("word/comments.xml", "".join(x), CT_W + "comments+xml")
    if hdr_rid:
        pkg.add("word/header1.xml", _docx_hdrftr("hdr", "Header", meta["header"]), CT_W + "header+xml")
    if ftr_rid:
        pkg.add("word/footer1.xml", _docx_hdrftr("ftr", "Footer", meta["footer"]), CT_W + "footer+xml")
    return pkg.tobytes()


# ============================================================================================== PPTX

_P_NS = 'xmlns:a="%s" xmlns:r="%s" xmlns:p="%s"' % (NS_A, NS_R, NS_P)
_SLIDE_W, _SLIDE_H = 9144000, 6858000
_SP_TREE_HEAD = ('<p:nvGrpSpPr><p:cNvPr id="1" name=""/><p:cNvGrpSpPr/><p:nvPr/></p:nvGrpSpPr><p:grpSpPr><a:xfrm><a:off x="0" y="0"/>'
                 '<a:ext cx="0" cy="0"/><a:chOff x="0" y="0"/><a:chExt cx="0" cy="0"/></a:xfrm></p:grpSpPr>')
_CLR_MAP = ('<p:clrMap bg1="lt1" tx1="dk1" bg2="lt2" tx2="dk2" accent1="accent1" accent2="accent2" accent3="accent3" '
            'accent4="accent4" accent5="accent5" accent6="accent6" hlink="hlink" folHlink="folHlink"/>')


def _theme_xml(name="Office Theme") -> str:
    x = [XML_DECL, '<a:theme xmlns:a="%s" name="%s"><a:themeElements><a:clrScheme name="Office">' % (NS_A, name),
         '<a:dk1><a:sysClr val="windowText" lastClr="000000"/></a:dk1><a:lt1><a:sysClr val="window" lastClr="FFFFFF"/></a:lt1>'
         '<a:dk2><a:srgbClr val="44546A"/></a:dk2><a:lt2><a:srgbClr val="E7E6E6"/></a:lt2>']
    for i, c in enumerate(("4472C4", "ED7D31", "A5A5A5", "FFC000", "5B9BD5", "70AD47"), 1):
        x.append('<a:accent%d><a:srgbClr val="%s"/></a:accent%d>' % (i, c, i))
    x.append('<a:hlink><a:srgbClr val="0563C1"/></a:hlink><a:folHlink><a:srgbClr val="954F72"/></a:folHlink></a:clrScheme>'
             '<a:fontScheme name="Office"><a:majorFont><a:latin typeface="Calibri Light"/><a:ea typeface=""/><a:cs typeface=""/></a:majorFont>'
             '<a:minorFont><a:latin typeface="Calibri"/><a:ea typeface=""/><a:cs typeface=""/></a:minorFont></a:fontScheme>'
             '<a:fmtScheme name="Office"><a:fillStyleLst>' + '<a:solidFill><a:schemeClr val="phClr"/></a:solidFill>' * 3 +
             '</a:fillStyleLst><a:lnStyleLst>' + '<a:ln w="6350"><a:solidFill><a:schemeClr val="phClr"/></a:solidFill></a:ln>' * 3 +
             '</a:lnStyleLst><a:effectStyleLst>' + '<a:effectStyle><a:effectLst/></a:effectStyle>' * 3 +
             '</a:effectStyleLst><a:bgFillStyleLst>' + '<a:solidFill><a:schemeClr val="phClr"/></a:solidFill>' * 3 +
             '</a:bgFillStyleLst></a:fmtScheme></a:themeElements></a:theme>')
    return "".join(x)


_THEME = _theme_xml().encode("utf-8")


def _ph_sp(sid, name, ph, x, y, cx, cy, text=""):
    body = ('<p:txBody><a:bodyPr/><a:lstStyle/><a:p>%s</a:p></p:txBody>'
            % ('<a:r><a:rPr lang="en-US"/><a:t>%s</a:t></a:r>' % text if text else '<a:endParaRPr lang="en-US"/>'))
    return ('<p:sp><p:nvSpPr><p:cNvPr id="%d" name="%s"/><p:cNvSpPr><a:spLocks noGrp="1"/></p:cNvSpPr><p:nvPr>%s</p:nvPr></p:nvSpPr>'
            '<p:spPr><a:xfrm><a:off x="%d" y="%d"/><a:ext cx="%d" cy="%d"/></a:xfrm><a:prstGeom prst="rect"><a:avLst/></a:prstGeom></p:spPr>%s</p:sp>'
            % (sid, name, ph, x, y, cx, cy, body))


def _pptx_master() -> str:
    return (XML_DECL + '<p:sldMaster %s><p:cSld><p:bg><p:bgRef idx="1001"><a:schemeClr val="bg1"/></p:bgRef></p:bg><p:spTree>%s%s%s</p:spTree></p:cSld>%s'
            '<p:sldLayoutIdLst><p:sldLayoutId id="2147483649" r:id="rId1"/></p:sldLayoutIdLst>'
            '<p:txStyles><p:titleStyle><a:lvl1pPr algn="l"><a:buNone/><a:defRPr sz="4400"/></a:lvl1pPr></p:titleStyle><p:bodyStyle>%s</p:bodyStyle>'
            '<p:otherStyle/></p:txStyles></p:sldMaster>'
            % (_P_NS, _SP_TREE_HEAD,
               _ph_sp(2, "Title Placeholder 1", '<p:ph type="title"/>', 628650, 365125, 7886700, 1325563),
               _ph_sp(3, "Text Placeholder 2", '<p:ph type="body" idx="1"/>', 628650, 1825625, 7886700, 4351338),
               _CLR_MAP,
               "".join('<a:lvl%dpPr marL="%d" indent="-228600"><a:buFont typeface="Arial"/><a:buChar char="&#8226;"/><a:defRPr sz="%d"/></a:lvl%dpPr>'
                       % (i, 228600 + 457200 * (i - 1), max(2800 - 400 * (i - 1), 1800), i) for i in range(1, 10))))


def _pptx_layout(nbody: int) -> str:
    sps = [_ph_sp(2, "Title 1", '<p:ph type="title"/>', 628650, 365125, 7886700, 1325563)]
    h = 4351338 // max(nbody, 1)
    for i in range(1, nbody + 1):
        sps.append(_ph_sp(2 + i, "Text Placeholder %d" % (i + 1), '<p:ph type="body" idx="%d"/>' % i, 628650, 1825625 + (i - 1) * h, 7886700, h))
    return (XML_DECL + '<p:sldLayout %s preserve="1"><p:cSld name="Title and Content"><p:spTree>%s%s</p:spTree></p:cSld>'
            '<p:clrMapOvr><a:masterClrMapping/></p:clrMapOvr></p:sldLayout>' % (_P_NS, _SP_TREE_HEAD, "".join(sps)))


def _pptx_notes_master() -> str:
    return (XML_DECL + '<p:notesMaster %s><p:cSld><p:bg><p:bgRef idx="1001"><a:schemeClr val="bg1"/></p:bgRef></p:bg><p:spTree>%s%s%s</p:spTree></p:cSld>%s</p:notesMaster>'
            % (_P_NS, _SP_TREE_HEAD,
               '<p:sp><p:nvSpPr><p:cNvPr id="2" name="Slide Image Placeholder 1"/><p:cNvSpPr><a:spLocks noGrp="1" noRot="1" noChangeAspect="1"/>'
               '</p:cNvSpPr><p:nvPr><p:ph type="sldImg" idx="2"/></p:nvPr></p:nvSpPr><p:spPr><a:xfrm><a:off x="685800" y="1143000"/>'
               '<a:ext cx="5486400" cy="3086100"/></a:xfrm><a:prstGeom prst="rect"><a:avLst/></a:prstGeom></p:spPr></p:sp>',
               _ph_sp(3, "Notes Placeholder 2", '<p:ph type="body" sz="quarter" idx="3"/>', 685800, 4400550, 5486400, 3600450),
               _CLR_MAP))


class _Slide:
    X0, W, STEP, H = 457200, 8229600, 500000, 400000

    def __init__(self, pkg, pool, opts, name):
        self.pkg = pkg
        self.pool = pool
        self.opts = opts
        self.src = name
        self.imgs = _Images(pool, name, "../media/", "../../ppt/media/")
        self.no_off = bool(opts.get("no_offsets"))
        self.sid = 1
        self.slot = 0
        self.nbody = 0
        self.has_title = False
        self.math = False          # set while rendering a shape whose text holds a formula

    def _ids(self):
        self.sid += 1
        return self.sid

    def _xfrm(self, cx=None, cy=None, tag="a:xfrm"):
        """every shape gets the next vertical slot (source order = top-to-bottom order)"""
        y = 200000 + self.slot * self.STEP
        self.slot += 1
        if self.no_off:
            return "", y
        return ('<%s><a:off x="%d" y="%d"/><a:ext cx="%d" cy="%d"/></%s>' % (tag, self.X0, y, cx or self.W, cy or self.H, tag)), y

    # ---- text
    def runs(self, xs, link=None):
        out = []
        rpr = '<a:rPr lang="en-US"><a:hlinkClick r:id="%s"/></a:rPr>' % link if link else ""
        for x in xs:
            k = x[0]
            if k == "t":
                out.append("<a:r>%s<a:t>%s</a:t></a:r>" % (rpr, _esc(x[1])))
            elif k == "tab":
                out.append("<a:r>%s<a:t>\t</a:t></a:r>" % rpr)
            elif k == "br":
                out.append("<a:br/>")
            elif k == "a":
                if link:
                    raise NotImplementedError("nested hyperlinks cannot be expressed in DrawingML text")
                rid = self.pkg.rel(self.src, RT + "hyperlink", _check_url(x[1]), external=True)
                out.append(self.runs(x[2], rid))
            elif k == "math":
                if link:
                    raise NotImplementedError("a formula inside a hyperlink run cannot be expressed in DrawingML text")
                self.math = True
                out.append("<a14:m>%s</a14:m>" % _math_xml(x[1], self.opts))
            else:
                raise NotImplementedError("PPTX inline %r" % (k,))
        return "".join(out)

    def a_p(self, inlines, ppr=""):
        return "<a:p>%s%s</a:p>" % (ppr, self.runs(inlines))

    def _wrap_math(self, shape, sid, name, nvpr, cnv, xfrm):
        """PowerPoint wraps a shape whose text holds a14:m in mc:AlternateContent; the fallback shape shows a picture of it."""
        if not self.math:
            return shape
        self.math = False
        fill = ""
        if self.opts.get("math_fallback_image", True):
            fname = self.pool.new_part(PNG_1X1, "png")
            rid = self.pkg.rel(self.src, RT + "image", "../media/" + fname)
            fill = '<a:blipFill><a:blip r:embed="%s"/><a:stretch><a:fillRect/></a:stretch></a:blipFill>' % rid
        locks = ('<a:spLocks noRot="1" noChangeAspect="1" noMove="1" noResize="1" noEditPoints="1" noAdjustHandles="1" '
                 'noChangeArrowheads="1" noChangeShapeType="1" noTextEdit="1"/>')
        fb = ('<p:sp><p:nvSpPr><p:cNvPr id="%d" name="%s"/><p:cNvSpPr%s>%s</p:cNvSpPr><p:nvPr>%s</p:nvPr></p:nvSpPr>'
              '<p:spPr>%s<a:prstGeom prst="rect"><a:avLst/></a:prstGeom>%s</p:spPr><p:txBody><a:bodyPr/><a:lstStyle/>'
              '<a:p><a:r><a:rPr lang="en-US"><a:noFill/></a:rPr><a:t> </a:t></a:r></a:p></p:txBody></p:sp>'
              % (sid, name, cnv, locks, nvpr, xfrm, fill))
        return ('<mc:AlternateContent xmlns:mc="%s" xmlns:a14="%s"><mc:Choice Requires="a14">%s</mc:Choice><mc:Fallback>%s</mc:Fallback>'
                '</mc:AlternateContent>' % (NS_MC, NS_A14, shape, fb))

    # ---- shapes
    def title(self, inlines):
        sid = self._ids()
        xfrm, _ = self._xfrm()
        name = "Title %d" % (sid - 1)
        nvpr = '<p:ph type="title"/>'
        sp = ('<p:sp><p:nvSpPr><p:cNvPr id="%d" name="%s"/><p:cNvSpPr><a:spLocks noGrp="1"/></p:cNvSpPr><p:nvPr>%s</p:nvPr></p:nvSpPr>'
              '<p:spPr>%s</p:spPr><p:txBody><a:bodyPr/><a:lstStyle/>%s</p:txBody></p:sp>' % (sid, name, nvpr, xfrm, self.a_p(inlines)))
        return self._wrap_math(sp, sid, name, nvpr, "", xfrm)

    def textbox(self, inlines):
        sid = self._ids()
        xfrm, _ = self._xfrm()
        name = "TextBox %d" % (sid - 1)
        sp = ('<p:sp><p:nvSpPr><p:cNvPr id="%d" name="%s"/><p:cNvSpPr txBox="1"/><p:nvPr/></p:nvSpPr><p:spPr>%s'
              '<a:prstGeom prst="rect"><a:avLst/></a:prstGeom><a:noFill/></p:spPr><p:txBody><a:bodyPr wrap="square" rtlCol="0">'
              '<a:spAutoFit/></a:bodyPr><a:lstStyle/>%s</p:txBody></p:sp>' % (sid, name, xfrm, self.a_p(inlines)))
        return self._wrap_math(sp, sid, name, "", ' txBox="1"', xfrm)

    def body(self, items):
        self.nbody += 1
        sid = self._ids()
        xfrm, _ = self._xfrm()
        name = "Content Placeholder %d" % (sid - 1)
        nvpr = '<p:ph type="body" idx="%d"/>' % self.nbody
        paras = []
        self._items(items, 0, paras)
        if not paras:
            paras.append("<a:p/>")
        sp = ('<p:sp><p:nvSpPr><p:cNvPr id="%d" name="%s"/><p:cNvSpPr><a:spLocks noGrp="1"/></p:cNvSpPr><p:nvPr>%s</p:nvPr></p:nvSpPr>'
              '<p:spPr>%s</p:spPr><p:txBody><a:bodyPr/><a:lstStyle/>%s</p:txBody></p:sp>' % (sid, name, nvpr, xfrm, "".join(paras)))
        return self._wrap_math(sp, sid, name, nvpr, "", xfrm)

    def _items(self, items, lvl, paras):
        if lvl > 8:
            raise NotImplementedError("DrawingML text has 9 list levels")
        lv = ' lvl="%d"' % lvl if lvl else ""
        for item in items:
            first = True
            if not item:
                paras.append("<a:p>%s</a:p>" % ("<a:pPr%s/>" % lv if lv else ""))
            for b in item:
                if b[0] == "p":
                    if first:
                        ppr = "<a:pPr%s/>" % lv if lv else ""
                    else:       # continuation paragraph of the same item: same level, no bullet
                        ppr = '<a:pPr%s><a:buNone/></a:pPr>' % lv
                    paras.append(self.a_p(b[1], ppr))
                elif b[0] == "ul":
                    self._items(b[1], lvl + 1, paras)
                else:
                    raise NotImplementedError("PPTX list items hold paragraphs and nested lists only, not %r" % (b[0],))
                first = False

    def table(self, rows):
        if not rows or not rows[0]:
            raise NotImplementedError("a DrawingML table needs at least one row and one column")
        ncols = len(rows[0])
        sid = self._ids()
        cw = self.W // ncols
        rh = 370840
        if self.no_off:
            self.slot += 1
            xfrm = '<p:xfrm><a:off x="0" y="0"/><a:ext cx="0" cy="0"/></p:xfrm>'     # p:xfrm is mandatory on a graphic frame
        else:
            xfrm, _ = self._xfrm(cw * ncols, rh * len(rows), tag="p:xfrm")
        x = ['<p:graphicFrame><p:nvGraphicFramePr><p:cNvPr id="%d" name="Table %d"/><p:cNvGraphicFramePr><a:graphicFrameLocks noGrp="1"/>'
             '</p:cNvGraphicFramePr><p:nvPr/></p:nvGraphicFramePr>%s<a:graphic><a:graphicData uri="http://schemas.openxmlformats.org/drawingml/2006/table">'
             '<a:tbl><a:tblPr firstRow="1" bandRow="1"/><a:tblGrid>%s</a:tblGrid>' % (sid, sid - 1, xfrm, '<a:gridCol w="%d"/>' % cw * ncols)]
        for row in rows:
            if len(row) != ncols:
                raise NotImplementedError("ragged table rows cannot be expressed in a DrawingML table")
            x.append('<a:tr h="%d">' % rh)
            for cell in row:
                paras = []
                for b in cell:
                    if b[0] != "p":
                        raise NotImplementedError("PPTX table cells hold paragraphs only, not %r" % (b[0],))
                    paras.append(self.a_p(b[1]))
                    if self.math:
                        raise NotImplementedError("a formula inside a PPTX table cell is not expressed by this writer")
                x.append("<a:tc><a:txBody><a:bodyPr/><a:lstStyle/>%s</a:txBody><a:tcPr/></a:tc>" % ("".join(paras) or "<a:p/>"))
            x.append("</a:tr>")
        x.append("</a:tbl></a:graphicData></a:graphic></p:graphicFrame>")
        return "".join(x)

    def picture(self, key):
        ref, w, h, fname = self.imgs.ref(key)
        sid = self._ids()
        xfrm, _ = self._xfrm(w * 9525, h * 9525)
        return ('<p:pic><p:nvPicPr><p:cNvPr id="%d" name="Picture %d"%s/><p:cNvPicPr><a:picLocks noChangeAspect="1"/></p:cNvPicPr><p:nvPr/>'
                '</p:nvPicPr><p:blipFill><a:blip %s/><a:stretch><a:fillRect/></a:stretch></p:blipFill><p:spPr>%s<a:prstGeom prst="rect">'
                '<a:avLst/></a:prstGeom></p:spPr></p:pic>' % (sid, sid - 1, self.pool.descr(key), ref, xfrm))

    def render(self, blocks):
        out = []
        for b in blocks:
            k = b[0]
            if k == "h":
                if self.has_title:
                    raise NotImplementedError("a slide has one title placeholder; a second heading cannot be expressed")
                if b[1] not in (1, 2, 3):
                    raise NotImplementedError("heading level %r" % (b[1],))
                self.has_title = True
                out.append(self.title(b[2]))
            elif k == "p":
                out.append(self.textbox(b[1]))
            elif k == "ul":
                out.append(self.body(b[1]))
            elif k == "tbl":
                out.append(self.table(b[1]))
            elif k == "img":
                out.append(self.picture(b[1]))
            else:
                raise NotImplementedError("PPTX block %r" % (k,))
        return (XML_DECL + '<p:sld %s><p:cSld><p:spTree>%s%s</p:spTree></p:cSld><p:clrMapOvr><a:masterClrMapping/></p:clrMapOvr></p:sld>'
                % (_P_NS, _SP_TREE_HEAD, "".join(out)))


def pptx(doc, images=None, opts=None) -> bytes:
    """ADM -> PresentationML package; one slide per unit."""
    opts = _check_opts(opts, OPTS_PPTX)
    if doc[0] != "doc":
        raise ValueError("not an ADM document")
    meta = _check_meta(doc[1], _META_CORE, "PPTX")
    pkg = _Package(stored=bool(opts.get("zip_stored")))
    pres = "ppt/presentation.xml"
    pkg.rel("", RT + "officeDocument", pres)
    _add_core(pkg, meta, opts)
    pool = _ImagePool(pkg, images, opts, "ppt/media")
    numbering = opts.get("comment_part_numbering", "sequential")
    if numbering not in ("sequential", "slide"):
        raise ValueError("comment_part_numbering")
    units = doc[2]
    # the part name of a slide is arbitrary: presentation order is p:sldIdLst alone (tools that move slides do not rename parts)
    spn = opts.get("slide_part_numbers", "order")
    if spn not in ("order", "reversed", "gapped"):
        raise ValueError("slide_part_numbers")
    pn = {"order": lambda i: i, "reversed": lambda i: len(units) + 1 - i, "gapped": lambda i: 2 * i + 8}[spn]
    master_rid = pkg.rel(pres, RT + "slideMaster", "slideMasters/slideMaster1.xml")
    slides, notes_parts, comment_parts = [], [], []
    max_body = 1
    ncomments = 0
    for i, u in enumerate(units, 1):
        if u[0] != "unit":
            raise NotImplementedError("PPTX cannot express unit kind %r" % (u[0],))
        extras = (u[2] if len(u) > 2 else None) or {}
        for k, v in extras.items():
            if v and k not in ("notes", "comments"):
                raise NotImplementedError("PPTX cannot express unit extra %r" % (k,))
        name = "ppt/slides/slide%d.xml" % pn(i)
        pkg.rel(name, RT + "slideLayout", "../slideLayouts/slideLayout1.xml")
        if extras.get("notes"):
            n = len(notes_parts) + 1
            nname = "ppt/notesSlides/notesSlide%d.xml" % n
            pkg.rel(name, RT + "notesSlide", "../notesSlides/notesSlide%d.xml" % n)
            pkg.rel(nname, RT + "notesMaster", "../notesMasters/notesMaster1.xml")
            pkg.rel(nname, RT + "slide", "../slides/slide%d.xml" % pn(i))
            paras = "".join("<a:p><a:r><a:t>%s</a:t></a:r></a:p>" % _esc(t) for t in extras["notes"])
            notes_parts.append((nname, XML_DECL + (
                '<p:notes %s><p:cSld><p:spTree>%s<p:sp><p:nvSpPr><p:cNvPr id="2" name="Slide Image Placeholder 1"/><p:cNvSpPr>'
                '<a:spLocks noGrp="1" noRot="1" noChangeAspect="1"/></p:cNvSpPr><p:nvPr><p:ph type="sldImg"/></p:nvPr></p:nvSpPr><p:spPr/></p:sp>'
                '<p:sp><p:nvSpPr><p:cNvPr id="3" name="Notes Placeholder 2"/><p:cNvSpPr><a:spLocks noGrp="1"/></p:cNvSpPr><p:nvPr>'
                '<p:ph type="body" idx="1"/></p:nvPr></p:nvSpPr><p:spPr/><p:txBody><a:bodyPr/><a:lstStyle/>%s</p:txBody></p:sp></p:spTree></p:cSld>'
                '<p:clrMapOvr><a:masterClrMapping/></p:clrMapOvr></p:notes>' % (_P_NS, _SP_TREE_HEAD, paras))))
        if extras.get("comments"):
            n = pn(i) if numbering == "slide" else len(comment_parts) + 1
            pkg.rel(name, RT + "comments", "../comments/comment%d.xml" % n)
            cms = []
            for t in extras["comments"]:
                ncomments += 1
                cms.append('<p:cm authorId="0" dt="2020-01-01T00:00:00.000" idx="%d"><p:pos x="10" y="10"/><p:text>%s</p:text></p:cm>'
                           % (ncomments, _esc(t)))
            comment_parts.append(("ppt/comments/comment%d.xml" % n, XML_DECL + "<p:cmLst %s>%s</p:cmLst>" % (_P_NS, "".join(cms))))
        sl = _Slide(pkg, pool, opts, name)
        xml = sl.render(u[1])
        max_body = max(max_body, sl.nbody)
        slides.append((name, xml))
    slide_rids = [pkg.rel(pres, RT + "slide", "slides/slide%d.xml" % pn(i)) for i in range(1, len(units) + 1)]
    notes_rid = pkg.rel(pres, RT + "notesMaster", "notesMasters/notesMaster1.xml") if notes_parts else None
    if comment_parts:
        pkg.rel(pres, RT + "commentAuthors", "commentAuthors.xml")
    pkg.rel(pres, RT + "theme", "theme/theme1.xml")
    x = [XML_DECL, '<p:presentation %s saveSubsetFonts="1"><p:sldMasterIdLst><p:sldMasterId id="2147483648" r:id="%s"/></p:sldMasterIdLst>' % (_P_NS, master_rid)]
    if notes_rid:
        x.append('<p:notesMasterIdLst><p:notesMasterId r:id="%s"/></p:notesMasterIdLst>' % notes_rid)
    if slide_rids:
        x.append("<p:sldIdLst>%s</p:sldIdLst>" % "".join('<p:sldId id="%d" r:id="%s"/>' % (256 + i, r) for i, r in enumerate(slide_rids)))
    x.append('<p:sldSz cx="%d" cy="%d"/><p:notesSz cx="6858000" cy="9144000"/></p:presentation>' % (_SLIDE_W, _SLIDE_H))
    # parts, in the order PowerPoint writes them
    media = pkg.parts[1:]            # [core, media...] so far
    del pkg.parts[1:]
    pkg.add(pres, "".join(x), CT_P + "presentation.main+xml")
    if comment_parts:
        pkg.add("ppt/commentAuthors.xml", XML_DECL + '<p:cmAuthorLst %s><p:cmAuthor id="0" name="%s" initials="V" lastIdx="%d" clrIdx="0"/></p:cmAuthorLst>'
                % (_P_NS, AUTHOR, ncomments), CT_P + "commentAuthors+xml")
    pkg.add("ppt/slideMasters/slideMaster1.xml", _pptx_master(), CT_P + "slideMaster+xml")
    pkg.rel("ppt/slideMasters/slideMaster1.xml", RT + "slideLayout", "../slideLayouts/slideLayout1.xml")
    pkg.rel("ppt/slideMasters/slideMaster1.xml", RT + "theme", "../theme/theme1.xml")
    pkg.add("ppt/slideLayouts/slideLayout1.xml", _pptx_layout(max_body), CT_P + "slideLayout+xml")
    pkg.rel("ppt/slideLayouts/slideLayout1.xml", RT + "slideMaster", "../slideMasters/slideMaster1.xml")
    pkg.add("ppt/theme/theme1.xml", _THEME, CT_THEME)
    if notes_parts:
        pkg.add("ppt/notesMasters/notesMaster1.xml", _pptx_notes_master(), CT_P + "notesMaster+xml")
        pkg.rel("ppt/notesMasters/notesMaster1.xml", RT + "theme", "../theme/theme2.xml")
        pkg.add("ppt/theme/theme2.xml", _THEME, CT_THEME)
    for name, xml in slides:
        pkg.add(name, xml, CT_P + "slide+xml")
    for name, xml in notes_parts:
        pkg.add(name, xml, CT_P + "notesSlide+xml")
    for name, xml in comment_parts:
        pkg.add(name, xml, CT_P + "comments+xml")
    pkg.parts.extend(media)
    return pkg.tobytes()


# ============================================================================================== XLSX

XLSX_ERRORS = ("#NULL!", "#DIV/0!", "#VALUE!", "#REF!", "#NAME?", "#NUM!", "#N/A", "#GETTING_DATA")
# cellXfs indices of styles.xml
XF_GENERAL, XF_DATE, XF_DATETIME, XF_TIME, XF_DURATION = 0, 1, 2, 3, 4
_XLSX_STYLES = (XML_DECL + '<styleSheet xmlns="%s"><numFmts count="1"><numFmt numFmtId="164" formatCode="[h]:mm:ss"/></numFmts>'
                '<fonts count="1"><font><sz val="11"/><name val="Calibri"/><family val="2"/></font></fonts>'
                '<fills count="2"><fill><patternFill patternType="none"/></fill><fill><patternFill patternType="gray125"/></fill></fills>'
                '<borders count="1"><border><left/><right/><top/><bottom/><diagonal/></border></borders>'
                '<cellStyleXfs count="1"><xf numFmtId="0" fontId="0" fillId="0" borderId="0"/></cellStyleXfs>'
                '<cellXfs count="5"><xf numFmtId="0" fontId="0" fillId="0" borderId="0" xfId="0"/>'
                '<xf numFmtId="14" fontId="0" fillId="0" borderId="0" xfId="0" applyNumberFormat="1"/>'
                '<xf numFmtId="22" fontId="0" fillId="0" borderId="0" xfId="0" applyNumberFormat="1"/>'
                '<xf numFmtId="21" fontId="0" fillId="0" borderId="0" xfId="0" applyNumberFormat="1"/>'
                '<xf numFmtId="164" fontId="0" fillId="0" borderId="0" xfId="0" applyNumberFormat="1"/></cellXfs>'
                '<cellStyles count="1"><cellStyle name="Normal" xfId="0" builtinId="0"/></cellStyles></styleSheet>' % NS_S).encode("utf-8")

_XSTRING_ESC = re.compile(r"_x[0-9A-Fa-f]{4}_")
_XSTRING_CTRL = re.compile("[\x00-\x08\x0b\x0c\x0e-\x1f\r\ufffe\uffff]")


def _xstring(s: str) -> str:
    """ST_Xstring: characters XML cannot carry are written _xHHHH_; a literal _xHHHH_ is protected with _x005F_."""
    s = _XSTRING_ESC.sub(lambda m: "_x005F" + m.group(0), s)
    s = _XSTRING_CTRL.sub(lambda m: "_x%04X_" % ord(m.group(0)), s)
    return _esc(s)


def _t_elem(s: str) -> str:
    e = _xstring(s)
    sp = ' xml:space="preserve"' if s != s.strip() or "\n" in s or "\t" in s else ""
    return "<t%s>%s</t>" % (sp, e)


def col_letters(c: int) -> str:
    """0-based column index -> A, B, ..., Z, AA, ..."""
    if c < 0 or c >= 16384:
        raise NotImplementedError("column index outside A..XFD")
    s = ""
    c += 1
    while c:
        c, r = divmod(c - 1, 26)
        s = chr(65 + r) + s
    return s


def excel_serial(date: _dt.date, date1904: bool = False) -> int:
    """1900 date system day number, including the fictitious 1900-02-29 (serial 60); date1904: days since 1904-01-01."""
    if date1904:
        n = (date - _dt.date(1904, 1, 1)).days
        if n < 0:
            raise NotImplementedError("dates before 1904-01-01 cannot be stored as 1904-system serials")
        return n
    n = (date - _dt.date(1899, 12, 31)).days
    if n < 1:
        raise NotImplementedError("dates before 1900-01-01 cannot be stored as 1900-system serials")
    return n + 1 if n >= 60 else n


def _num(v) -> str:
    if isinstance(v, bool):
        raise ValueError("bool is not a number cell")
    if isinstance(v, int):
        return str(v)
    if v != v or v in (float("inf"), float("-inf")):
        raise NotImplementedError("NaN/Infinity cannot be stored in a SpreadsheetML number cell")
    return repr(float(v))


def _day_fraction(seconds) -> str:
    return _num(seconds / 86400.0)


class _Sheet:
    def __init__(self, sst, inline, date1904=False):
        self.sst = sst
        self.inline = inline
        self.date1904 = date1904   # workbookPr/@date1904: date serials count from 1904-01-01
        self.nrefs = 0             # number of shared-string cell references (sst/@count)

    def value(self, cell):
        """-> (t attribute or None, style index, inner xml) for a non-formula cell"""
        k = cell[0]
        if k == "s":
            if not isinstance(cell[1], str):
                raise ValueError("string cell needs str")
            if len(cell[1]) > 32767:
                raise NotImplementedError("cell text longer than 32767 characters")
            if self.inline:
                return "inlineStr", XF_GENERAL, "<is>%s</is>" % _t_elem(cell[1])
            i = self.sst.setdefault(cell[1], len(self.sst))
            self.nrefs += 1
            return "s", XF_GENERAL, "<v>%d</v>" % i
        if k == "i":
            if isinstance(cell[1], bool) or not isinstance(cell[1], int):
                raise ValueError("int cell needs int")
            return None, XF_GENERAL, "<v>%s</v>" % _num(cell[1])
        if k == "f":
            return None, XF_GENERAL, "<v>%s</v>" % _num(float(cell[1]))
        if k == "b":
            return "b", XF_GENERAL, "<v>%d</v>" % (1 if cell[1] else 0)
        if k == "err":
            if cell[1] not in XLSX_ERRORS:
                raise ValueError("not a SpreadsheetML error value: %r" % (cell[1],))
            return "e", XF_GENERAL, "<v>%s</v>" % _esc(cell[1])
        if k == "d":
            return None, XF_DATE, "<v>%d</v>" % excel_serial(_dt.date.fromisoformat(cell[1]), self.date1904)
        if k == "dt":
            d = _dt.datetime.fromisoformat(cell[1])
            if d.tzinfo is not None:
                raise NotImplementedError("time zones cannot be stored in a date cell")
            secs = d.hour * 3600 + d.minute * 60 + d.second + d.microsecond / 1e6
            return None, XF_DATETIME, "<v>%s</v>" % _num(excel_serial(d.date(), self.date1904) + secs / 86400.0)
        if k == "tm":
            t = _dt.time.fromisoformat(cell[1])
            secs = t.hour * 3600 + t.minute * 60 + t.second + t.microsecond / 1e6
            return None, XF_TIME, "<v>%s</v>" % _day_fraction(secs)
        if k == "dur":
            if cell[1] < 0:
                raise NotImplementedError("negative durations cannot be displayed in the 1900 date system")
            return None, XF_DURATION, "<v>%s</v>" % _day_fraction(cell[1])
        raise NotImplementedError("XLSX cell kind %r" % (k,))

    def cell(self, ref, cell):
        if cell[0] == "fml":
            text = cell[1]
            if text.startswith("="):
                text = text[1:]            # the leading '=' is user-interface syntax, not part of <f>
            if not text:
                raise ValueError("empty formula")
            f = "<f>%s</f>" % _esc(text)
            cached = cell[2] if len(cell) > 2 else None
            if cached is None:
                return '<c r="%s">%s</c>' % (ref, f)
            if cached[0] == "fml":
                raise ValueError("cached value of a formula cannot be a formula")
            if cached[0] == "s":
                return '<c r="%s" t="str">%s<v>%s</v></c>' % (ref, f, _xstring(cached[1]))
            t, s, inner = self.value(cached)
        else:
            f = ""
            t, s, inner = self.value(cell)
        return '<c r="%s"%s%s>%s%s</c>' % (ref, ' s="%d"' % s if s else "", ' t="%s"' % t if t else "", f, inner)

    def xml(self, grid, drawing_rid):
        rows = []
        minc = maxc = minr = maxr = None
        for r, row in enumerate(grid):
            cells = []
            for c, cell in enumerate(row):
                if cell is None:
                    continue
                cells.append(self.cell(col_letters(c) + str(r + 1), cell))
                minc = c if minc is None else min(minc, c)
                maxc = c if maxc is None else max(maxc, c)
                minr = r if minr is None else minr
                maxr = r
            if cells:
                rows.append('<row r="%d">%s</row>' % (r + 1, "".join(cells)))
        if len(grid) > 1048576:
            raise NotImplementedError("more than 1048576 rows")
        if minc is None:
            dim = "A1"
        else:
            a, b = col_letters(minc) + str(minr + 1), col_letters(maxc) + str(maxr + 1)
            dim = a if a == b else a + ":" + b
        return (XML_DECL + '<worksheet xmlns="%s" xmlns:r="%s"><dimension ref="%s"/><sheetViews><sheetView workbookViewId="0"/></sheetViews>'
                '<sheetFormatPr defaultRowHeight="15"/>%s<pageMargins left="0.7" right="0.7" top="0.75" bottom="0.75" header="0.3" footer="0.3"/>%s</worksheet>'
                % (NS_S, NS_R, dim, "<sheetData>%s</sheetData>" % "".join(rows) if rows else "<sheetData/>",
                   '<drawing r:id="%s"/>' % drawing_rid if drawing_rid else ""))


_BAD_SHEET_CHARS = set("[]:*?/\\")


def _check_sheet_names(names):
    seen = set()
    for n in names:
        if not isinstance(n, str) or not n or len(n) > 31 or _BAD_SHEET_CHARS & set(n) or n[0] == "'" or n[-1] == "'":
            raise ValueError("invalid sheet name %r" % (n,))
        if n.lower() in seen:
            raise ValueError("duplicate sheet name %r" % (n,))
        seen.add(n.lower())


def _xlsx_drawing(imgs, pool, keys, first_row):
    x = [XML_DECL, '<xdr:wsDr xmlns:xdr="%s" xmlns:a="%s" xmlns:r="%s">' % (NS_XDR, NS_A, NS_R)]
    row = first_row
    for n, key in enumerate(keys, 1):
        ref, w, h, fname = imgs.ref(key)
        rows = max(1, -(-h // 20))
        cols = max(1, -(-w // 64))
        x.append('<xdr:twoCellAnchor editAs="oneCell"><xdr:from><xdr:col>0</xdr:col><xdr:colOff>0</xdr:colOff><xdr:row>%d</xdr:row>'
                 '<xdr:rowOff>0</xdr:rowOff></xdr:from><xdr:to><xdr:col>%d</xdr:col><xdr:colOff>0</xdr:colOff><xdr:row>%d</xdr:row>'
                 '<xdr:rowOff>0</xdr:rowOff></xdr:to><xdr:pic><xdr:nvPicPr><xdr:cNvPr id="%d" name="Picture %d"%s/><xdr:cNvPicPr>'
                 '<a:picLocks noChangeAspect="1"/></xdr:cNvPicPr></xdr:nvPicPr><xdr:blipFill><a:blip %s/><a:stretch><a:fillRect/></a:stretch>'
                 '</xdr:blipFill><xdr:spPr><a:xfrm><a:off x="0" y="%d"/><a:ext cx="%d" cy="%d"/></a:xfrm><a:prstGeom prst="rect"><a:avLst/>'
                 '</a:prstGeom></xdr:spPr></xdr:pic><xdr:clientData/></xdr:twoCellAnchor>'
                 % (row, cols, row + rows, n + 1, n, pool.descr(key), ref, row * 190500, w * 9525, h * 9525))
        row += rows + 1
    x.append("</xdr:wsDr>")
    return "".join(x)


def _xlsx_comment_parts(notes):
    """notes = [(row, col, text)] of one sheet -> (comments part, legacy VML drawing part) as Excel writes them"""
    x = [XML_DECL, '<comments xmlns="%s"><authors><author>%s</author></authors><commentList>' % (NS_S, AUTHOR)]
    v = ['<xml xmlns:v="urn:schemas-microsoft-com:vml" xmlns:o="urn:schemas-microsoft-com:office:office" '
         'xmlns:x="urn:schemas-microsoft-com:office:excel"><o:shapelayout v:ext="edit"><o:idmap v:ext="edit" data="1"/></o:shapelayout>'
         '<v:shapetype id="_x0000_t202" coordsize="21600,21600" o:spt="202" path="m,l,21600r21600,l21600,xe"><v:stroke joinstyle="miter"/>'
         '<v:path gradientshapeok="t" o:connecttype="rect"/></v:shapetype>']
    for n, (r, c, text) in enumerate(sorted(notes)):
        x.append('<comment ref="%s%d" authorId="0"><text><r>%s</r></text></comment>' % (col_letters(c), r + 1, _t_elem(text)))
        v.append('<v:shape id="_x0000_s%d" type="#_x0000_t202" style="position:absolute;margin-left:60pt;margin-top:2pt;width:108pt;'
                 'height:60pt;z-index:%d;visibility:hidden" fillcolor="#ffffe1" o:insetmode="auto"><v:fill color2="#ffffe1"/>'
                 '<v:shadow on="t" color="black" obscured="t"/><v:path o:connecttype="none"/><v:textbox style="mso-direction-alt:auto">'
                 '<div style="text-align:left"></div></v:textbox><x:ClientData ObjectType="Note"><x:MoveWithCells/><x:SizeWithCells/>'
                 '<x:Anchor>%d, 15, %d, 2, %d, 15, %d, 1</x:Anchor><x:AutoFill>False</x:AutoFill><x:Row>%d</x:Row><x:Column>%d</x:Column>'
                 '</x:ClientData></v:shape>' % (1025 + n, n + 1, c + 1, r, c + 3, r + 4, r, c))
    x.append("</commentList></comments>")
    v.append("</xml>")
    return "".join(x), "".join(v)


def xlsx(doc, images=None, opts=None) -> bytes:
    """ADM -> SpreadsheetML package. doc[2] = [["sheet", name, grid] or ["sheet", name, grid, {"images": [key, ...]}], ...]."""
    opts = _check_opts(opts, OPTS_XLSX)
    if doc[0] != "doc":
        raise ValueError("not an ADM document")
    meta = _check_meta(doc[1], _META_CORE, "XLSX")
    sheets = doc[2]
    if not sheets:
        raise NotImplementedError("a workbook needs at least one sheet")
    for u in sheets:
        if u[0] != "sheet":
            raise NotImplementedError("XLSX cannot express unit kind %r" % (u[0],))
        for k, v in ((u[3] if len(u) > 3 else None) or {}).items():
            if v and k != "images":
                raise NotImplementedError("XLSX cannot express sheet extra %r" % (k,))
    _check_sheet_names([u[1] for u in sheets])
    pkg = _Package(stored=bool(opts.get("zip_stored")))
    wbn = "xl/workbook.xml"
    pkg.rel("", RT + "officeDocument", wbn)
    _add_core(pkg, meta, opts)
    pool = _ImagePool(pkg, images, opts, "xl/media")
    sst = {}
    writer = _Sheet(sst, bool(opts.get("inline_strings")), bool(opts.get("date1904")))
    extra_imgs = opts.get("sheet_images") or {}
    sheet_parts, drawing_parts = [], []
    notes_at, note_parts = {}, []
    for ent in opts.get("comments_at") or []:
        si, r, c, text = ent
        if not (isinstance(si, int) and 0 <= si < len(sheets)) or r < 0 or c < 0:
            raise ValueError("comments_at names a sheet / cell that does not exist")
        if any((r, c) == (r2, c2) for r2, c2, _ in notes_at.get(si, [])):
            raise ValueError("comments_at: a cell has one comment")
        notes_at.setdefault(si, []).append((r, c, text))
    rids = []
    for i, u in enumerate(sheets, 1):
        name = "xl/worksheets/sheet%d.xml" % i
        rids.append(pkg.rel(wbn, RT + "worksheet", "worksheets/sheet%d.xml" % i))
        keys = list(((u[3] if len(u) > 3 else None) or {}).get("images") or []) + list(extra_imgs.get(i - 1) or [])
        drid = None
        if keys:
            dn = len(drawing_parts) + 1
            dname = "xl/drawings/drawing%d.xml" % dn
            drid = pkg.rel(name, RT + "drawing", "../drawings/drawing%d.xml" % dn)
            imgs = _Images(pool, dname, "../media/", "../../xl/media/")
            drawing_parts.append((dname, _xlsx_drawing(imgs, pool, keys, len(u[2]) + 1)))
        sheet_xml = writer.xml(u[2], drid)
        if notes_at.get(i - 1):
            nn = len(note_parts) + 1
            pkg.rel(name, RT + "comments", "../comments%d.xml" % nn)
            lrid = pkg.rel(name, RT + "vmlDrawing", "../drawings/vmlDrawing%d.vml" % nn)
            cx, vx = _xlsx_comment_parts(notes_at[i - 1])
            note_parts.append(("xl/comments%d.xml" % nn, cx, "xl/drawings/vmlDrawing%d.vml" % nn, vx))
            sheet_xml = sheet_xml[:-len("</worksheet>")] + '<legacyDrawing r:id="%s"/></worksheet>' % lrid
        sheet_parts.append((name, sheet_xml))
    pkg.rel(wbn, RT + "styles", "styles.xml")
    if sst:
        pkg.rel(wbn, RT + "sharedStrings", "sharedStrings.xml")
    wb = [XML_DECL, '<workbook xmlns="%s" xmlns:r="%s">%s<bookViews><workbookView/></bookViews><sheets>' % (NS_S, NS_R, '<workbookPr date1904="1"/>' if opts.get("date1904") else "")]
    for i, (u, rid) in enumerate(zip(sheets, rids), 1):
        wb.append('<sheet name="%s" sheetId="%d" r:id="%s"/>' % (_attr(u[1]), i, rid))
    wb.append("</sheets></workbook>")
    media = pkg.parts[1:]
    del pkg.parts[1:]
    pkg.add(wbn, "".join(wb), CT_S + "sheet.main+xml")
    for name, xml in sheet_parts:
        pkg.add(name, xml, CT_S + "worksheet+xml")
    pkg.add("xl/styles.xml", _XLSX_STYLES, CT_S + "styles+xml")
    if sst:
        x = [XML_DECL, '<sst xmlns="%s" count="%d" uniqueCount="%d">' % (NS_S, writer.nrefs, len(sst))]
        for s in sst:          # dicts keep insertion order = index order
            x.append("<si>%s</si>" % _t_elem(s))
        x.append("</sst>")
        pkg.add("xl/sharedStrings.xml", "".join(x), CT_S + "sharedStrings+xml")
    for name, xml in drawing_parts:
        pkg.add(name, xml, CT_DRAWING)
    for cname, cx, vname, vx in note_parts:
        pkg.defaults["vml"] = "application/vnd.openxmlformats-officedocument.vmlDrawing"
        pkg.add(cname, cx, CT_S + "comments+xml")
        pkg.add(vname, vx)
    pkg.parts.extend(media)
    return pkg.tobytes()

