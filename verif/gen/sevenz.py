"""Reference 7z *writer*, written from 7zFormat.txt (LZMA SDK, DOC/7zFormat.txt).  Standard library only.

    sevenz(members, opts=None) -> bytes
    honest(members, opts=None) -> bool      True iff the archive that sevenz() produces is a valid, un-forged 7z archive
    with_empty_between(members) -> list     the member list that opts["empty_between"] produces

members: list of dicts (unknown keys raise NotImplementedError)
    "name":  str                    stored as UTF-16LE + NUL in kNames (0x11, External = 0)
    "data":  bytes | None           non-empty bytes -> the member owns a data stream (a substream of a folder);
                                    b"" -> an empty file (no stream: EmptyStream = 1, EmptyFile = 1);
                                    None -> no data stream at all
    "dir":   bool                   directory entry:   EmptyStream = 1, EmptyFile = 0   (data must be None / b"")
    "empty_file": bool              empty file entry:  EmptyStream = 1, EmptyFile = 1   (data must be None / b"")
    "attrs": int | None             Windows attributes (kWinAttributes 0x15), None = not defined for this member
    "mtime": int | None             modification time in Unix seconds (kMTime 0x14, stored as FILETIME), None = undefined
  forging keys (make the archive invalid on purpose; honest() is False):
    "empty_stream_bit": bool        overrides the EmptyStream bit of this member
    "empty_file_bit":   bool        overrides the EmptyFile bit (only written for members whose EmptyStream bit is set)
  A member with data None that is neither "dir" nor "empty_file" is a *phantom*: it is listed with EmptyStream = 0 but
  no stream exists for it (forged; this is what the "names only" archives consist of).

opts: dict (unknown keys raise NotImplementedError)
    "coder":  "copy" (default) | "lzma" | "lzma2"
              copy  = method id 00, no properties
              lzma  = method id 03 01 01, 5 property bytes ((pb*5+lp)*9+lc, dictionary size LE32), raw LZMA1 stream
              lzma2 = method id 21, 1 property byte (dictionary size code), raw LZMA2 stream (ends with 0x00)
    "dict_size": int (default 65536)   LZMA dictionary size (LZMA2: rounded up to the next 2^n / 3*2^n value)
    "layout": "solid" (default)     one folder, all data streams are its substreams, in member order
              "per_file"            one folder per data stream, pack streams in member order
              "two_folders"         the first ceil(n/2) data streams in folder 0, the rest in folder 1 (n < 2: one folder)
    "header": "plain" (default) | "encoded"    encoded = kEncodedHeader (0x17): the header is itself packed (LZMA unless
              "header_coder" says otherwise) and stored as one more pack stream behind the main pack streams
    "header_coder": "lzma" (default) | "lzma2" | "copy"
    "crc":    "sub" (default)       CRC32 of every data stream in SubStreamsInfo (what 7-Zip writes)
              "folder"              folder CRCs in UnpackInfo; SubStreamsInfo digests only for folders with != 1 streams
                                    ("digests for streams with unknown CRC")
              "none"                no CRCs at all
    "substreams": "always" (default) | "omit"   omit = no SubStreamsInfo block (only possible if every folder has exactly
              one stream; CRCs then go to the folders).  Optional per 7zFormat.txt ("[] SubStreams Info []", it is how the
              StreamsInfo of an encoded header looks), but exotic for the main streams: libarchive 3.8 rejects such an
              archive and old 7-Zip versions may too - use it for robustness tests, not as an equivalence oracle
    "always_num_unpack": bool       write kNumUnPackStream (0x0D) even if every folder has exactly one stream
    "pack_crc": bool                write the optional pack stream digests (kCRC in PackInfo)
    "pack_gap": int                 that many filler bytes before the first pack stream (PackPos = gap)
    "empty_between": bool           insert an empty file "empty<i>.txt" between consecutive members (see with_empty_between)
    "empty_as_header": bool         for zero members write the explicit header `01 00` instead of 7-Zip's 32-byte archive
                                    (grammatically valid, exotic: libarchive calls it malformed)
  forging opts (honest() is False):
    "aes_folder": k                 folder k gets the 7zAES coder id 06 F1 07 01 with dummy properties; payload is NOT encrypted
    "header_aes": "single" | "chain"   (needs "header": "encoded") the folder of the packed header declares the 7zAES coder
                 (single: 7zAES alone; chain: 7zAES + header coder, what `7z a -p -mhe=on` writes); the packed header bytes stay in
                 clear - a detection shell like "aes_folder"
    "aes_mode":  "single" (default: the AES coder replaces the folder's coder) | "chain" (two coders 7zAES, <coder> and the
                 bind pair (1, 0), which is how 7-Zip lays out an encrypted + compressed folder)
    "no_streams": True              names only: no MainStreamsInfo at all, no pack streams (members keep EmptyStream = 0)
    "unpack_size_override": int | {folder index: int}    forged folder unpack size (int = every folder)
    "num_files_override": int       forged NumFiles in FilesInfo

File layout (7zFormat.txt): SignatureHeader(32) | [gap] pack streams of folder 0, 1, ... | [packed header] | header.
Folder k's pack streams start at 32 + PackPos + sum(PackSizes[j] for j < first pack stream index of folder k).
Raw LZMA1 streams written by liblzma carry an end-of-payload marker; the LZMA specification allows the marker together
with a known unpack size (7-Zip accepts it), it is counted in the pack size.
"""
from __future__ import annotations

import lzma
import struct
import zlib

SIGNATURE = b"7z\xbc\xaf\x27\x1c"
VERSION = b"\x00\x04"

K_END, K_HEADER, K_ARCHIVE_PROPERTIES, K_ADDITIONAL_STREAMS, K_MAIN_STREAMS, K_FILES_INFO = 0, 1, 2, 3, 4, 5
K_PACK_INFO, K_UNPACK_INFO, K_SUBSTREAMS_INFO, K_SIZE, K_CRC, K_FOLDER = 6, 7, 8, 9, 0x0A, 0x0B
K_CODERS_UNPACK_SIZE, K_NUM_UNPACK_STREAM, K_EMPTY_STREAM, K_EMPTY_FILE, K_ANTI, K_NAMES = 0x0C, 0x0D, 0x0E, 0x0F, 0x10, 0x11
K_CTIME, K_ATIME, K_MTIME, K_WIN_ATTRIBUTES, K_COMMENT, K_ENCODED_HEADER, K_START_POS, K_DUMMY = 0x12, 0x13, 0x14, 0x15, 0x16, 0x17, 0x18, 0x19

ID_COPY = b"\x00"
ID_LZMA = b"\x03\x01\x01"
ID_LZMA2 = b"\x21"
ID_AES = b"\x06\xf1\x07\x01"
# 7zAES properties: NumCyclesPower 19, no salt, 8 IV bytes (0x53 0x07 + IV) - the shape 7-Zip writes
AES_PROPS = b"\x53\x07" + bytes(range(0xA0, 0xA8))

MEMBER_KEYS = {"name", "data", "dir", "empty_file", "attrs", "mtime", "empty_stream_bit", "empty_file_bit"}
OPT_KEYS = {"coder", "dict_size", "layout", "header", "header_coder", "crc", "substreams", "always_num_unpack", "pack_crc",
            "pack_gap", "empty_between", "empty_as_header", "aes_folder", "aes_mode", "no_streams", "unpack_size_override",
            "num_files_override", "header_aes"}
CODERS = ("copy", "lzma", "lzma2")
LAYOUTS = ("solid", "per_file", "two_folders")
# what the writer can express (archive writers take member lists, not ADM documents: CAPS lists features, not constructors)
CAPS = ({"member:file", "member:dir", "member:empty_file", "member:phantom", "member:attrs", "member:mtime",
         "member:empty_stream_bit", "member:empty_file_bit"}
        | {"coder:" + c for c in CODERS} | {"layout:" + x for x in LAYOUTS}
        | {"header:plain", "header:encoded", "crc:sub", "crc:folder", "crc:none", "substreams:omit", "always_num_unpack",
           "pack_crc", "pack_gap", "empty_between", "empty_as_header", "aes_folder", "aes_mode:single", "aes_mode:chain",
           "no_streams", "unpack_size_override", "num_files_override"})

FILETIME_EPOCH = 11644473600


# ------------------------------------------------------------------------------------------------ primitives
def num(v: int) -> bytes:
    """7z UINT64 ("NUMBER"): the count of leading 1 bits of the first byte = number of extra bytes (little endian);
    the remaining low bits of the first byte are the most significant bits of the value."""
    if not 0 <= v < 1 << 64:
        raise ValueError(f"7z number out of range: {v}")
    for extra in range(8):
        if v < 1 << (7 * (extra + 1)):
            first = ((0xFF00 >> extra) & 0xFF) | (v >> (8 * extra))
            return bytes([first]) + (v & ((1 << (8 * extra)) - 1)).to_bytes(extra, "little")
    return b"\xff" + v.to_bytes(8, "little")


def bitvec(bits) -> bytes:
    """bit vector, most significant bit first, padded with zero bits"""
    out = bytearray((len(bits) + 7) // 8)
    for i, b in enumerate(bits):
        if b:
            out[i >> 3] |= 0x80 >> (i & 7)
    return bytes(out)


def crc32(b: bytes) -> int:
    return zlib.crc32(b) & 0xFFFFFFFF


def digests(crcs) -> bytes:
    """Digests: BYTE AllAreDefined; if 0: bit vector Defined; UINT32 CRCs[NumDefined]"""
    if all(c is not None for c in crcs):
        out = b"\x01"
    else:
        out = b"\x00" + bitvec([c is not None for c in crcs])
    return out + b"".join(struct.pack("<I", c) for c in crcs if c is not None)


def lzma2_dict_prop(dict_size: int):
    """smallest LZMA2 dictionary code whose size is >= dict_size -> (code, size)"""
    for p in range(40):
        size = (2 | (p & 1)) << (p // 2 + 11)
        if size >= dict_size:
            return p, size
    return 40, 0xFFFFFFFF


def encode(data: bytes, coder: str, dict_size: int = 1 << 16):
    """-> (packed bytes, method id, properties or None)"""
    if coder == "copy":
        return data, ID_COPY, None
    if coder == "lzma":
        lc, lp, pb = 3, 0, 2
        dict_size = max(4096, dict_size)
        raw = lzma.compress(data, format=lzma.FORMAT_RAW,
                            filters=[{"id": lzma.FILTER_LZMA1, "dict_size": dict_size, "lc": lc, "lp": lp, "pb": pb}])
        return raw, ID_LZMA, bytes([(pb * 5 + lp) * 9 + lc]) + struct.pack("<I", dict_size)
    if coder == "lzma2":
        code, size = lzma2_dict_prop(max(4096, dict_size))
        raw = lzma.compress(data, format=lzma.FORMAT_RAW, filters=[{"id": lzma.FILTER_LZMA2, "dict_size": size}])
        return raw, ID_LZMA2, bytes([code])
    raise NotImplementedError(f"7z coder {coder!r}")


def coder_record(method_id: bytes, props) -> bytes:
    """one simple coder (1 in stream, 1 out stream): flags (id size | 0x20 if properties), id, [props size, props]"""
    flags = len(method_id) | (0x20 if props is not None else 0)
    out = bytes([flags]) + method_id
    if props is not None:
        out += num(len(props)) + props
    return out


# ------------------------------------------------------------------------------------------------ member model
def with_empty_between(members):
    out = []
    for i, m in enumerate(members):
        if i:
            out.append({"name": f"empty{i}.txt", "data": None, "empty_file": True})
        out.append(m)
    return out


def _classify(m, no_streams):
    """-> (has_stream, empty_stream_bit, empty_file_bit, honest)"""
    unknown = set(m) - MEMBER_KEYS
    if unknown:
        raise NotImplementedError(f"7z member keys {sorted(unknown)}")
    name = m.get("name")
    if not isinstance(name, str):
        raise ValueError("7z member needs a str name")
    if "\x00" in name:
        raise ValueError("7z names are NUL-terminated: NUL inside a name is not expressible")
    data = m.get("data")
    if data is not None and not isinstance(data, (bytes, bytearray)):
        raise ValueError("7z member data must be bytes or None")
    is_dir, is_empty = bool(m.get("dir")), bool(m.get("empty_file"))
    if is_dir and is_empty:
        raise ValueError("member is both dir and empty_file")
    if data and (is_dir or is_empty):
        raise ValueError("a dir / empty_file member cannot carry data (use attrs 0x10 or empty_stream_bit to forge)")
    has_stream = bool(data) and not no_streams
    ok = True
    if data:
        es = False                       # owns a stream (or, with no_streams, lost it: forged)
        ok = not no_streams
    elif is_dir or is_empty or data is not None:
        es = True                        # directory, or empty file (flagged, or data == b"")
    else:
        es = False                       # phantom
        ok = False
    ef = not is_dir
    if "empty_stream_bit" in m and m["empty_stream_bit"] is not None:
        es, ok = bool(m["empty_stream_bit"]), False
    if "empty_file_bit" in m and m["empty_file_bit"] is not None:
        ef, ok = bool(m["empty_file_bit"]), False
    return has_stream, es, ef, ok


def _opts(opts):
    o = dict(opts or {})
    unknown = set(o) - OPT_KEYS
    if unknown:
        raise NotImplementedError(f"7z opts {sorted(unknown)}")
    if o.get("coder", "copy") not in CODERS or o.get("header_coder", "lzma") not in CODERS:
        raise NotImplementedError(f"7z coder {o.get('coder')!r} / {o.get('header_coder')!r}")
    if o.get("layout", "solid") not in LAYOUTS:
        raise NotImplementedError(f"7z layout {o.get('layout')!r}")
    if o.get("header", "plain") not in ("plain", "encoded"):
        raise NotImplementedError(f"7z header {o.get('header')!r}")
    if o.get("crc", "sub") not in ("sub", "folder", "none"):
        raise NotImplementedError(f"7z crc {o.get('crc')!r}")
    if o.get("substreams", "always") not in ("always", "omit"):
        raise NotImplementedError(f"7z substreams {o.get('substreams')!r}")
    if o.get("aes_mode", "single") not in ("single", "chain"):
        raise NotImplementedError(f"7z aes_mode {o.get('aes_mode')!r}")
    if o.get("header_aes") not in (None, "single", "chain"):
        raise NotImplementedError(f"7z header_aes {o.get('header_aes')!r}")
    if o.get("header_aes") and o.get("header", "plain") != "encoded":
        raise ValueError("header_aes needs header=encoded")
    return o


def honest(members, opts=None) -> bool:
    o = _opts(opts)
    if o.get("empty_between"):
        members = with_empty_between(members)
    if any(o.get(k) is not None for k in ("aes_folder", "unpack_size_override", "num_files_override", "header_aes")):
        return False
    return all(_classify(m, bool(o.get("no_streams")))[3] for m in members)


def _groups(stream_idx, layout):
    if not stream_idx:
        return []
    if layout == "solid":
        return [list(stream_idx)]
    if layout == "per_file":
        return [[i] for i in stream_idx]
    cut = (len(stream_idx) + 1) // 2
    return [g for g in (list(stream_idx[:cut]), list(stream_idx[cut:])) if g]


# ------------------------------------------------------------------------------------------------ header parts
def _pack_info(pack_pos, packed_list, with_crc) -> bytes:
    out = bytes([K_PACK_INFO]) + num(pack_pos) + num(len(packed_list))
    out += bytes([K_SIZE]) + b"".join(num(len(p)) for p in packed_list)
    if with_crc:
        out += bytes([K_CRC]) + digests([crc32(p) for p in packed_list])
    return out + bytes([K_END])


def _folder_record(f) -> bytes:
    """Folder: NumCoders, coders, bind pairs (NumOutStreamsTotal - 1), packed stream indices if more than one"""
    if f["aes"] == "single":
        return num(1) + coder_record(ID_AES, AES_PROPS)
    if f["aes"] == "chain":
        # 7-Zip stores the coders from the pack side to the unpack side: coder 0 = 7zAES (its in stream 0 is the one
        # packed stream, implicit because NumPackedStreams == 1), coder 1 = compression coder (its out stream 1 is the
        # folder's output: the only out stream that is not bound); bind pair: InIndex 1 <- OutIndex 0
        return num(2) + coder_record(ID_AES, AES_PROPS) + coder_record(f["id"], f["props"]) + num(1) + num(0)
    return num(1) + coder_record(f["id"], f["props"])


def _unpack_info(folders, folder_crcs) -> bytes:
    out = bytes([K_UNPACK_INFO, K_FOLDER]) + num(len(folders)) + b"\x00"          # External = 0
    out += b"".join(_folder_record(f) for f in folders)
    out += bytes([K_CODERS_UNPACK_SIZE])
    for f in folders:                             # one size per out stream, in coder order
        if f["aes"] == "chain":
            out += num(len(f["packed"]))          # out stream 0 = output of the AES coder = the (padded) compressed stream
        out += num(f["unpack_size"])
    if any(c is not None for c in folder_crcs):
        out += bytes([K_CRC]) + digests(folder_crcs)
    return out + bytes([K_END])


def _substreams_info(folders, crc_mode, folder_crcs, always_num) -> bytes:
    out = bytes([K_SUBSTREAMS_INFO])
    counts = [len(f["sizes"]) for f in folders]
    if always_num or any(c != 1 for c in counts):
        out += bytes([K_NUM_UNPACK_STREAM]) + b"".join(num(c) for c in counts)
    if any(c > 1 for c in counts):
        out += bytes([K_SIZE]) + b"".join(num(s) for f in folders for s in f["sizes"][:-1])
    if crc_mode != "none":
        unknown = []
        for f, fc in zip(folders, folder_crcs):
            if len(f["sizes"]) == 1 and fc is not None:
                continue                           # known from the folder digest
            unknown += f["crcs"]
        if unknown:
            out += bytes([K_CRC]) + digests(unknown)
    return out + bytes([K_END])


def _files_info(members, bits, num_files_override) -> bytes:
    n = len(members)
    out = bytes([K_FILES_INFO]) + num(n if num_files_override is None else num_files_override)

    def prop(pid, payload):
        return bytes([pid]) + num(len(payload)) + payload

    es = [b[1] for b in bits]
    if any(es):
        out += prop(K_EMPTY_STREAM, bitvec(es))
        ef = [b[2] for b in bits if b[1]]
        if any(ef):
            out += prop(K_EMPTY_FILE, bitvec(ef))
    names = b"".join(m["name"].encode("utf-16-le", "surrogatepass") + b"\x00\x00" for m in members)
    out += prop(K_NAMES, b"\x00" + names)                                        # External = 0
    mt = [m.get("mtime") for m in members]
    if any(t is not None for t in mt):
        defined = b"\x01" if all(t is not None for t in mt) else b"\x00" + bitvec([t is not None for t in mt])
        out += prop(K_MTIME, defined + b"\x00" + b"".join(                         # External = 0
            struct.pack("<Q", (t + FILETIME_EPOCH) * 10_000_000) for t in mt if t is not None))
    at = [m.get("attrs") for m in members]
    if any(a is not None for a in at):
        defined = b"\x01" if all(a is not None for a in at) else b"\x00" + bitvec([a is not None for a in at])
        out += prop(K_WIN_ATTRIBUTES, defined + b"\x00" + b"".join(                # External = 0
            struct.pack("<I", a & 0xFFFFFFFF) for a in at if a is not None))
    return out + bytes([K_END])


# ------------------------------------------------------------------------------------------------ the writer
def sevenz(members, opts=None) -> bytes:
    o = _opts(opts)
    members = list(members)
    if o.get("empty_between"):
        members = with_empty_between(members)
    no_streams = bool(o.get("no_streams"))
    bits = [_classify(m, no_streams) for m in members]
    coder = o.get("coder", "copy")
    dict_size = int(o.get("dict_size", 1 << 16))
    crc_mode = o.get("crc", "sub")
    gap = int(o.get("pack_gap", 0))

    # ---- folders and pack streams
    stream_idx = [i for i, b in enumerate(bits) if b[0]]
    folders = []
    for g in _groups(stream_idx, o.get("layout", "solid")):
        blob = b"".join(bytes(members[i]["data"]) for i in g)
        packed, mid, props = encode(blob, coder, dict_size)
        folders.append({"packed": packed, "id": mid, "props": props, "unpack_size": len(blob), "aes": None,
                        "sizes": [len(members[i]["data"]) for i in g],
                        "crcs": [crc32(bytes(members[i]["data"])) for i in g], "crc": crc32(blob)})
    aes = o.get("aes_folder")
    if aes is not None:
        if not 0 <= aes < len(folders):
            raise ValueError(f"aes_folder {aes}: the archive has {len(folders)} folder(s)")
        f = folders[aes]
        f["aes"] = o.get("aes_mode", "single")
        if f["aes"] == "chain":
            f["packed"] += bytes(-len(f["packed"]) % 16)          # AES works on 16-byte blocks
    uso = o.get("unpack_size_override")
    if uso is not None:
        for k, f in enumerate(folders):
            v = uso.get(k, uso.get(str(k))) if isinstance(uso, dict) else uso
            if v is not None:
                f["unpack_size"] = int(v)
    if o.get("substreams", "always") == "omit":
        if any(len(f["sizes"]) != 1 for f in folders):
            raise ValueError("substreams=omit needs exactly one stream per folder")
        if crc_mode == "sub":
            crc_mode = "folder"
    folder_crcs = [f["crc"] if crc_mode == "folder" else None for f in folders]
    pack_area = bytes(gap) + b"".join(f["packed"] for f in folders) if folders else b""

    # ---- header
    if not members and not o.get("empty_as_header") and o.get("num_files_override") is None:
        header = b""                                  # 7-Zip writes an empty archive as NextHeaderSize = 0
    else:
        header = bytes([K_HEADER])
        if folders:
            header += bytes([K_MAIN_STREAMS])
            header += _pack_info(gap, [f["packed"] for f in folders], bool(o.get("pack_crc")))
            header += _unpack_info(folders, folder_crcs)
            if o.get("substreams", "always") != "omit":
                header += _substreams_info(folders, crc_mode, folder_crcs, bool(o.get("always_num_unpack")))
            header += bytes([K_END])
        if members or o.get("num_files_override") is not None:
            header += _files_info(members, bits, o.get("num_files_override"))
        header += bytes([K_END])

    body = pack_area
    if o.get("header", "plain") == "encoded" and header:
        packed, mid, props = encode(header, o.get("header_coder", "lzma"), 1 << 16)
        hf = {"packed": packed, "id": mid, "props": props, "unpack_size": len(header), "aes": o.get("header_aes")}
        if hf["aes"] == "chain":
            packed = hf["packed"] = packed + bytes(-len(packed) % 16)          # AES works on 16-byte blocks
        enc = bytes([K_ENCODED_HEADER]) + _pack_info(len(body), [packed], False) + _unpack_info([hf], [crc32(header)])
        enc += bytes([K_END])
        body += packed
        header = enc
    start = struct.pack("<QQI", len(body), len(header), crc32(header))
    return SIGNATURE + VERSION + struct.pack("<I", crc32(start)) + start + body + header
