"""Self-test of verif.gen.ooxml:  PYTHONPATH=/verif /venv/bin/python -B -m verif.gen.selftest_ooxml

For every supported constructor a simplest document is rendered, checked by an *independent* package validator
(zipfile + xml.etree: well-formedness, content types, relationship targets, r:id references, format-specific structure
rules; openpyxl for XLSX values) and then handed to the library's extractor for the simplest-term identity.
  WRITER-INVALID       the independent reader rejects the output (a bug of the writer)
  EXTRACTOR-DISAGREES  the output is valid but the library returns something else (reported, never hidden)
Exit code is 0 unless the self-test itself crashes.
"""
from __future__ import annotations

import datetime as dt
import io
import posixpath
import struct
import sys
import warnings
import zipfile
import zlib
from xml.etree import ElementTree as ET

from verif.gen import adm, ooxml
from verif.gen.tokens import find_tokens

W = "{%s}" % ooxml.NS_W
R = "{%s}" % ooxml.NS_R
A = "{%s}" % ooxml.NS_A
P = "{%s}" % ooxml.NS_P
MC = "{%s}" % ooxml.NS_MC
REL = "{%s}" % ooxml.NS_REL
CT = "{%s}" % ooxml.NS_CT

RESULTS = {"OK": 0, "WRITER-INVALID": 0, "EXTRACTOR-DISAGREES": 0}
DISAGREE = []


def line(status, fmt, name, msg=""):
    RESULTS[status] += 1
    if status == "EXTRACTOR-DISAGREES":
        DISAGREE.append((fmt, name, msg))
    print("%-20s %-5s %-34s %s" % (status, fmt, name, msg))


# ---------------------------------------------------------------------------------------------- sample images


def png(w, h, seed=0):
    def chunk(t, d):
        return struct.pack(">I", len(d)) + t + d + struct.pack(">I", zlib.crc32(t + d) & 0xFFFFFFFF)
    raw = b"".join(b"\x00" + bytes((seed + x + y) % 256 for x in range(w)) for y in range(h))
    return (b"\x89PNG\r\n\x1a\n" + chunk(b"IHDR", struct.pack(">IIBBBBB", w, h, 8, 0, 0, 0, 0)) +
            chunk(b"IDAT", zlib.compress(raw, 9)) + chunk(b"IEND", b""))


def jpeg(w, h, seed=0):
    return (b"\xff\xd8\xff\xe0\x00\x10JFIF\x00\x01\x01\x00\x00\x01\x00\x01\x00\x00" +
            b"\xff\xc0\x00\x0b\x08" + struct.pack(">HH", h, w) + b"\x01\x01\x11\x00" + b"\xff\xfe\x00\x04" + bytes([seed, 7]) + b"\xff\xd9")


def gif(w, h, seed=0):
    return (b"GIF89a" + struct.pack("<HH", w, h) + b"\x80\x00\x00" + bytes([seed, 0, 0, 255, 255, 255]) +
            b"\x2c\x00\x00\x00\x00" + struct.pack("<HH", w, h) + b"\x00\x02\x02\x44\x01\x00\x3b")


def bmp(w, h, seed=0):
    row = (bytes([seed, 0, 0]) * w + b"\x00" * 3)[: (w * 3 + 3) // 4 * 4]
    data = row * h
    return (b"BM" + struct.pack("<IHHI", 54 + len(data), 0, 0, 54) +
            struct.pack("<IiiHHIIiiII", 40, w, h, 1, 24, 0, len(data), 2835, 2835, 0, 0) + data)


IMAGES = {"png": (png(3, 2, 1), "png"), "jpeg": (jpeg(3, 2, 2), "jpeg"), "gif": (gif(3, 2, 3), "gif"), "bmp": (bmp(3, 2, 4), "bmp"),
          "big": (png(64, 48, 5), "png")}
CTYPE = {"png": "image/png", "jpeg": "image/jpeg", "gif": "image/gif", "bmp": "image/bmp"}

# ---------------------------------------------------------------------------------------------- independent package validator


class Invalid(Exception):
    pass


def resolve(source, target):
    if target.startswith("/"):
        return posixpath.normpath(target[1:])
    return posixpath.normpath(posixpath.join(posixpath.dirname(source), target))


def open_package(data, allow_missing=0):
    """Generic OPC checks; returns (zip, {part: root}, {source: {rid: (type, resolved target or None, external)}})."""
    try:
        z = zipfile.ZipFile(io.BytesIO(data))
    except Exception as e:  # noqa
        raise Invalid("not a zip: %s" % e)
    if z.testzip() is not None:
        raise Invalid("zip CRC error")
    names = z.namelist()
    if len(set(names)) != len(names):
        raise Invalid("duplicate zip member")
    if names[0] != "[Content_Types].xml":
        raise Invalid("[Content_Types].xml is not the first member")
    roots = {}
    for n in names:
        if n.endswith(".xml") or n.endswith(".rels"):
            raw = z.read(n)
            try:
                roots[n] = ET.fromstring(raw)
            except ET.ParseError as e:
                raise Invalid("%s not well-formed: %s" % (n, e))
            raw.decode("utf-8")
    ct = roots["[Content_Types].xml"]
    defaults = {d.get("Extension").lower(): d.get("ContentType") for d in ct.findall(CT + "Default")}
    overrides = {o.get("PartName"): o.get("ContentType") for o in ct.findall(CT + "Override")}
    if len(overrides) != len(ct.findall(CT + "Override")):
        raise Invalid("duplicate Override")
    for pn in overrides:
        if pn[1:] not in names:
            raise Invalid("Override for absent part " + pn)
    for n in names:
        if n == "[Content_Types].xml":
            continue
        if "/" + n not in overrides and n.rsplit(".", 1)[-1].lower() not in defaults:
            raise Invalid("no content type for " + n)
    for n in names:
        if n.rsplit(".", 1)[-1] in ooxml.IMG_CT and defaults.get(n.rsplit(".", 1)[-1]) != ooxml.IMG_CT[n.rsplit(".", 1)[-1]]:
            raise Invalid("wrong image content type for " + n)
    rels = {}
    missing = 0
    for n in names:
        if not n.endswith(".rels"):
            continue
        d, f = posixpath.split(n)
        if posixpath.basename(d) != "_rels":
            raise Invalid("misplaced rels part " + n)
        source = posixpath.join(posixpath.dirname(d), f[:-5]) if f != ".rels" else ""
        if source and source not in names:
            raise Invalid("relationships for absent part " + source)
        m = {}
        for rel in roots[n].findall(REL + "Relationship"):
            rid = rel.get("Id")
            if rid in m:
                raise Invalid("duplicate relationship id %s in %s" % (rid, n))
            ext = rel.get("TargetMode") == "External"
            tgt = None
            if not ext:
                tgt = resolve(source, rel.get("Target"))
                if tgt not in names:
                    missing += 1
                    if missing > allow_missing:
                        raise Invalid("%s: relationship %s -> absent part %s" % (n, rid, tgt))
            m[rid] = (rel.get("Type"), tgt, ext, rel.get("Target"))
        rels[source] = m
    if missing != allow_missing:
        raise Invalid("expected %d dangling relationships, found %d" % (allow_missing, missing))
    # every r:* attribute refers to a relationship of its part
    for n, root in roots.items():
        if n.endswith(".rels") or n == "[Content_Types].xml":
            continue
        for el in root.iter():
            for k, v in el.attrib.items():
                if k.startswith(R):
                    if v not in rels.get(n, {}):
                        raise Invalid("%s: %s=%s has no relationship" % (n, k, v))
    if "" not in rels:
        raise Invalid("no package relationships")
    types = [t for t, _, _, _ in rels[""].values()]
    if ooxml.RT + "officeDocument" not in types or ooxml.RT_CORE not in types:
        raise Invalid("package relationships incomplete")
    return z, roots, rels


def check_core(roots, meta):
    root = roots["docProps/core.xml"]
    ns = {"dc": "http://purl.org/dc/elements/1.1/", "cp": "http://schemas.openxmlformats.org/package/2006/metadata/core-properties"}
    for key, tag in (("title", "dc:title"), ("author", "dc:creator"), ("subject", "dc:subject"), ("keywords", "cp:keywords"),
                     ("description", "dc:description")):
        el = root.find(tag, ns)
        got = el.text if el is not None else None
        if (got or None) != (meta.get(key) or None):
            raise Invalid("core.xml %s: %r != %r" % (key, got, meta.get(key)))


def strip_fallback(root):
    """copy of the tree without mc:Fallback branches (ids are legitimately repeated there)"""
    root = ET.fromstring(ET.tostring(root))
    for parent in list(root.iter()):
        for ch in list(parent):
            if ch.tag == MC + "Fallback":
                parent.remove(ch)
    return root


def validate_docx(data, doc, mode="relative"):
    missing = sum(1 for _ in iter_imgs(doc)) if mode == "missing" else 0
    z, roots, rels = open_package(data, allow_missing=missing)
    check_core(roots, doc[1] or {})
    d = roots["word/document.xml"]
    body = d.find(W + "body")
    if body is None or len(d) != 1:
        raise Invalid("document.xml structure")
    if body[-1].tag != W + "sectPr":
        raise Invalid("sectPr is not the last body child")
    for el in body:
        if el.tag not in (W + "p", W + "tbl", W + "sdt", W + "sectPr"):
            raise Invalid("unexpected body child " + el.tag)
    styles = {s.get(W + "styleId") for s in roots["word/styles.xml"].iter(W + "style")}
    for tag in ("pStyle", "rStyle", "tblStyle"):
        for n, root in roots.items():
            if n.startswith("word/"):
                for el in root.iter(W + tag):
                    if el.get(W + "val") not in styles:
                        raise Invalid("undefined style %s in %s" % (el.get(W + "val"), n))
    for tc in d.iter(W + "tc"):
        kids = [k for k in tc if k.tag != W + "tcPr"]
        if not kids or kids[-1].tag != W + "p":
            raise Invalid("w:tc does not end with w:p")
    for tbl in d.iter(W + "tbl"):
        ncol = len(tbl.find(W + "tblGrid"))
        for tr in tbl.findall(W + "tr"):
            n = len(tr.findall(W + "tc"))
            ga = tr.find(W + "trPr/" + W + "gridAfter")
            n += int(ga.get(W + "val")) if ga is not None else 0
            if n != ncol or not tr.findall(W + "tc"):
                raise Invalid("row width %d != grid %d" % (n, ncol))
    for parent in d.iter():
        prev = None
        for ch in parent:
            if ch.tag == W + "tbl" and prev == W + "tbl":
                raise Invalid("adjacent tables (Word would merge them)")
            prev = ch.tag
    for tx in d.iter(W + "txbxContent"):
        if len(tx) == 0 or tx[-1].tag != W + "p":
            raise Invalid("txbxContent must end with a paragraph")
        if list(tx.iter(W + "txbxContent"))[1:] or list(tx.iter(W + "footnoteReference")) or list(tx.iter(W + "commentReference")):
            raise Invalid("text box holds a construct Word does not allow there")
    for ac in d.iter(MC + "AlternateContent"):
        ch = ac.find(MC + "Choice")
        fb = ac.find(MC + "Fallback")
        if ch is None or fb is None or ch.get("Requires") != "wps":
            raise Invalid("AlternateContent structure")
        a1 = [ET.tostring(x) for x in ch.iter(W + "txbxContent")][:1]
        a2 = [ET.tostring(x) for x in fb.iter(W + "txbxContent")][:1]
        if not a1 or [x.split(b">", 1)[1] for x in a1] != [x.split(b">", 1)[1] for x in a2]:
            raise Invalid("Choice and Fallback text box contents differ")
    d1 = strip_fallback(d)
    ids = [el.get(W + "id") for el in d1.iter() if el.tag in (W + "ins", W + "del")]
    if len(ids) != len(set(ids)):
        raise Invalid("duplicate revision ids")
    dp = [el.get("id") for el in d1.iter("{%s}docPr" % ooxml.NS_WP)]
    if len(dp) != len(set(dp)):
        raise Invalid("duplicate docPr ids")
    nums = set()
    if "word/numbering.xml" in roots:
        nroot = roots["word/numbering.xml"]
        seen_num = False
        for ch in nroot:
            if ch.tag == W + "num":
                seen_num = True
                nums.add(ch.get(W + "numId"))
            elif seen_num:
                raise Invalid("abstractNum after num")
    for el in d.iter(W + "numId"):
        if el.get(W + "val") not in nums:
            raise Invalid("undefined numId")
    fn = {f.get(W + "id") for f in roots.get("word/footnotes.xml", ET.Element("x")).iter(W + "footnote")}
    for el in d.iter(W + "footnoteReference"):
        if el.get(W + "id") not in fn:
            raise Invalid("footnote id without footnote")
    if fn and not {"-1", "0"} <= fn:
        raise Invalid("separator footnotes absent")
    cm = {c.get(W + "id") for c in roots.get("word/comments.xml", ET.Element("x")).iter(W + "comment")}
    refs = [el.get(W + "id") for el in d1.iter(W + "commentReference")]
    st = [el.get(W + "id") for el in d1.iter(W + "commentRangeStart")]
    en = [el.get(W + "id") for el in d1.iter(W + "commentRangeEnd")]
    if set(refs) != cm or sorted(st) != sorted(refs) or sorted(en) != sorted(refs) or len(set(refs)) != len(refs):
        raise Invalid("comment references / ranges / comments.xml inconsistent")
    for hl in d.iter(W + "hyperlink"):
        t = rels["word/document.xml"][hl.get(R + "id")]
        if not t[2] or not t[0].endswith("/hyperlink"):
            raise Invalid("hyperlink relationship must be External")
    sect = body[-1]
    for tag, part in (("headerReference", "header"), ("footerReference", "footer")):
        for el in sect.findall(W + tag):
            if not rels["word/document.xml"][el.get(R + "id")][0].endswith("/" + part):
                raise Invalid(tag + " relationship type")
    return z, roots, rels


def iter_imgs(doc):
    def blocks(bs):
        for b in bs:
            if b[0] == "img":
                yield b[1]
            elif b[0] == "ul":
                for it in b[1]:
                    yield from blocks(it)
            elif b[0] == "tbl":
                for row in b[1]:
                    for c in row:
                        yield from blocks(c)
            elif b[0] in ("p", "h"):
                yield from inl(b[-1])

    def inl(xs):
        for x in xs:
            if x[0] == "box":
                yield from blocks(x[1])
            elif x[0] == "a":
                yield from inl(x[2])
            elif x[0] == "sdt":
                yield from inl(x[1])
    for u in doc[2]:
        if u[0] == "unit":
            yield from blocks(u[1])
        elif len(u) > 3:
            yield from (u[3] or {}).get("images", [])


def validate_pptx(data, doc, mode="relative"):
    missing = sum(1 for _ in iter_imgs(doc)) if mode == "missing" else 0
    z, roots, rels = open_package(data, allow_missing=missing)
    check_core(roots, doc[1] or {})
    pres = roots["ppt/presentation.xml"]
    order = [c.tag for c in pres]
    want = [P + t for t in ("sldMasterIdLst", "notesMasterIdLst", "sldIdLst", "sldSz", "notesSz")]
    if order != [t for t in want if t in order]:
        raise Invalid("presentation.xml child order")
    slides = []
    lst = pres.find(P + "sldIdLst")
    for s in (lst if lst is not None else []):
        t = rels["ppt/presentation.xml"][s.get(R + "id")]
        if not t[0].endswith("/slide"):
            raise Invalid("sldId relationship type")
        slides.append(t[1])
    if slides != ["ppt/slides/slide%d.xml" % i for i in range(1, len(doc[2]) + 1)]:
        raise Invalid("slide order %r" % slides)
    layout_ph = set()
    for sp in roots["ppt/slideLayouts/slideLayout1.xml"].iter(P + "ph"):
        layout_ph.add((sp.get("type", "obj"), sp.get("idx", "0")))
    for sname, u in zip(slides, doc[2]):
        root = roots[sname]
        r1 = strip_fallback(root)
        ids = [e.get("id") for e in r1.iter(P + "cNvPr")]
        if len(ids) != len(set(ids)):
            raise Invalid("duplicate shape ids")
        for ph in root.iter(P + "ph"):
            if (ph.get("type", "obj"), ph.get("idx", "0")) not in layout_ph:
                raise Invalid("placeholder without layout placeholder")
        for tb in list(root.iter(P + "txBody")) + list(root.iter(A + "txBody")):
            kids = [k.tag for k in tb]
            if kids[:2] != [A + "bodyPr", A + "lstStyle"] or A + "p" not in kids[2:] or set(kids[2:]) != {A + "p"}:
                raise Invalid("txBody structure")
        for gf in root.iter(P + "graphicFrame"):
            if gf.find(P + "xfrm") is None:
                raise Invalid("graphicFrame without p:xfrm")
            tbl = next(gf.iter(A + "tbl"))
            n = len(tbl.find(A + "tblGrid"))
            for tr in tbl.findall(A + "tr"):
                if len(tr.findall(A + "tc")) != n:
                    raise Invalid("a:tr cell count != grid")
        for ac in root.iter(MC + "AlternateContent"):
            if ac.find(MC + "Choice") is None or ac.find(MC + "Fallback") is None or ac.find(MC + "Choice").get("Requires") != "a14":
                raise Invalid("AlternateContent structure")
        for m in root.iter("{%s}m" % ooxml.NS_A14):
            pass
        types = [t[0].rsplit("/", 1)[-1] for t in rels[sname].values()]
        if types.count("slideLayout") != 1:
            raise Invalid("slide needs exactly one layout")
        ex = (u[2] if len(u) > 2 else None) or {}
        if bool(ex.get("notes")) != ("notesSlide" in types) or bool(ex.get("comments")) != ("comments" in types):
            raise Invalid("notes/comments relationships")
        for t in rels[sname].values():
            if t[0].endswith("/notesSlide"):
                back = [x for x in rels[t[1]].values() if x[0].endswith("/slide")]
                if len(back) != 1 or back[0][1] != sname:
                    raise Invalid("notes slide does not point back")
                if not [x for x in rels[t[1]].values() if x[0].endswith("/notesMaster")]:
                    raise Invalid("notes slide without notes master")
    mrels = rels["ppt/slideMasters/slideMaster1.xml"]
    if sorted(t[0].rsplit("/", 1)[-1] for t in mrels.values()) != ["slideLayout", "theme"]:
        raise Invalid("master relationships")
    return z, roots, rels


def excel_value(cell):
    """python value openpyxl must return for an ADM cell"""
    if cell is None:
        return None
    k = cell[0]
    if k in ("s", "i", "b", "err"):
        return cell[1]
    if k == "f":
        return float(cell[1])
    if k == "d":
        return dt.datetime.fromisoformat(cell[1] + "T00:00:00")
    if k == "dt":
        return dt.datetime.fromisoformat(cell[1])
    if k == "tm":
        return dt.time.fromisoformat(cell[1])
    if k == "dur":
        return dt.timedelta(seconds=cell[1])
    if k == "fml":
        return excel_value(cell[2]) if len(cell) > 2 else None
    raise KeyError(k)


def decode_xstring(s):
    """ST_Xstring decoding (ECMA-376 part 1, 22.9.2.19) - independent of the writer's encoder"""
    import re as _re
    return _re.sub(r"_x([0-9A-Fa-f]{4})_", lambda m: chr(int(m.group(1), 16)), s)


def validate_xlsx(data, doc, mode="relative", inline=False):
    import openpyxl
    missing = sum(1 for _ in iter_imgs(doc)) if mode == "missing" else 0
    z, roots, rels = open_package(data, allow_missing=missing)
    check_core(roots, doc[1] or {})
    with warnings.catch_warnings():
        warnings.simplefilter("ignore")
        try:
            wb = openpyxl.load_workbook(io.BytesIO(data), data_only=True)
            wbf = openpyxl.load_workbook(io.BytesIO(data), data_only=False)
        except Exception as e:  # noqa
            raise Invalid("openpyxl rejects the workbook: %s: %s" % (type(e).__name__, e))
    if wb.sheetnames != [u[1] for u in doc[2]]:
        raise Invalid("sheet names %r" % wb.sheetnames)
    for u, ws, wsf in zip(doc[2], wb.worksheets, wbf.worksheets):
        grid = u[2]
        nr = len(grid)
        nc = max([len(r) for r in grid] + [0])
        for r in range(max(nr, ws.max_row)):
            for c in range(max(nc, ws.max_column)):
                want = excel_value(grid[r][c]) if r < nr and c < len(grid[r]) else None
                got = ws.cell(row=r + 1, column=c + 1).value
                if isinstance(got, str) and got != want:
                    got = decode_xstring(got)     # openpyxl only strips the _x005F_ guard of shared strings; ST_Xstring decoding is done here
                if got != want or type(got) is not type(want):
                    raise Invalid("%s!%s%d: openpyxl reads %r, source %r" % (u[1], ooxml.col_letters(c), r + 1, got, want))
                src = grid[r][c] if r < nr and c < len(grid[r]) else None
                if src is not None and src[0] == "fml":
                    f = wsf.cell(row=r + 1, column=c + 1).value
                    if f != "=" + src[1].lstrip("="):
                        raise Invalid("formula text %r" % (f,))
        # dimension element must be the bounding box
        used = [(r, c) for r, row in enumerate(grid) for c, v in enumerate(row) if v is not None]
        sroot = roots["xl/worksheets/sheet%d.xml" % (doc[2].index(u) + 1)]
        dim = sroot.find("{%s}dimension" % ooxml.NS_S).get("ref")
        if used:
            a = ooxml.col_letters(min(c for _, c in used)) + str(min(r for r, _ in used) + 1)
            b = ooxml.col_letters(max(c for _, c in used)) + str(max(r for r, _ in used) + 1)
            want_dim = a if a == b else a + ":" + b
        else:
            want_dim = "A1"
        if dim != want_dim:
            raise Invalid("dimension %s != %s" % (dim, want_dim))
        for c in sroot.iter("{%s}c" % ooxml.NS_S):
            if len(c) == 0:
                raise Invalid("empty cell element written")
    props = wb.properties
    meta = doc[1] or {}
    for k, a in (("title", "title"), ("author", "creator"), ("subject", "subject"), ("keywords", "keywords"), ("description", "description")):
        got = getattr(props, a) or None
        if a == "creator" and not meta.get(k) and got == "openpyxl":
            got = None                   # openpyxl invents its own name when dc:creator is absent
        if got != (meta.get(k) or None):
            raise Invalid("openpyxl property %s: %r" % (a, getattr(props, a)))
    return z, roots, rels


def check_image_refs(fmt, z, rels, doc, mode):
    """the relationship shape asked for is really what was written"""
    src_prefix = {"docx": "word/document.xml", "pptx": "ppt/slides/", "xlsx": "xl/drawings/"}[fmt]
    media = {"docx": "word/media/", "pptx": "ppt/media/", "xlsx": "xl/media/"}[fmt]
    keys = list(iter_imgs(doc))
    img_rels = [(s, rid, t) for s, m in rels.items() if s.startswith(src_prefix) for rid, t in m.items() if t[0].endswith("/image")]
    parts = [n for n in z.namelist() if n.startswith(media)]
    if mode in ("relative", "parent", "absolute"):
        if len(img_rels) != len(keys) or len(parts) != len(keys):
            raise Invalid("one part and one relationship per anchor expected")
        for _, _, t in img_rels:
            raw = t[3]
            ok = {"relative": not raw.startswith(("/", "../..")) and "/" + media.split("/")[0] + "/" not in "/" + raw,
                  "parent": raw.startswith("../") and media in raw, "absolute": raw.startswith("/" + media)}[mode]
            if not ok:
                raise Invalid("target %r is not of shape %s" % (raw, mode))
        datas = [z.read(t[1]) for _, _, t in img_rels]
        if datas != [IMAGES[k][0] for k in keys]:
            raise Invalid("image bytes/order differ")
    elif mode == "shared":
        if len(parts) != len(set(keys)):
            raise Invalid("shared: one part per key expected")
        per_source = {}
        for s, rid, t in img_rels:
            per_source.setdefault(s, []).append(t[1])
        for s, lst in per_source.items():
            if len(lst) != len(set(lst)):
                raise Invalid("shared: two relationships to one part from one source")
    elif mode == "dup_rid_parts":
        if len(parts) != len(set(keys)) or len(img_rels) != len(keys):
            raise Invalid("dup_rid_parts: one part per key, one relationship per anchor expected")
    elif mode == "missing":
        if parts or len(img_rels) != len(keys):
            raise Invalid("missing: no media part expected")
    elif mode == "external":
        if parts or len(img_rels) != len(keys) or not all(t[2] for _, _, t in img_rels):
            raise Invalid("external: External relationships and no media expected")


# ---------------------------------------------------------------------------------------------- extractor identities


def text_identity(text, truth, ordered=True):
    """list of disagreement strings between an extracted text and the ADM ground truth"""
    out = []
    toks = find_tokens(text)
    want = [t for t, _ in truth["visible"]]
    if not ordered:
        if sorted(toks) != sorted(want):
            out.append("token multiset %r, expected %r" % (toks, want))
    elif toks != want:
        out.append("tokens %r, expected %r" % (toks, want))
    else:
        pos = 0
        prev_end = None
        for tok, b in truth["visible"]:
            i = text.index(tok, pos)
            if prev_end is not None and b != "none" and not any(ch.isspace() for ch in text[prev_end:i]):
                out.append("no whitespace at %s boundary before %s" % (b, tok))
            prev_end = i + len(tok)
            pos = prev_end
    for h in truth["hidden"]:
        if h in text:
            out.append("hidden token %s in text" % h)
    return out


def cell_tokens(cell_text):
    return find_tokens(cell_text if isinstance(cell_text, str) else "")


def docx_case(name, doc, images=None, opts=None, expect_images=None):
    from sharepoint2text.parsing.extractors.ms_modern.docx_extractor import read_docx
    mode = (opts or {}).get("image_ref", "relative")
    try:
        data = ooxml.docx(doc, images, opts)
        if data != ooxml.docx(doc, images, opts):
            raise Invalid("not deterministic")
        z, roots, rels = validate_docx(data, doc, mode)
        check_image_refs("docx", z, rels, doc, mode)
    except Invalid as e:
        return line("WRITER-INVALID", "docx", name, str(e))
    issues = []
    try:
        res = list(read_docx(io.BytesIO(data)))
        r = res[0]
        truth = adm.truth(doc)
        issues += text_identity(r.get_full_text(), truth)
        got_tables = [[[cell_tokens(c) for c in row] for row in t.get_table()] for t in r.iterate_tables()]
        if got_tables != truth["tables"]:
            issues.append("tables %r, expected %r" % (got_tables, truth["tables"]))
        meta = doc[1] or {}
        m = r.get_metadata()
        for k, a in (("title", "title"), ("author", "author"), ("subject", "subject"), ("keywords", "keywords"), ("description", "comments")):
            if (getattr(m, a) or "") != (meta.get(k) or ""):
                issues.append("metadata %s=%r" % (a, getattr(m, a)))
        for k, lst in (("header", r.headers), ("footer", r.footers)):
            if [h.text for h in lst] != ([meta[k]] if meta.get(k) else []):
                issues.append("%s %r" % (k, [h.text for h in lst]))
        if expect_images is None:
            expect_images = [IMAGES[k] for k in iter_imgs(doc)] if mode in ("relative", "parent", "absolute", "shared", "dup_rid_parts") else []
        got = [(i.get_bytes().read(), i.get_content_type()) for i in r.iterate_images()]
        if got != [(d, CTYPE[e]) for d, e in expect_images]:
            issues.append("images: %d returned %r, expected %d" % (len(got), [(len(d), c) for d, c in got], len(expect_images)))
        want_c = sorted(t for u in doc[2] for t in ((u[2] or {}).get("comments") or [])) + []
        crefs = sorted(find_tokens(" ".join(c.text for c in r.comments)))
        hidden_m = sorted(t for t in truth["hidden"] if t[0] == "M")
        if crefs != hidden_m:
            issues.append("comments %r, expected %r" % (crefs, hidden_m))
        fns = find_tokens(" ".join(n.text for n in r.footnotes))
        if fns != [t for t in truth["dontcare"]]:
            issues.append("footnotes %r" % fns)
        units = list(r.iterate_units())
        del want_c, units
    except Exception as e:  # noqa
        issues.append("extractor raised %s: %s" % (type(e).__name__, e))
    if issues:
        return line("EXTRACTOR-DISAGREES", "docx", name, "; ".join(issues))
    line("OK", "docx", name)


def pptx_case(name, doc, images=None, opts=None, expect_images=None, ordered=True):
    from sharepoint2text.parsing.extractors.ms_modern.pptx_extractor import read_pptx
    mode = (opts or {}).get("image_ref", "relative")
    try:
        data = ooxml.pptx(doc, images, opts)
        if data != ooxml.pptx(doc, images, opts):
            raise Invalid("not deterministic")
        z, roots, rels = validate_pptx(data, doc, mode)
        check_image_refs("pptx", z, rels, doc, mode) if (opts or {}).get("math_fallback_image", True) is False or not any(
            "math" == k for k in adm.constructors(doc)) else None
    except Invalid as e:
        return line("WRITER-INVALID", "pptx", name, str(e))
    issues = []
    try:
        r = list(read_pptx(io.BytesIO(data)))[0]
        truth = adm.truth(doc)
        issues += text_identity(r.get_full_text(), truth, ordered)
        units = list(r.iterate_units())
        if len(units) != len(doc[2]):
            issues.append("%d units for %d slides" % (len(units), len(doc[2])))
        else:
            for i, (u, want) in enumerate(zip(units, truth["units"]), 1):
                got_u = find_tokens(u.get_text())
                if (got_u != want if ordered else sorted(got_u) != sorted(want)) or u.get_metadata().unit_number != i:
                    issues.append("unit %d holds %r (number %r), expected %r" % (i, find_tokens(u.get_text()), u.get_metadata().unit_number, want))
        got_tables = [[[cell_tokens(c) for c in row] for row in t.get_table()] for t in r.iterate_tables()]
        if got_tables != truth["tables"]:
            issues.append("tables %r, expected %r" % (got_tables, truth["tables"]))
        meta = doc[1] or {}
        m = r.get_metadata()
        for k, a in (("title", "title"), ("author", "author"), ("subject", "subject"), ("keywords", "keywords"), ("description", "comments")):
            if (getattr(m, a) or "") != (meta.get(k) or ""):
                issues.append("metadata %s=%r" % (a, getattr(m, a)))
        if expect_images is None:
            expect_images = [IMAGES[k] for k in iter_imgs(doc)] if mode in ("relative", "parent", "absolute", "shared", "dup_rid_parts") else []
        got = [(i.get_bytes().read(), i.get_content_type()) for i in r.iterate_images()]
        if got != [(d, CTYPE[e]) for d, e in expect_images]:
            issues.append("images: %d returned %r, expected %d" % (len(got), [(len(d), c) for d, c in got], len(expect_images)))
        for i, (s, u) in enumerate(zip(r.slides, doc[2]), 1):
            want = list(((u[2] if len(u) > 2 else None) or {}).get("comments") or [])
            gotc = [c.text for c in s.comments]
            if gotc != want:
                issues.append("slide %d comments %r, expected %r" % (i, gotc, want))
            if "[Comment:" in s.text:      # documented: "Comments are appended at the end of slide content"
                after = s.text[s.text.index("[Comment:"):]
                late = [t for t in find_tokens(after) if t[0] != "M"]
                if late:
                    issues.append("slide %d .text: shape text %r comes after the comment block" % (i, late))
    except Exception as e:  # noqa
        issues.append("extractor raised %s: %s" % (type(e).__name__, e))
    if issues:
        return line("EXTRACTOR-DISAGREES", "pptx", name, "; ".join(issues))
    line("OK", "pptx", name)


def same_value(got, cell):
    """typed comparison by value; dates/times as any ISO string that parses to the source value (DESIGN C13)"""
    want = excel_value(cell)
    if want is None:
        return got is None
    if isinstance(want, (dt.datetime, dt.time)):
        if not isinstance(got, str):
            return got == want
        try:
            if isinstance(want, dt.time):
                return dt.time.fromisoformat(got) == want
            return dt.datetime.fromisoformat(got) == want
        except ValueError:
            return False
    if isinstance(want, dt.timedelta):
        return got == want
    return got == want and type(got) is type(want)


def xlsx_case(name, doc, images=None, opts=None, expect_images=None, judge_grid=True):
    from sharepoint2text.parsing.extractors.ms_modern.xlsx_extractor import read_xlsx
    mode = (opts or {}).get("image_ref", "relative")
    ref_doc = doc
    if (opts or {}).get("sheet_images"):       # same anchors, written as sheet extras, for the relationship-shape check
        ref_doc = [doc[0], doc[1], [[u[0], u[1], u[2], {"images": list(((u[3] if len(u) > 3 else None) or {}).get("images", [])) +
                                                        list(opts["sheet_images"].get(i, []))}] for i, u in enumerate(doc[2])]]
    try:
        data = ooxml.xlsx(doc, images, opts)
        if data != ooxml.xlsx(doc, images, opts):
            raise Invalid("not deterministic")
        z, roots, rels = validate_xlsx(data, doc, mode, bool((opts or {}).get("inline_strings")))
        check_image_refs("xlsx", z, rels, ref_doc, mode)
    except Invalid as e:
        return line("WRITER-INVALID", "xlsx", name, str(e))
    issues = []
    try:
        r = list(read_xlsx(io.BytesIO(data)))[0]
        want_toks = []
        for u in doc[2]:
            want_toks += find_tokens(u[1])
            for row in u[2]:
                for c in row:
                    v = excel_value(c)
                    if isinstance(v, str):
                        want_toks += find_tokens(v)
        got_toks = find_tokens(r.get_full_text())
        if got_toks != want_toks:
            issues.append("tokens %r, expected %r" % (got_toks, want_toks))
        if [s.name for s in r.sheets] != [u[1] for u in doc[2]]:
            issues.append("sheet names %r" % [s.name for s in r.sheets])
        if judge_grid:
            for s, u in zip(r.sheets, doc[2]):
                grid = [row for row in u[2]]
                while grid and all(c is None for c in grid[-1]):
                    grid = grid[:-1]
                width = max([max([i + 1 for i, c in enumerate(row) if c is not None] + [0]) for row in grid] + [0])
                got = s.get_table()
                ok = len(got) == len(grid)
                if ok:
                    for grow, row in zip(got, grid):
                        row = list(row) + [None] * (width - len(row))
                        if len(grow) != width or not all(same_value(g, c) for g, c in zip(grow, row[:width])):
                            ok = False
                if not ok:
                    issues.append("sheet %s table %r" % (u[1], got))
                try:
                    s2 = r.to_json()
                    import json
                    json.dumps(s2)
                except Exception as e:  # noqa
                    issues.append("to_json/json.dumps: %s: %s" % (type(e).__name__, e))
        meta = doc[1] or {}
        m = r.get_metadata()
        for k, a in (("title", "title"), ("author", "creator"), ("keywords", "keywords"), ("description", "description")):
            if (getattr(m, a) or "") != (meta.get(k) or ""):
                issues.append("metadata %s=%r" % (a, getattr(m, a)))
        if expect_images is None:
            expect_images = [IMAGES[k] for k in iter_imgs(doc)] if mode in ("relative", "parent", "absolute", "shared", "dup_rid_parts") else []
        got = [(i.get_bytes().read(), i.get_content_type()) for i in r.iterate_images()]
        if got != [(d, CTYPE[e]) for d, e in expect_images]:
            issues.append("images: %d returned %r, expected %d" % (len(got), [(len(d), c) for d, c in got], len(expect_images)))
    except Exception as e:  # noqa
        issues.append("extractor raised %s: %s" % (type(e).__name__, e))
    if issues:
        return line("EXTRACTOR-DISAGREES", "xlsx", name, "; ".join(issues))
    line("OK", "xlsx", name)


def refuses(fmt, name, fn, doc, images=None, opts=None):
    try:
        fn(doc, images, opts)
    except NotImplementedError:
        return line("OK", fmt, name, "(NotImplementedError as documented)")
    except Exception as e:  # noqa
        return line("WRITER-INVALID", fmt, name, "raised %s instead of NotImplementedError" % type(e).__name__)
    line("WRITER-INVALID", fmt, name, "inexpressible construct was rendered silently")


# ---------------------------------------------------------------------------------------------- cases


def P_(*inl):
    return ["p", list(inl)]


def T(tok):
    return ["t", tok]


def D(blocks, meta=None, extras=None):
    return ["doc", meta or {}, [["unit", blocks, extras or {}]]]


MATH = ["omath", [["f", [["r", "L"]], [["r", "L"]]]]]
META = {"title": "Tit & <le> \"q\" 'a' é中", "author": "A&u<th>or ü", "subject": "S\"ub'j", "keywords": "k1; k2 & <k3>",
        "description": "Line ä & <b>desc</b>"}

INLINE_CASES = [
    ("t", [T("Bzzzzz")]),
    ("t,t", [T("Bzzzzz"), T("Bbbbbb")]),
    ("tab", [T("Bzzzzz"), ["tab"], T("Bbbbbb")]),
    ("br", [T("Bzzzzz"), ["br"], T("Bbbbbb")]),
    ("a", [["a", "https://example.org/x?a=1&b=2", [T("Kzzzzz")]]]),
    ("ins", [T("Bzzzzz"), ["ins", "Ibbbbb"]]),
    ("del", [T("Bzzzzz"), ["del", "Dbbbbb"]]),
    ("cref", [T("Bzzzzz"), ["cref", "Mbbbbb"]]),
    ("fn", [T("Bzzzzz"), ["fn", "Zbbbbb"]]),
    ("sdt", [["sdt", [T("Szzzzz")]]]),
    ("box", [T("Bzzzzz"), ["box", [P_(T("Sbbbbb"))]]]),
    ("math", [T("Bzzzzz"), ["math", MATH]]),
]


def run_docx():
    for name, inl in INLINE_CASES:
        docx_case("p[%s]" % name, D([P_(*inl)]))
    docx_case("h1,p", D([["h", 1, [T("Hzzzzz")]], P_(T("Bbbbbb"))]))
    docx_case("p,h2,p (preamble)", D([P_(T("Bzzzzz")), ["h", 2, [T("Hbbbbb")]], P_(T("Bccccc"))]))
    docx_case("h3", D([["h", 3, [T("Hzzzzz")]]]))
    docx_case("p,p", D([P_(T("Bzzzzz")), P_(T("Bbbbbb"))]))
    docx_case("ul", D([["ul", [[P_(T("Lzzzzz"))], [P_(T("Lbbbbb"))]]]]))
    docx_case("ul item 2 paragraphs", D([["ul", [[P_(T("Lzzzzz")), P_(T("Lbbbbb"))]]]]))
    docx_case("ul-nested", D([["ul", [[P_(T("Lzzzzz")), ["ul", [[P_(T("Lbbbbb"))]]]], [P_(T("Lccccc"))]]]]))
    docx_case("tbl 1x1", D([["tbl", [[[P_(T("Czzzzz"))]]]]]))
    docx_case("tbl 2x2", D([["tbl", [[[P_(T("Czzzzz"))], [P_(T("Cbbbbb"))]], [[P_(T("Cccccc"))], [P_(T("Cddddd"))]]]]]))
    docx_case("tbl ragged+empty cell", D([["tbl", [[[P_(T("Czzzzz"))], []], [[P_(T("Cbbbbb"))]]]]]))
    docx_case("tbl cell 2 paragraphs", D([["tbl", [[[P_(T("Czzzzz")), P_(T("Cbbbbb"))]]]]]))
    docx_case("tbl-nested", D([["tbl", [[[P_(T("Czzzzz")), ["tbl", [[[P_(T("Cbbbbb"))]]]]]]]]]))
    docx_case("tbl,tbl adjacent", D([["tbl", [[[P_(T("Czzzzz"))]]]], ["tbl", [[[P_(T("Cbbbbb"))]]]]]))
    docx_case("p,tbl,p", D([P_(T("Bzzzzz")), ["tbl", [[[P_(T("Cbbbbb"))]]]], P_(T("Bccccc"))]))
    docx_case("ul item with table", D([["ul", [[["tbl", [[[P_(T("Czzzzz"))]]]]]]]]))
    docx_case("img", D([P_(T("Bzzzzz")), ["img", "png"]]), IMAGES)
    docx_case("img x4 types", D([["img", "png"], ["img", "jpeg"], ["img", "gif"], ["img", "bmp"]]), IMAGES)
    docx_case("img in cell + box", D([["tbl", [[[["img", "png"]]]]], P_(["box", [["img", "gif"]]])]), IMAGES)
    docx_case("img alt text", D([["img", "big"]]), IMAGES, {"alt": {"big": "Zltxxx & <alt>"}})
    docx_case("pb", D([P_(T("Bzzzzz")), ["pb"], P_(T("Bbbbbb"))]))
    docx_case("pb + last_rendered", D([P_(T("Bzzzzz")), ["pb"], P_(T("Bbbbbb"))]), None, {"last_rendered_breaks": True})
    docx_case("block_sdt", D([P_(["sdt", [T("Szzzzz")]]), P_(T("Bbbbbb"))]), None, {"block_sdt": True})
    docx_case("a[t,br,t]", D([P_(["a", "http://h/", [T("Kzzzzz"), ["br"], T("Kbbbbb")]])]))
    docx_case("sdt[a]", D([P_(["sdt", [["a", "http://h/", [T("Kzzzzz")]]]])]))
    docx_case("box[p,tbl,ul]", D([P_(T("Bzzzzz"), ["box", [P_(T("Sbbbbb")), ["tbl", [[[P_(T("Cccccc"))]]]], ["ul", [[P_(T("Lddddd"))]]]]])]))
    docx_case("two boxes", D([P_(["box", [P_(T("Szzzzz"))]], ["box", [P_(T("Sbbbbb"))]])]))
    docx_case("math para wrapper", D([P_(["math", ["para", [["rad", None, [["r", "L"]]]]]])]))
    docx_case("cell[ins,del,fn,cref]", D([["tbl", [[[P_(["ins", "Izzzzz"], ["del", "Dbbbbb"], ["fn", "Zccccc"], ["cref", "Mddddd"])]]]]]))
    docx_case("empty document", ["doc", {}, []])
    docx_case("empty unit", D([]))
    docx_case("empty paragraph", D([P_()]))
    docx_case("two units", ["doc", {}, [["unit", [P_(T("Bzzzzz"))], {}], ["unit", [P_(T("Bbbbbb"))], {}]]])
    docx_case("three units (tbl, empty, img)", ["doc", {}, [["unit", [["tbl", [[[P_(T("Czzzzz"))]]]]], {}], ["unit", [], {}],
                                                   ["unit", [["img", "png"]], {}]]], IMAGES)
    docx_case("two units + last_rendered", ["doc", {}, [["unit", [P_(T("Bzzzzz"))], {}], ["unit", [["tbl", [[[P_(T("Cbbbbb"))]]]]], {}]]],
              None, {"last_rendered_breaks": True})
    docx_case("extra:comments", D([P_(T("Bzzzzz")), P_(T("Bbbbbb"))], None, {"comments": ["Mccccc", "Mddddd"]}))
    docx_case("extra:comments, unit starts with tbl", D([["tbl", [[[P_(T("Czzzzz"))]]]]], None, {"comments": ["Mccccc"]}))
    docx_case("extra:comments on empty unit 2", ["doc", {}, [["unit", [P_(T("Bzzzzz"))], {}], ["unit", [], {"comments": ["Mbbbbb"]}]]])
    docx_case("meta all (special chars)", D([P_(T("Bzzzzz"))], dict(META)))
    for k in META:
        docx_case("meta:" + k, D([P_(T("Bzzzzz"))], {k: META[k]}))
    docx_case("meta:header", D([P_(T("Bzzzzz"))], {"header": "Rhhhhh"}))
    docx_case("meta:footer", D([P_(T("Bzzzzz"))], {"footer": "Rfffff"}))
    docx_case("meta:header+footer", D([P_(T("Bzzzzz"))], {"header": "Rhhhhh", "footer": "Rfffff", "title": "Zttttt"}))
    two = ["doc", {}, [["unit", [["img", "png"], P_(T("Bzzzzz")), ["img", "png"], ["img", "jpeg"]], {}]]]
    for mode in ooxml.IMAGE_REFS:
        exp = None
        if mode in ("shared",):
            exp = [IMAGES["png"], IMAGES["jpeg"]]          # one part per key -> one image per part
        if mode == "dup_rid_parts":
            exp = [IMAGES["png"], IMAGES["png"], IMAGES["jpeg"]]
        docx_case("image_ref=" + mode, two, IMAGES, {"image_ref": mode}, expect_images=exp)
    docx_case("everything", ["doc", dict(META, header="Rhhhhh", footer="Rfffff"), [
        ["unit", [["h", 1, [T("Hzzzzz")]], P_(T("Bbbbbb"), ["tab"], T("Bccccc"), ["br"], ["a", "http://h/?x=1&y=2", [T("Kddddd")]],
                                              ["ins", "Ifffff"], ["del", "Dggggg"], ["cref", "Mhhhhh"], ["fn", "Zjjjjj"], ["sdt", [T("Skkkkk")]]),
                  ["ul", [[P_(T("Lmmmmm")), ["ul", [[P_(T("Lnnnnn"))]]]]]], ["tbl", [[[P_(T("Cppppp"))], [P_(T("Cqqqqq"))]]]], ["img", "png"]],
         {"comments": ["Mrrrrr"]}], ["unit", [P_(T("Bsssss"), ["math", MATH])], {}]]], IMAGES)
    docx_case("opts core_dates + zip_stored", D([P_(T("Bzzzzz"))], {"title": "Zttttt"}), None, {"core_dates": "2020-01-02T03:04:05Z", "zip_stored": True})
    try:
        ooxml.docx(D([]), None, {"blocksdt": True})
        line("WRITER-INVALID", "docx", "unknown option refused", "accepted")
    except ValueError:
        line("OK", "docx", "unknown option refused", "(ValueError)")
    refuses("docx", "extra:notes refused", ooxml.docx, D([P_(T("Bzzzzz"))], None, {"notes": ["Pzzzzz"]}))
    refuses("docx", "sheet unit refused", ooxml.docx, ["doc", {}, [["sheet", "Nzzzzz", []]]])
    refuses("docx", "fn in box refused", ooxml.docx, D([P_(["box", [P_(["fn", "Zzzzzz"])]])]))
    refuses("docx", "box in box refused", ooxml.docx, D([P_(["box", [P_(["box", [P_(T("Szzzzz"))]])]])]))
    refuses("docx", "a in a refused", ooxml.docx, D([P_(["a", "http://h/", [["a", "http://g/", [T("Kzzzzz")]]]])]))
    refuses("docx", "unknown meta key refused", ooxml.docx, D([], {"category": "x"}))


def run_pptx():
    for name, inl in INLINE_CASES:
        if name in ("ins", "del", "cref", "fn", "sdt", "box"):
            refuses("pptx", "p[%s] refused" % name, ooxml.pptx, D([P_(*inl)]))
        else:
            pptx_case("p[%s]" % name, D([P_(*inl)]))
    pptx_case("h", D([["h", 1, [T("Hzzzzz")]]]))
    pptx_case("h,p", D([["h", 1, [T("Hzzzzz")]], P_(T("Bbbbbb"))]))
    pptx_case("p,h (title below)", D([P_(T("Bzzzzz")), ["h", 2, [T("Hbbbbb")]]]))
    pptx_case("p,p", D([P_(T("Bzzzzz")), P_(T("Bbbbbb"))]))
    pptx_case("ul", D([["ul", [[P_(T("Lzzzzz"))], [P_(T("Lbbbbb"))]]]]))
    pptx_case("ul item 2 paragraphs", D([["ul", [[P_(T("Lzzzzz")), P_(T("Lbbbbb"))]]]]))
    pptx_case("ul-nested", D([["ul", [[P_(T("Lzzzzz")), ["ul", [[P_(T("Lbbbbb"))]]]], [P_(T("Lccccc"))]]]]))
    pptx_case("ul,ul", D([["ul", [[P_(T("Lzzzzz"))]]], ["ul", [[P_(T("Lbbbbb"))]]]]))
    pptx_case("tbl 1x1", D([["tbl", [[[P_(T("Czzzzz"))]]]]]))
    pptx_case("tbl 2x2", D([["tbl", [[[P_(T("Czzzzz"))], [P_(T("Cbbbbb"))]], [[P_(T("Cccccc"))], [P_(T("Cddddd"))]]]]]))
    pptx_case("tbl empty cell + 2 paragraphs", D([["tbl", [[[], [P_(T("Czzzzz")), P_(T("Cbbbbb"))]]]]]))
    pptx_case("p,tbl,p", D([P_(T("Bzzzzz")), ["tbl", [[[P_(T("Cbbbbb"))]]]], P_(T("Bccccc"))]))
    pptx_case("img", D([P_(T("Bzzzzz")), ["img", "png"]]), IMAGES)
    pptx_case("img x4 types", D([["img", "png"], ["img", "jpeg"], ["img", "gif"], ["img", "bmp"]]), IMAGES)
    pptx_case("img alt text", D([["img", "big"]]), IMAGES, {"alt": {"big": "Zltxxx & <alt>"}})
    pptx_case("a[t,tab,t]", D([P_(["a", "http://h/", [T("Kzzzzz"), ["tab"], T("Kbbbbb")]])]))
    pptx_case("h[math]", D([["h", 1, [T("Hzzzzz"), ["math", MATH]]]]))
    pptx_case("ul[math]", D([["ul", [[P_(T("Lzzzzz"), ["math", MATH])]]]]))
    pptx_case("math, no fallback image", D([P_(T("Bzzzzz"), ["math", MATH])]), None, {"math_fallback_image": False})
    pptx_case("h,p,ul,tbl no_offsets", D([["h", 1, [T("Hzzzzz")]], P_(T("Bbbbbb")), ["ul", [[P_(T("Lccccc"))]]], ["tbl", [[[P_(T("Cddddd"))]]]]]),
              None, {"no_offsets": True}, ordered=False)   # without offsets the documented order is by placeholder class, not source
    pptx_case("p,h,ul no_offsets", D([P_(T("Bzzzzz")), ["h", 1, [T("Hbbbbb")]], ["ul", [[P_(T("Lccccc"))]]]]), None, {"no_offsets": True}, ordered=False)
    pptx_case("empty presentation", ["doc", {}, []])
    pptx_case("empty slide", D([]))
    pptx_case("two units", ["doc", {}, [["unit", [P_(T("Bzzzzz"))], {}], ["unit", [P_(T("Bbbbbb"))], {}]]])
    pptx_case("three units (text, empty, text)", ["doc", {}, [["unit", [P_(T("Bzzzzz"))], {}], ["unit", [], {}], ["unit", [P_(T("Bbbbbb"))], {}]]])
    pptx_case("extra:notes", D([P_(T("Bzzzzz"))], None, {"notes": ["Pbbbbb", "Pccccc"]}))
    pptx_case("extra:comments slide 1", D([P_(T("Bzzzzz"))], None, {"comments": ["Mbbbbb", "Mccccc"]}))
    pptx_case("extra:comments slide 2 only", ["doc", {}, [["unit", [P_(T("Bzzzzz"))], {}], ["unit", [P_(T("Bbbbbb"))], {"comments": ["Mccccc"]}]]])
    pptx_case("extra:comments slide 2 only, part=slide no", ["doc", {}, [["unit", [P_(T("Bzzzzz"))], {}], ["unit", [P_(T("Bbbbbb"))], {"comments": ["Mccccc"]}]]],
              None, {"comment_part_numbering": "slide"})
    pptx_case("notes+comments both slides", ["doc", {}, [["unit", [P_(T("Bzzzzz"))], {"notes": ["Pbbbbb"], "comments": ["Mccccc"]}],
                                                      ["unit", [P_(T("Bddddd"))], {"notes": ["Pfffff"], "comments": ["Mggggg"]}]]])
    pptx_case("meta all (special chars)", D([P_(T("Bzzzzz"))], dict(META)))
    for k in META:
        pptx_case("meta:" + k, D([P_(T("Bzzzzz"))], {k: META[k]}))
    two = ["doc", {}, [["unit", [["img", "png"], P_(T("Bzzzzz")), ["img", "png"]], {}], ["unit", [["img", "png"], ["img", "jpeg"]], {}]]]
    for mode in ooxml.IMAGE_REFS:
        pptx_case("image_ref=" + mode, two, IMAGES, {"image_ref": mode})
    pptx_case("everything", ["doc", dict(META), [
        ["unit", [["h", 1, [T("Hzzzzz")]], P_(T("Bbbbbb"), ["tab"], T("Bccccc"), ["br"], ["a", "http://h/?x=1&y=2", [T("Kddddd")]]),
                  ["ul", [[P_(T("Lmmmmm")), ["ul", [[P_(T("Lnnnnn"))]]]]]], ["tbl", [[[P_(T("Cppppp"))], [P_(T("Cqqqqq"))]]]], ["img", "png"]],
         {"comments": ["Mrrrrr"], "notes": ["Pttttt"]}], ["unit", [P_(T("Bsssss"), ["math", MATH])], {}]]], IMAGES)
    pptx_case("opts core_dates + zip_stored", D([P_(T("Bzzzzz"))], {"title": "Zttttt"}), None, {"core_dates": "2020-01-02T03:04:05Z", "zip_stored": True})
    refuses("pptx", "pb refused", ooxml.pptx, D([["pb"]]))
    refuses("pptx", "second heading refused", ooxml.pptx, D([["h", 1, [T("Hzzzzz")]], ["h", 1, [T("Hbbbbb")]]]))
    refuses("pptx", "tbl-nested refused", ooxml.pptx, D([["tbl", [[[["tbl", [[[P_(T("Czzzzz"))]]]]]]]]]))
    refuses("pptx", "ragged tbl refused", ooxml.pptx, D([["tbl", [[[P_(T("Czzzzz"))], []], [[P_(T("Cbbbbb"))]]]]]))
    refuses("pptx", "meta:header refused", ooxml.pptx, D([], {"header": "Rzzzzz"}))
    refuses("pptx", "tbl in list item refused", ooxml.pptx, D([["ul", [[["tbl", [[[P_(T("Czzzzz"))]]]]]]]]))


def S(name, grid, extras=None):
    return ["sheet", name, grid] + ([extras] if extras else [])


def X(*sheets, meta=None):
    return ["doc", meta or {}, list(sheets)]


HDR = [["s", "Chdrzz"], ["s", "Chdrbb"]]


def run_xlsx():
    xlsx_case("1 string cell", X(S("Nzzzzz", [[["s", "Czzzzz"]]])))
    xlsx_case("2x2 strings", X(S("Nzzzzz", [HDR, [["s", "Czzzzz"], ["s", "Cbbbbb"]]])))
    cells = [("i", ["i", 5]), ("i negative", ["i", -12]), ("i large", ["i", 2 ** 40]), ("f", ["f", 2.5]), ("f integral", ["f", 2.0]),
             ("f small", ["f", 1e-7]), ("f big", ["f", 1.5e300]), ("b true", ["b", True]), ("b false", ["b", False]),
             ("d", ["d", "2024-02-29"]), ("d 1900-01-01", ["d", "1900-01-01"]), ("d 1900-02-28", ["d", "1900-02-28"]),
             ("d 1900-03-01", ["d", "1900-03-01"]), ("d 9999-12-31", ["d", "9999-12-31"]),
             ("dt", ["dt", "2024-02-29T13:14:15"]), ("dt 23:59:59", ["dt", "1999-12-31T23:59:59"]),
             ("tm", ["tm", "13:14:15"]), ("tm 00:00:01", ["tm", "00:00:01"]), ("tm 23:59:59", ["tm", "23:59:59"]),
             ("dur", ["dur", 90061]), ("dur 1s", ["dur", 1]), ("dur 30h", ["dur", 108000]),
             ("err div0", ["err", "#DIV/0!"]), ("err n/a", ["err", "#N/A"]), ("err name", ["err", "#NAME?"]),
             ("fml int", ["fml", "=1+1", ["i", 2]]), ("fml str", ["fml", 'A1&"x"', ["s", "Cfmlst"]]), ("fml bool", ["fml", "1=1", ["b", True]]),
             ("fml err", ["fml", "1/0", ["err", "#DIV/0!"]]), ("fml date", ["fml", "DATE(2024,2,29)", ["d", "2024-02-29"]]),
             ("fml float", ["fml", "5/2", ["f", 2.5]]), ("fml dur", ["fml", "A1*2", ["dur", 7200]]),
             ("s numeric-looking", ["s", "007"]), ("s with spaces", ["s", " Cspcxx  "]), ("s markup", ["s", "Ca&<b>\"'"]),
             ("s newline+tab", ["s", "Clnzzb\nClnzzc\tClnzzd"]), ("s _x0041_ literal", ["s", "C_x0041_"]), ("s unicode", ["s", "é中\U0001F600"]),
             ("s control char", ["s", "a\x01b\rc"])]
    for name, cell in cells:
        xlsx_case("cell " + name, X(S("Nzzzzz", [HDR, [["s", "Czzzzz"], cell]])))
        if cell[0] == "s":
            xlsx_case("cell " + name + " inline", X(S("Nzzzzz", [HDR, [["s", "Czzzzz"], cell]])), None, {"inline_strings": True})
    xlsx_case("fml without cached value", X(S("Nzzzzz", [HDR, [["s", "Czzzzz"], ["fml", "1+1"]]])))
    xlsx_case("None cells (sparse)", X(S("Nzzzzz", [HDR + [["s", "Chdrcc"]], [None, ["s", "Czzzzz"], None], [None, None, None], [["s", "Cbbbbb"], None, ["s", "Cccccc"]]])))
    xlsx_case("offset block (B2:C3)", X(S("Nzzzzz", [[None, None, None], [None, ["s", "Czzzzz"], ["s", "Cbbbbb"]], [None, ["s", "Cccccc"], ["s", "Cddddd"]]])))
    xlsx_case("all cell types, inline", X(S("Nzzzzz", [[["s", "Chdr" + c * 2] for c in "bcdfghjkl"],
                                                     [["s", "Czzzzz"], ["i", 1], ["f", 1.5], ["b", True], ["d", "2020-01-02"], ["dt", "2020-01-02T03:04:05"],
                                                      ["tm", "03:04:05"], ["dur", 3600], ["err", "#REF!"]]])), None, {"inline_strings": True})
    xlsx_case("header int (typed header)", X(S("Nzzzzz", [[["i", 5], ["s", "Chdrbb"]], [["s", "Czzzzz"], ["s", "Cbbbbb"]]])))
    xlsx_case("header empty cell", X(S("Nzzzzz", [[["s", "Chdrzz"], None, ["s", "Chdrcc"]], [["s", "Czzzzz"], ["s", "Cbbbbb"], ["s", "Cccccc"]]])))
    xlsx_case("title row (1 value) + table", X(S("Nzzzzz", [[["s", "Cttlxx"], None], HDR, [["s", "Czzzzz"], ["s", "Cbbbbb"]]])))
    xlsx_case("single row", X(S("Nzzzzz", [HDR])))
    xlsx_case("duplicate strings (sst reuse)", X(S("Nzzzzz", [HDR, [["s", "Cdpzzz"], ["s", "Cdpzzz"]]])), judge_grid=True)
    xlsx_case("empty sheet", X(S("Nzzzzz", [])))
    xlsx_case("two sheets", X(S("Nzzzzz", [HDR, [["s", "Czzzzz"], ["s", "Cbbbbb"]]]), S("Nbbbbb", [[["s", "Chdrcc"], ["s", "Chdrdd"]], [["s", "Cccccc"], ["i", 3]]])))
    xlsx_case("three sheets (data, empty, data)", X(S("Nzzzzz", [HDR, [["s", "Czzzzz"], ["i", 1]]]), S("Nbbbbb", []), S("Nccccc", [[["s", "Chdrcc"], ["s", "Chdrdd"]], [["s", "Cccccc"], ["i", 3]]])))
    xlsx_case("sheet name with & < ' space", X(S("Nam & <e> 'q", [HDR, [["s", "Czzzzz"], ["s", "Cbbbbb"]]])))
    xlsx_case("meta all (special chars)", X(S("Nzzzzz", [HDR, [["s", "Czzzzz"], ["i", 1]]]), meta=dict(META)))
    for k in META:
        xlsx_case("meta:" + k, X(S("Nzzzzz", [HDR, [["s", "Czzzzz"], ["i", 1]]]), meta={k: META[k]}))
    xlsx_case("img", X(S("Nzzzzz", [HDR, [["s", "Czzzzz"], ["i", 1]]], {"images": ["png"]})), IMAGES)
    xlsx_case("img x4 types", X(S("Nzzzzz", [HDR, [["s", "Czzzzz"], ["i", 1]]], {"images": ["png", "jpeg", "gif", "bmp"]})), IMAGES)
    xlsx_case("img on sheet 2 only", X(S("Nzzzzz", [HDR, [["s", "Czzzzz"], ["i", 1]]]), S("Nbbbbb", [HDR, [["s", "Cbbbbb"], ["i", 2]]], {"images": ["gif"]})), IMAGES)
    xlsx_case("img via opts.sheet_images + alt", X(S("Nzzzzz", [HDR, [["s", "Czzzzz"], ["i", 1]]])), IMAGES, {"sheet_images": {0: ["big"]}, "alt": {"big": "Zltxxx & <alt>"}},
              expect_images=[IMAGES["big"]])
    two = X(S("Nzzzzz", [HDR, [["s", "Czzzzz"], ["i", 1]]], {"images": ["png", "png"]}), S("Nbbbbb", [HDR, [["s", "Cbbbbb"], ["i", 2]]], {"images": ["png", "jpeg"]}))
    for mode in ooxml.IMAGE_REFS:
        xlsx_case("image_ref=" + mode, two, IMAGES, {"image_ref": mode})
    xlsx_case("opts core_dates + zip_stored", X(S("Nzzzzz", [HDR, [["s", "Czzzzz"], ["i", 1]]]), meta={"title": "Zttttt"}), None,
              {"core_dates": "2020-01-02T03:04:05Z", "zip_stored": True})
    refuses("xlsx", "text unit refused", ooxml.xlsx, D([P_(T("Bzzzzz"))]))
    refuses("xlsx", "no sheet refused", ooxml.xlsx, ["doc", {}, []])
    refuses("xlsx", "date before 1900 refused", ooxml.xlsx, X(S("Nzzzzz", [[["d", "1899-12-31"]]])))
    refuses("xlsx", "nan refused", ooxml.xlsx, X(S("Nzzzzz", [[["f", float("nan")]]])))
    refuses("xlsx", "meta:footer refused", ooxml.xlsx, X(S("Nzzzzz", []), meta={"footer": "Rzzzzz"}))
    for bad in ("", "a/b", "x" * 32, "[a]"):
        try:
            ooxml.xlsx(X(S(bad, [])))
            line("WRITER-INVALID", "xlsx", "bad sheet name %r" % bad[:8], "accepted")
        except ValueError:
            line("OK", "xlsx", "bad sheet name %r" % bad[:8], "(ValueError)")


def check_caps():
    for fmt, caps, fn in (("docx", ooxml.CAPS_DOCX, ooxml.docx), ("pptx", ooxml.CAPS_PPTX, ooxml.pptx), ("xlsx", ooxml.CAPS_XLSX, ooxml.xlsx)):
        bad = [c for c in caps if not isinstance(c, str)]
        line("OK" if not bad else "WRITER-INVALID", fmt, "CAPS is a set of names", "%d names" % len(caps))
    everything = ["doc", dict(META, header="Rhhhhh", footer="Rfffff"), [
        ["unit", [["h", 1, [T("Hzzzzz")]], P_(T("Bbbbbb"), ["tab"], ["br"], ["a", "http://h/", [T("Kddddd")]], ["ins", "Ifffff"], ["del", "Dggggg"],
                                              ["cref", "Mhhhhh"], ["fn", "Zjjjjj"], ["sdt", [T("Skkkkk")]], ["box", [P_(T("Sbbbbb"))]], ["math", MATH]),
                  ["ul", [[P_(T("Lmmmmm")), ["ul", [[P_(T("Lnnnnn"))]]]]]], ["tbl", [[[P_(T("Cppppp")), ["tbl", [[[P_(T("Cqqqqq"))]]]]]]]], ["img", "png"], ["pb"]],
         {"comments": ["Mrrrrr"]}], ["unit", [], {}]]]
    used = adm.constructors(everything)
    ok = used <= ooxml.CAPS_DOCX and used == set(ooxml.CAPS_DOCX)
    line("OK" if ok else "WRITER-INVALID", "docx", "CAPS_DOCX == constructors(everything)", "" if ok else repr(used ^ set(ooxml.CAPS_DOCX)))
    try:
        ooxml.docx(everything, IMAGES)
        line("OK", "docx", "CAPS_DOCX document renders")
    except Exception as e:  # noqa
        line("WRITER-INVALID", "docx", "CAPS_DOCX document renders", repr(e))


def main():
    check_caps()
    run_docx()
    run_pptx()
    run_xlsx()
    print()
    print("SUMMARY  OK=%d  WRITER-INVALID=%d  EXTRACTOR-DISAGREES=%d" % (RESULTS["OK"], RESULTS["WRITER-INVALID"], RESULTS["EXTRACTOR-DISAGREES"]))
    if DISAGREE:
        print("extractor disagreements (valid file, library returns something else):")
        for fmt, name, msg in DISAGREE:
            print("  - %s %s: %s" % (fmt, name, msg[:300]))
    return 0


if __name__ == "__main__":
    sys.exit(main())
