"""Self-test of verif.gen.pdfw:  PYTHONPATH=/verif /venv/bin/python -B -m verif.gen.selftest_pdfw

For the simplest terms of every supported constructor: render, then
  (1) independent validation (a failure is WRITER-INVALID):
        - own structural check: header, every xref entry points at "N 0 obj", startxref points at "xref", %%EOF
        - pypdf.PdfReader(strict=True) with the pypdf logger captured (any warning fails): page count, page text,
          /Info values, content stream operators, image XObject dictionaries and DCT payload, object sharing
        - encrypted files: pypdf must accept the user and the owner password and reject a wrong one, and /O and /U must
          equal the values pypdf's own implementation of Algorithms 2-5 computes for the same inputs
  (2) the library's read_pdf (a difference is EXTRACTOR-DISAGREES): page count, unit numbers, tokens per page, full
      text against the ground truth, images per page (bytes, content type, unit number).
"""
from __future__ import annotations

import io
import logging
import re
import struct
import sys
import time

from verif.gen import adm, pdfw
from verif.gen.tokens import Tokens, find_tokens

RESULTS = {"OK": 0, "WRITER-INVALID": 0, "EXTRACTOR-DISAGREES": 0}


def report(kind, name, detail=""):
    RESULTS[kind] += 1
    print("%-19s %s%s" % (kind, name, (": " + detail) if detail else ""))


# ----------------------------------------------------------------------------------------------------------------------
# test images: a baseline JPEG of arbitrary size (every 8x8 block: DC difference 0, end-of-block), 1 or 3 components
# ----------------------------------------------------------------------------------------------------------------------

def make_jpeg(w, h, comps=1, fill=0):
    out = bytearray(b"\xff\xd8")
    out += b"\xff\xe0" + struct.pack(">H", 16) + b"JFIF\x00\x01\x01\x00\x00\x01\x00\x01\x00\x00"
    out += b"\xff\xdb" + struct.pack(">H", 67) + b"\x00" + bytes([1 + fill % 200] * 64)
    out += b"\xff\xc0" + struct.pack(">HBHHB", 8 + 3 * comps, 8, h, w, comps)
    for c in range(comps):
        out += bytes([c + 1, 0x11, 0])
    for tc in (0x00, 0x10):                                      # one DC and one AC table, each with the single code "0"
        out += b"\xff\xc4" + struct.pack(">H", 20) + bytes([tc, 1] + [0] * 15 + [0])
    out += b"\xff\xda" + struct.pack(">HB", 6 + 2 * comps, comps)
    for c in range(comps):
        out += bytes([c + 1, 0x00])
    out += b"\x00\x3f\x00"
    nbits = 2 * comps * ((w + 7) // 8) * ((h + 7) // 8)
    bits = "0" * nbits + "1" * (-nbits % 8)
    data = bytes(int(bits[i:i + 8], 2) for i in range(0, len(bits), 8))
    out += data.replace(b"\xff", b"\xff\x00")
    out += b"\xff\xd9"
    return bytes(out)


def make_png(w, h):
    import zlib

    def chunk(t, d):
        return struct.pack(">I", len(d)) + t + d + struct.pack(">I", zlib.crc32(t + d) & 0xFFFFFFFF)
    raw = b"".join(b"\x00" + b"\x80" * w for _ in range(h))
    return (b"\x89PNG\r\n\x1a\n" + chunk(b"IHDR", struct.pack(">IIBBBBB", w, h, 8, 0, 0, 0, 0))
            + chunk(b"IDAT", zlib.compress(raw, 9)) + chunk(b"IEND", b""))


# ----------------------------------------------------------------------------------------------------------------------
# ground truth helpers
# ----------------------------------------------------------------------------------------------------------------------

def judge(text, tr):
    probs = []
    dc = set(tr["dontcare"])
    spans = [(m.group(0), m.start(), m.end()) for m in re.finditer(r"[A-Z][bcdfghjklmnpqrstvwxz]{5}", text or "")]
    spans = [s for s in spans if s[0] not in dc]
    vis = []
    for s_, b in tr["visible"]:
        for j, tk in enumerate(find_tokens(s_)):
            vis.append((tk, b if j == 0 else "any"))
    if [s[0] for s in spans] != [v[0] for v in vis]:
        return ["tokens %s expected %s" % ([s[0] for s in spans], [v[0] for v in vis])]
    for h in tr["hidden"]:
        for tk in find_tokens(h):
            if tk in text:
                probs.append("hidden token %s present" % tk)
    for i in range(1, len(spans)):
        b = vis[i][1]
        if b not in ("none", "any") and not re.search(r"\s", text[spans[i - 1][2]:spans[i][1]]):
            probs.append("%s|%s not separated (boundary %s)" % (spans[i - 1][0], spans[i][0], b))
    return probs


def expected_pages(doc):
    """Per unit: list of text lines (empty lines of empty paragraphs are not painted) and list of image keys."""
    pages = []
    for u in doc[2]:
        lines, imgs = [], []
        for b in u[1]:
            if b[0] in ("p", "h"):
                cur = []
                for x in b[-1]:
                    if x[0] == "t":
                        cur.append(x[1])
                    elif x[0] == "br":
                        lines.append(" ".join(cur))
                        cur = []
                lines.append(" ".join(cur))
            elif b[0] == "img":
                imgs.append(b[1])
        pages.append(([ln for ln in lines if ln], imgs))
    return pages


# ----------------------------------------------------------------------------------------------------------------------
# independent validation
# ----------------------------------------------------------------------------------------------------------------------

class _Capture(logging.Handler):
    def __init__(self):
        super().__init__(level=logging.WARNING)
        self.msgs = []

    def emit(self, record):
        self.msgs.append(record.getMessage())


def structural_check(data):
    assert data.startswith(b"%PDF-1.4\n%"), "header"
    assert data.endswith(b"%%EOF\n"), "trailer end"
    m = re.search(rb"startxref\n(\d+)\n%%EOF\n$", data)
    assert m, "startxref"
    x = int(m.group(1))
    assert data[x:x + 5] == b"xref\n", "startxref does not point at xref"
    m2 = re.match(rb"xref\n0 (\d+)\n", data[x:])
    n = int(m2.group(1))
    pos = x + m2.end()
    assert data[pos:pos + 20] == b"0000000000 65535 f \n", "free entry"
    for i in range(1, n):
        e = data[pos + 20 * i:pos + 20 * i + 20]
        assert re.fullmatch(rb"\d{10} 00000 n \n", e), "xref entry %d malformed %r" % (i, e)
        off = int(e[:10])
        assert data[off:off + len(b"%d 0 obj\n" % i)] == b"%d 0 obj\n" % i, "xref entry %d does not point at the object" % i
    tail = data[pos + 20 * n:]
    assert tail.startswith(b"trailer\n<< /Size %d " % n), "trailer /Size"
    assert len(re.findall(rb"\d+ 0 obj\n", data[:x])) >= n - 1
    return n


def validate(data, doc, images, opts):
    from pypdf import PdfReader
    from pypdf.generic import ContentStream
    structural_check(data)
    cap = _Capture()
    lg = logging.getLogger("pypdf")
    lg.addHandler(cap)
    try:
        r = PdfReader(io.BytesIO(data), strict=True)
        enc = (opts or {}).get("encrypt")
        if enc:
            assert r.is_encrypted, "not marked encrypted"
            from pypdf import PasswordType
            assert PdfReader(io.BytesIO(data), strict=True).decrypt("no-such-password") == PasswordType.NOT_DECRYPTED, \
                "wrong password accepted"
            if enc.get("owner") and enc.get("owner") != enc.get("user", ""):
                assert PdfReader(io.BytesIO(data), strict=True).decrypt(enc["owner"]) == PasswordType.OWNER_PASSWORD, \
                    "owner password rejected"
            same = (enc.get("owner") or enc.get("user", "")) == enc.get("user", "")    # pypdf tries the owner role first
            assert r.decrypt(enc.get("user", "")) == (PasswordType.OWNER_PASSWORD if same else PasswordType.USER_PASSWORD), \
                "user password rejected"
            check_against_pypdf_algorithms(r, enc)
        else:
            assert not r.is_encrypted
        exp = expected_pages(doc)
        assert len(r.pages) == len(exp), "page count %d expected %d" % (len(r.pages), len(exp))
        seen_img_objs = {}
        for i, (page, (lines, imgs)) in enumerate(zip(r.pages, exp)):
            assert [float(v) for v in page.mediabox] == [0, 0, 612, 792], "mediabox"
            text = page.extract_text()        # pypdf adds line breaks of its own around images: compare the lines
            got_lines = [ln for ln in text.split("\n") if ln.strip()]
            assert got_lines == lines, "page %d text %r expected lines %r" % (i + 1, text, lines)
            contents = page.get_contents()
            if not lines and not imgs:
                mode = (opts or {}).get("empty_page", "nostream")
                if mode == "nostream":
                    assert "/Contents" not in page, "empty page has /Contents"
                else:
                    assert "/Contents" in page and contents.get_data() == b"", "empty page stream not empty"
                continue
            ops = ContentStream(contents, r).operations
            names = [o for _, o in ops]
            n_text = names.count(b"Tj")
            assert n_text == len(lines), "Tj count"
            ys = [float(a[1]) for a, o in ops if o == b"Td"]
            assert ys == sorted(ys, reverse=True) and all(y >= 40 for y in ys), "line positions %r" % ys
            assert all(float(a[0]) == 72 for a, o in ops if o == b"Td"), "x position"
            dos = [a[0] for a, o in ops if o == b"Do"]
            assert len(dos) == len(imgs), "Do count %d expected %d" % (len(dos), len(imgs))
            xo = page["/Resources"].get("/XObject", {})
            for nm, key in zip(dos, imgs):
                x = xo[nm]
                jd, _ = images[key]
                w, h, comps = pdfw.jpeg_info(jd)
                assert x["/Subtype"] == "/Image" and x["/Filter"] == "/DCTDecode", "image dict"
                assert (x["/Width"], x["/Height"], x["/BitsPerComponent"]) == (w, h, 8), "image size"
                assert x["/ColorSpace"] == ("/DeviceGray" if comps == 1 else "/DeviceRGB"), "colour space"
                assert x._data == jd or x.get_data() == jd, "image payload differs"
                ref = xo.raw_get(nm).idnum
                if (opts or {}).get("shared_images"):
                    assert seen_img_objs.setdefault(key, ref) == ref, "image %r not shared" % key
                else:
                    assert ref not in seen_img_objs.values() or seen_img_objs.get((i, nm)) == ref, "image object reused"
                    seen_img_objs[(i, nm)] = ref
        meta = doc[1] or {}
        info = r.metadata or {}
        for k, name in (("title", "/Title"), ("author", "/Author"), ("subject", "/Subject"), ("keywords", "/Keywords")):
            if k in meta:
                assert info.get(name) == meta[k], "%s %r expected %r" % (name, info.get(name), meta[k])
            else:
                assert name not in info, "unexpected %s" % name
        assert r.trailer["/ID"][0] == r.trailer["/ID"][1] and len(bytes(r.trailer["/ID"][0].original_bytes)) == 16, "/ID"
    finally:
        lg.removeHandler(cap)
    assert not cap.msgs, "pypdf warnings: %r" % cap.msgs


def check_against_pypdf_algorithms(reader, enc):
    """/O and /U recomputed with pypdf's own implementation of the standard security handler."""
    from pypdf._encryption import AlgV4
    e = reader.trailer["/Encrypt"]
    rev, length = int(e["/R"]), int(e.get("/Length", 40))
    cf = enc.get("crypt_filter")
    if cf is not None:
        nm = "/" + cf.get("name", "StdCF")
        assert e["/StmF"] == nm and e["/StrF"] == nm and list(e["/CF"].keys()) == [nm], "crypt filter names"
        assert e["/CF"][nm]["/CFM"] == "/" + cf["cfm"] and e["/CF"][nm]["/AuthEvent"] == "/DocOpen", "crypt filter dictionary"
        assert (int(e["/V"]), rev, length, int(e["/CF"][nm]["/Length"])) == ((5, 5, 256, 32) if cf["cfm"] == "AESV3" else (4, 4, 128, 16)), \
            "version / revision / key length"
        if rev == 5:
            # /U /UE /O /OE /Perms were verified by pypdf's AlgV5 in decrypt() (a /Perms mismatch is a logged warning)
            assert [len(bytes(e[k].original_bytes)) for k in ("/U", "/O", "/UE", "/OE", "/Perms")] == [48, 48, 32, 32, 16], "V5 value sizes"
            return
    id0 = bytes(reader.trailer["/ID"][0].original_bytes)
    user, owner = enc.get("user", ""), enc.get("owner", "")
    o_key = AlgV4.compute_O_value_key((owner or user).encode("latin-1"), rev, length)
    o_val = AlgV4.compute_O_value(o_key, user.encode("latin-1"), rev)
    assert o_val == bytes(e["/O"].original_bytes), "/O differs from pypdf's Algorithm 3"
    key = AlgV4.compute_key(user.encode("latin-1"), rev, length, o_val, int(e["/P"]) & 0xFFFFFFFF, id0, True)
    u_val = AlgV4.compute_U_value(key, rev, id0)
    mine = bytes(e["/U"].original_bytes)
    n = 32 if rev == 2 else 16
    assert u_val[:n] == mine[:n], "/U differs from pypdf's Algorithm 4/5"
    assert (rev, length) == ((2, 40) if enc.get("algorithm") == "RC4-40" else (3 if cf is None else 4, 128)), "revision / key length"


# ----------------------------------------------------------------------------------------------------------------------
# extractor
# ----------------------------------------------------------------------------------------------------------------------

def extractor_check(data, doc, images, tr):
    from sharepoint2text.parsing.extractors.pdf.pdf_extractor import read_pdf
    res = list(read_pdf(io.BytesIO(data), path="x.pdf"))
    probs = []
    if len(res) != 1:
        return ["%d results" % len(res)]
    c = res[0]
    exp = expected_pages(doc)
    units = list(c.iterate_units())
    if len(units) != len(exp):
        probs.append("%d units expected %d" % (len(units), len(exp)))
    if [u.get_metadata().unit_number for u in units] != list(range(1, len(units) + 1)):
        probs.append("unit numbers %r" % [u.get_metadata().unit_number for u in units])
    if c.get_metadata().total_pages != len(exp):
        probs.append("total_pages %r" % c.get_metadata().total_pages)
    for i, (u, (lines, imgs)) in enumerate(zip(units, exp)):
        got = find_tokens(u.get_text())
        want = [tk for ln in lines for tk in find_tokens(ln)]
        if got != want:
            probs.append("page %d tokens %r expected %r" % (i + 1, got, want))
        if [ln for ln in u.get_text().split("\n") if ln.strip()] != lines:
            probs.append("page %d text %r expected lines %r" % (i + 1, u.get_text(), lines))
        ui = u.get_images()
        if len(ui) != len(imgs):
            probs.append("page %d: %d images expected %d" % (i + 1, len(ui), len(imgs)))
        for im, key in zip(ui, imgs):
            if im.get_bytes().getvalue() != images[key][0]:
                probs.append("page %d image %r bytes differ" % (i + 1, key))
            if im.get_content_type() != "image/jpeg":
                probs.append("page %d image content type %r" % (i + 1, im.get_content_type()))
            md = im.get_metadata()
            w, h, _ = pdfw.jpeg_info(images[key][0])
            if (md.unit_number, md.width, md.height) != (i + 1, w, h):
                probs.append("page %d image metadata %r" % (i + 1, (md.unit_number, md.width, md.height)))
    all_imgs = list(c.iterate_images())
    if len(all_imgs) != sum(len(x[1]) for x in exp):
        probs.append("iterate_images yields %d" % len(all_imgs))
    full = c.get_full_text()
    probs += judge(full, tr)
    if list(c.iterate_tables()):
        probs.append("tables invented: %r" % [t.get_table() for t in c.iterate_tables()])
    return probs


def run_case(name, doc, images=None, opts=None, expect_encrypted_error=False):
    try:
        assert adm.constructors(doc) <= pdfw.CAPS_PDF, "CAPS_PDF lacks %s" % (adm.constructors(doc) - pdfw.CAPS_PDF)
        data = pdfw.pdf(doc, images, opts)
        assert data == pdfw.pdf(doc, images, opts), "not deterministic"
        validate(data, doc, images or {}, opts)
    except AssertionError as e:
        report("WRITER-INVALID", name, str(e))
        return
    except Exception as e:                                     # noqa: BLE001
        report("WRITER-INVALID", name, "%s: %s" % (type(e).__name__, e))
        return
    try:
        probs = extractor_check(data, doc, images or {}, adm.truth(doc))
        if expect_encrypted_error:
            probs = ["no ExtractionFileEncryptedError for a file with a non-empty user password"]
    except Exception as e:                                     # noqa: BLE001
        if expect_encrypted_error and type(e).__name__ == "ExtractionFileEncryptedError":
            probs = []
        else:
            probs = ["raised %s: %s" % (type(e).__name__, e)]
    if probs:
        report("EXTRACTOR-DISAGREES", name, "; ".join(probs))
    else:
        report("OK", name)


def expect_raises(name, doc, images=None, opts=None):
    try:
        pdfw.pdf(doc, images, opts)
    except NotImplementedError:
        report("OK", name + " -> NotImplementedError")
    except Exception as e:                                     # noqa: BLE001
        report("WRITER-INVALID", name, "raised %s instead of NotImplementedError" % type(e).__name__)
    else:
        report("WRITER-INVALID", name, "inexpressible construct was accepted")


def main():
    T = Tokens(0)
    t = T.new

    def D(*units, meta=None):
        return ["doc", meta or {}, [["unit", list(bs), {}] for bs in units]]

    def P(*xs):
        return ["p", [["t", x] if isinstance(x, str) else x for x in xs]]
    images = {"g": (make_jpeg(16, 8, 1), "jpeg"), "c": (make_jpeg(24, 24, 3, 5), "jpeg"), "big": (make_jpeg(1000, 700, 1, 9), "jpeg"),
              "png": (make_png(4, 4), "png")}
    for k in ("g", "c", "big"):
        w, h, n = pdfw.jpeg_info(images[k][0])
        assert (w, h, n) == {"g": (16, 8, 1), "c": (24, 24, 3), "big": (1000, 700, 1)}[k]

    terms = {
        "empty-doc": ["doc", {}, []],
        "empty-unit": D([]),
        "p": D([P(t("B"))]),
        "p-empty": D([["p", []]]),
        "p-2tokens": D([P(t("B"), t("B"))]),
        "p+p": D([P(t("B")), P(t("B"))]),
        "p2+p2": D([P(t("B"), t("B")), P(t("B"), t("B"))]),
        "p+empty+p": D([P(t("B")), ["p", []], P(t("B"))]),
        "h1": D([["h", 1, [["t", t("H")]]]]),
        "h2+p": D([["h", 2, [["t", t("H")]]], P(t("B"))]),
        "h3": D([["h", 3, [["t", t("H")]]]]),
        "br": D([P(t("B"), ["br"], t("B"))]),
        "br-br": D([P(t("B"), ["br"], ["br"], t("B"))]),
        "multiunit": D([P(t("B"))], [P(t("B"))]),
        "multiunit-empty-middle": D([P(t("B"))], [], [P(t("B"))]),
        "multiunit-empty-first-last": D([], [P(t("B"))], []),
        "35-lines": D([P(t("B")) for _ in range(35)]),
        "escapes": D([P("B(a) \\b " + t("B")), P("Bé€ " + t("B"))]),
        "meta": D([P(t("B"))], meta={"title": t("T"), "author": t("A"), "subject": t("S"), "keywords": t("W")}),
        "meta-unicode": D([P(t("B"))], meta={"title": "Té中 (x)"}),
        "img-gray": D([["img", "g"]]),
        "img-rgb": D([["img", "c"]]),
        "img-scaled": D([["img", "big"]]),
        "p+img+p": D([P(t("B")), ["img", "g"], P(t("B"))]),
        "p+img": D([P(t("B")), ["img", "g"]]),
        "img+h+img": D([["img", "c"], ["h", 2, [["t", t("H")]]], ["img", "g"]]),
        "img-twice": D([["img", "g"], ["img", "g"]]),
        "img-2pages": D([["img", "g"], P(t("B"))], [["img", "g"], ["img", "c"]]),
    }
    for name, doc in terms.items():
        run_case("pdf:" + name, doc, images)
    for name in ("empty-unit", "multiunit-empty-middle"):
        run_case("pdf:%s[emptystream]" % name, terms[name], images, {"empty_page": "emptystream"})
    for name in ("img-twice", "img-2pages"):
        run_case("pdf:%s[shared]" % name, terms[name], images, {"shared_images": True})
    for alg in ("RC4-40", "RC4-128"):
        for name in ("p", "meta", "img-2pages", "multiunit-empty-middle"):
            run_case("pdf:%s[%s,user='']" % (name, alg), terms[name], images,
                     {"encrypt": {"user": "", "owner": "x", "algorithm": alg}})
        run_case("pdf:p[%s,user='',owner='']" % alg, terms["p"], images, {"encrypt": {"user": "", "owner": "", "algorithm": alg}})
        run_case("pdf:p[%s,user='u']" % alg, terms["p"], images,
                 {"encrypt": {"user": "u", "owner": "o", "algorithm": alg}}, expect_encrypted_error=True)
    # crypt-filter forms: pypdf (the validator) has no AES here; the library's pure-Python AES is patched in for the validation -
    # the writer itself encrypts with the independent verif.ref.aes, so validator and writer do not share an implementation
    from sharepoint2text.parsing.extractors.pdf._pypdf_aes_fallback import patch_pypdf_fallback_aes
    patch_pypdf_fallback_aes()
    for cfm in ("V2", "AESV2", "AESV3"):
        for cfn in ("StdCF", "VerifCF"):
            for name in ("p", "meta", "img-2pages", "multiunit-empty-middle"):
                run_case("pdf:%s[crypt-filter %s /%s,user='']" % (name, cfm, cfn), terms[name], images,
                         {"encrypt": {"user": "", "owner": "x", "algorithm": "RC4-128", "crypt_filter": {"name": cfn, "cfm": cfm}}})
            run_case("pdf:p[crypt-filter %s /%s,user='u']" % (cfm, cfn), terms["p"], images,
                     {"encrypt": {"user": "u", "owner": "o", "algorithm": "RC4-128", "crypt_filter": {"name": cfn, "cfm": cfm}}},
                     expect_encrypted_error=True)
    for alg in ("AES-128", "AES-256"):
        expect_raises("pdf:encrypt[%s]" % alg, terms["p"], images, {"encrypt": {"user": "", "owner": "x", "algorithm": alg}})
    expect_raises("pdf:tab", D([P("Bx", ["tab"], "By")]))
    expect_raises("pdf:a", D([P(["a", "http://h/", [["t", "Kx"]]])]))
    expect_raises("pdf:ins", D([P(["ins", "Ix"])]))
    expect_raises("pdf:del", D([P(["del", "Dx"])]))
    expect_raises("pdf:fn", D([P(["fn", "Zx"])]))
    expect_raises("pdf:ul", D([["ul", [[P("Lx")]]]]))
    expect_raises("pdf:tbl", D([["tbl", [[[P("Cx")]]]]]))
    expect_raises("pdf:pb", D([["pb"]]))
    expect_raises("pdf:png", D([["img", "png"]]), images)
    expect_raises("pdf:meta-description", D([], meta={"description": "x"}))
    expect_raises("pdf:meta-header", D([], meta={"header": "Rx"}))
    expect_raises("pdf:notes", ["doc", {}, [["unit", [], {"notes": ["Px"]}]]])
    expect_raises("pdf:non-cp1252", D([P("B中")]))
    expect_raises("pdf:36-lines", D([P("Bx") for _ in range(36)]))
    expect_raises("pdf:sheet", ["doc", {}, [["sheet", "Nx", []]]])

    doc = terms["h2+p"]
    t0 = time.perf_counter()
    for _ in range(300):
        pdfw.pdf(doc)
    dt = (time.perf_counter() - t0) / 300 * 1e3
    report("OK" if dt < 5 else "WRITER-INVALID", "speed", "%.3f ms per document" % dt)
    t0 = time.perf_counter()
    for _ in range(30):
        pdfw.pdf(doc, None, {"encrypt": {"user": "", "owner": "x", "algorithm": "RC4-128"}})
    dt = (time.perf_counter() - t0) / 30 * 1e3
    report("OK" if dt < 8 else "WRITER-INVALID", "speed-encrypted", "%.3f ms per document" % dt)

    print("SUMMARY pdfw: %d OK, %d WRITER-INVALID, %d EXTRACTOR-DISAGREES"
          % (RESULTS["OK"], RESULTS["WRITER-INVALID"], RESULTS["EXTRACTOR-DISAGREES"]))
    return 1 if RESULTS["WRITER-INVALID"] else 0


if __name__ == "__main__":
    sys.exit(main())
