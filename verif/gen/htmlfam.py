"""Reference writers for the HTML family: plain HTML page, MHTML wrapper, EPUB package."""
from __future__ import annotations

import base64
import io
import quopri
import zipfile

CONTAINER_XML = ('<?xml version="1.0"?><container version="1.0" xmlns="urn:oasis:names:tc:opendocument:xmlns:container">'
                 '<rootfiles><rootfile full-path="OEBPS/content.opf" media-type="application/oebps-package+xml"/></rootfiles></container>')


def html_page(body: str, title: str = "", head_extra: str = "") -> str:
    t = f"<title>{title}</title>" if title else ""
    return f"<!DOCTYPE html><html><head><meta charset=\"utf-8\">{t}{head_extra}</head><body>{body}</body></html>"


def xhtml_page(body: str, title: str = "") -> str:
    t = f"<title>{title}</title>" if title else "<title></title>"
    return ('<?xml version="1.0" encoding="utf-8"?><html xmlns="http://www.w3.org/1999/xhtml"><head>' + t +
            f"</head><body>{body}</body></html>")


def mhtml(html: str, encoding: str = "quoted-printable", extra_parts: list | None = None, location: str = "http://h/p.html") -> bytes:
    """multipart/related MHTML with the html as root part; extra_parts = [(content_type, location, bytes)]"""
    raw = html.encode("utf-8")
    if encoding == "base64":
        body = base64.encodebytes(raw).decode("ascii")
    elif encoding == "quoted-printable":
        body = quopri.encodestring(raw, quotetabs=False).decode("ascii")
    else:
        body = html
    bnd = "----=_NextPart_000_0000_VERIF"
    out = ["From: <Saved by verif>", "Subject: page", "MIME-Version: 1.0",
           f'Content-Type: multipart/related; type="text/html"; boundary="{bnd}"', "", "This is a multi-part message in MIME format.", "",
           f"--{bnd}", 'Content-Type: text/html; charset="utf-8"', f"Content-Transfer-Encoding: {encoding}", f"Content-Location: {location}", "",
           body, ""]
    for ctype, loc, data in extra_parts or []:
        out += [f"--{bnd}", f"Content-Type: {ctype}", "Content-Transfer-Encoding: base64", f"Content-Location: {loc}", "",
                base64.encodebytes(data).decode("ascii"), ""]
    out += [f"--{bnd}--", ""]
    return "\r\n".join(out).encode("utf-8")


def epub(chapters: list, meta: dict | None = None, extra_items: list | None = None, extra_files: dict | None = None,
         spine_extra: list | None = None, compression=zipfile.ZIP_DEFLATED) -> bytes:
    """chapters: list of xhtml strings (each becomes chN.xhtml, in spine order).
    extra_items: [(id, href, media_type, bytes)] manifest items (images etc.);
    extra_files: {zip path: bytes} (e.g. META-INF/encryption.xml); spine_extra: item ids appended to the spine."""
    meta = meta or {}
    dc = "".join(f"<dc:{k}>{v}</dc:{k}>" for k, v in meta.items())
    items = []
    spine = []
    for i, _ in enumerate(chapters, 1):
        items.append(f'<item id="ch{i}" href="ch{i}.xhtml" media-type="application/xhtml+xml"/>')
        spine.append(f'<itemref idref="ch{i}"/>')
    for iid, href, mt, _ in extra_items or []:
        items.append(f'<item id="{iid}" href="{href}" media-type="{mt}"/>')
    for iid in spine_extra or []:
        spine.append(f'<itemref idref="{iid}"/>')
    opf = ('<?xml version="1.0" encoding="utf-8"?><package xmlns="http://www.idpf.org/2007/opf" version="3.0" unique-identifier="id">'
           f'<metadata xmlns:dc="http://purl.org/dc/elements/1.1/">{dc}</metadata>'
           f'<manifest>{"".join(items)}</manifest><spine>{"".join(spine)}</spine></package>')
    bio = io.BytesIO()
    with zipfile.ZipFile(bio, "w") as z:
        z.writestr(zipfile.ZipInfo("mimetype"), "application/epub+zip", compress_type=zipfile.ZIP_STORED)
        z.writestr("META-INF/container.xml", CONTAINER_XML, compress_type=compression)
        z.writestr("OEBPS/content.opf", opf, compress_type=compression)
        for i, c in enumerate(chapters, 1):
            z.writestr(f"OEBPS/ch{i}.xhtml", c if isinstance(c, bytes) else c.encode("utf-8"), compress_type=compression)
        for iid, href, mt, data in extra_items or []:
            z.writestr("OEBPS/" + href, data, compress_type=compression)
        for path, data in (extra_files or {}).items():
            z.writestr(path, data, compress_type=compression)
    return bio.getvalue()


# ---------------------------------------------------------------------------------------------- ADM -> HTML body
# (added for C02; everything above is unchanged)

CAPS_HTML = frozenset(["unit", "p", "h", "ul", "ul-nested", "tbl", "tbl-nested", "img", "t", "tab", "br", "a", "cref"])
CAPS_EPUB = CAPS_HTML | {"multiunit"}


def _h_esc(s: str) -> str:
    return str(s).replace("&", "&amp;").replace("<", "&lt;").replace(">", "&gt;")


def _h_attr(s: str) -> str:
    return _h_esc(s).replace('"', "&quot;")


def html_inlines(xs, xhtml: bool = False, in_a: bool = False) -> str:
    out = []
    for x in xs:
        k = x[0]
        if k == "t":
            out.append(_h_esc(x[1]))
        elif k == "tab":
            out.append("\t")                       # a TAB character is inter-word white space in HTML
        elif k == "br":
            out.append("<br/>" if xhtml else "<br>")
        elif k == "a":
            if in_a:
                raise NotImplementedError("nested hyperlinks cannot be expressed in HTML")
            out.append('<a href="%s">%s</a>' % (_h_attr(x[1]), html_inlines(x[2], xhtml, True)))
        elif k == "cref":
            if "--" in x[1] or x[1].startswith(">") or x[1].endswith("-"):
                raise NotImplementedError("comment text")
            out.append("<!--%s-->" % x[1])         # an HTML comment (never rendered)
        else:
            raise NotImplementedError("HTML inline %r" % (k,))
    return "".join(out)


def html_blocks(bs, xhtml: bool = False, images: dict | None = None) -> str:
    out = []
    for b in bs:
        k = b[0]
        if k == "p":
            out.append("<p>%s</p>" % html_inlines(b[1], xhtml))
        elif k == "h":
            if b[1] not in (1, 2, 3, 4, 5, 6):
                raise NotImplementedError("heading level %r" % (b[1],))
            out.append("<h%d>%s</h%d>" % (b[1], html_inlines(b[2], xhtml), b[1]))
        elif k == "ul":
            out.append("<ul>%s</ul>" % "".join("<li>%s</li>" % html_blocks(it, xhtml, images) for it in b[1]))
        elif k == "tbl":
            if not b[1] or any(not row for row in b[1]):
                raise NotImplementedError("an HTML table needs rows and cells")
            out.append("<table>%s</table>" % "".join(
                "<tr>%s</tr>" % "".join("<td>%s</td>" % html_blocks(c, xhtml, images) for c in row) for row in b[1]))
        elif k == "img":
            src = (images or {}).get(b[1], b[1])
            out.append('<p><img src="%s"%s></p>' % (_h_attr(src if isinstance(src, str) else b[1]), "/" if xhtml else ""))
        else:
            raise NotImplementedError("HTML block %r" % (k,))
    return "".join(out)


def html_body(doc, xhtml: bool = False, images: dict | None = None, unit: int | None = None) -> str:
    """ADM -> markup for the inside of <body>. One unit (or `unit` = index of the unit to render); paragraphs, headings,
    lists, tables, links, <br>, TAB characters, comments. images maps an image key to the src string."""
    if doc[0] != "doc":
        raise ValueError("not an ADM document")
    for k in (doc[1] or {}):
        raise NotImplementedError("meta key %r is not written by html_body" % k)
    units = doc[2]
    if unit is None:
        if len(units) != 1:
            raise NotImplementedError("an HTML page is one unit")
        unit = 0
    u = units[unit]
    if u[0] != "unit":
        raise NotImplementedError("unit kind %r" % (u[0],))
    for k, v in ((u[2] if len(u) > 2 else None) or {}).items():
        if v:
            raise NotImplementedError("unit extra %r cannot be expressed in HTML" % k)
    return html_blocks(u[1], xhtml, images)
