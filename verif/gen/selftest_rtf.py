"""Self-test of verif.gen.rtf:  PYTHONPATH=/verif /venv/bin/python -B -m verif.gen.selftest_rtf

No third-party RTF reader is installed, so the independent reader is `RefReader` below: a strict, stack-based RTF parser
written from the RTF 1.9.1 specification in the *reading* direction (tokeniser: groups, control words with parameters and
the optional delimiter space, control symbols, \\'xx, \\uN with \\ucN fallback skipping; destinations incl. ignorable \\*
destinations; group-scoped character state, \\pard-scoped paragraph state; table reconstruction from
\\cell/\\row/\\nestcell/\\nestrow and \\itap). It refuses every control word that is not in its vocabulary (so a misspelt
control word of the writer is caught), unbalanced groups, 8-bit bytes, rows whose cell count differs from their \\cellx
definition, \\cell outside \\intbl and so on. What it reads back is compared with the ground truth of the ADM:
token order and boundary classes, per-page membership, hidden text (deleted runs, annotations, header/footer),
footnotes, table grids (incl. nested), pictures (bytes, blip type, size), hyperlink fields, headings (\\s / \\outlinelevel),
list levels, \\info values.  A mismatch there is WRITER-INVALID.

Then the library's read_rtf is run on the same bytes; differences from the ground truth are EXTRACTOR-DISAGREES.
"""
from __future__ import annotations

import io
import re
import struct
import sys
import time
import zlib

from verif.gen import adm, rtf as rtfw
from verif.gen.tokens import Tokens, find_tokens

RESULTS = {"OK": 0, "WRITER-INVALID": 0, "EXTRACTOR-DISAGREES": 0}


def report(kind, name, detail=""):
    RESULTS[kind] += 1
    print("%-19s %s%s" % (kind, name, (": " + detail) if detail else ""))


# ----------------------------------------------------------------------------------------------------------------------
# test images
# ----------------------------------------------------------------------------------------------------------------------

def make_png(w, h, shade=0x80):
    def chunk(t, d):
        return struct.pack(">I", len(d)) + t + d + struct.pack(">I", zlib.crc32(t + d) & 0xFFFFFFFF)
    raw = b"".join(b"\x00" + bytes([shade]) * w for _ in range(h))
    return (b"\x89PNG\r\n\x1a\n" + chunk(b"IHDR", struct.pack(">IIBBBBB", w, h, 8, 0, 0, 0, 0))
            + chunk(b"IDAT", zlib.compress(raw, 9)) + chunk(b"IEND", b""))


def make_jpeg(w, h, comps=1, fill=0):
    out = bytearray(b"\xff\xd8")
    out += b"\xff\xe0" + struct.pack(">H", 16) + b"JFIF\x00\x01\x01\x00\x00\x01\x00\x01\x00\x00"
    out += b"\xff\xdb" + struct.pack(">H", 67) + b"\x00" + bytes([1 + fill % 200] * 64)
    out += b"\xff\xc0" + struct.pack(">HBHHB", 8 + 3 * comps, 8, h, w, comps)
    for c in range(comps):
        out += bytes([c + 1, 0x11, 0])
    for tc in (0x00, 0x10):
        out += b"\xff\xc4" + struct.pack(">H", 20) + bytes([tc, 1] + [0] * 15 + [0])
    out += b"\xff\xda" + struct.pack(">HB", 6 + 2 * comps, comps)
    for c in range(comps):
        out += bytes([c + 1, 0x00])
    out += b"\x00\x3f\x00"
    nbits = 2 * comps * ((w + 7) // 8) * ((h + 7) // 8)
    bits = "0" * nbits + "1" * (-nbits % 8)
    out += bytes(int(bits[i:i + 8], 2) for i in range(0, len(bits), 8)).replace(b"\xff", b"\xff\x00")
    out += b"\xff\xd9"
    return bytes(out)


# ----------------------------------------------------------------------------------------------------------------------
# reference reader
# ----------------------------------------------------------------------------------------------------------------------

class RtfError(AssertionError):
    pass


# control words of RTF 1.9.1 that the reader understands; value: handling class
#   D  destination (collects or is transparent, see DEST)      S  special character / event
#   P  paragraph property      C  character property      X  accepted and ignored (formatting, document and table defs)
VOCAB = {}
for _w in ("rtf ansi ansicpg deff deflang paperw paperh margl margr margt margb f fs b ul cf super fi li sb sa keepn "
           "froman fswiss fnil fcharset fprq red green blue snext sbasedon trgaph trleft revauth revdttm revauthdel "
           "revdttmdel picwgoal pichgoal listtemplateid levelnfc levelnfcn leveljc leveljcn levelfollow levelstartat "
           "levelspace levelindent listid listoverridecount pnlvlblt pnf pnindent").split():
    VOCAB[_w] = "X"
for _w in ("fonttbl colortbl stylesheet info title author subject keywords doccomm header footer footnote annotation "
           "atnid atnauthor pict field fldinst fldrslt listtext pntext pn pntxtb listtable list listlevel leveltext "
           "levelnumbers listname listoverridetable listoverride revtbl shppict nonshppict nesttableprops "
           "nonesttables").split():
    VOCAB[_w] = "D"
for _w in "par line tab page sect cell row nestcell nestrow chftn chatn".split():
    VOCAB[_w] = "S"
for _w in "pard intbl itap s outlinelevel ls ilvl trowd cellx sectd sbkpage".split():
    VOCAB[_w] = "P"
for _w in "plain uc u deleted revised pngblip jpegblip picw pich".split():
    VOCAB[_w] = "C"

STAR_REQUIRED = {"annotation", "atnid", "atnauthor", "fldinst", "pn", "listtable", "listoverridetable", "revtbl", "shppict",
                 "nesttableprops"}
SKIP_DESTS = {"fonttbl", "colortbl", "stylesheet", "listtable", "listoverridetable", "revtbl", "pn", "nonshppict",
              "nonesttables", "list", "listlevel", "leveltext", "levelnumbers", "listname", "listoverride", "pntxtb"}
TRANSPARENT = {"field", "fldrslt", "shppict", "nesttableprops"}
STRING_DESTS = {"title", "author", "subject", "keywords", "doccomm", "atnid", "atnauthor", "fldinst"}
TOKEN_RE = re.compile(r"[A-Z][bcdfghjklmnpqrstvwxz]{5}")


class RefReader:
    def __init__(self, data: bytes, strict: bool = True):
        """strict: the writer's dialect (7-bit, lower-case control words, closed vocabulary). strict=False reads
        real-world files: unknown control words are ignored, unknown \\* destinations skipped."""
        self.strict = strict
        if strict and any(b >= 0x80 for b in data):
            raise RtfError("8-bit byte in the file")
        self.s = data.decode("ascii" if strict else "cp1252", "replace")
        self.i = 0
        self.body = []              # events of the main document
        self.headers, self.footers, self.footnotes, self.annotations = [], [], [], []
        self.decor = []             # listtext / pntext sinks
        self.info = {}
        self.fields = []            # fldinst strings
        self.atn = []               # (atnid, atnauthor) strings
        self.rowdefs = []           # number of \cellx per \trowd, in file order (checked against the cells of the row)
        self.parse()

    # -- tokeniser -----------------------------------------------------------------------------------------------------
    def tokens(self):
        s, n = self.s, len(self.s)
        i = 0
        while i < n:
            c = s[i]
            if c == "{" or c == "}":
                yield (c,)
                i += 1
            elif c == "\\":
                if i + 1 >= n:
                    raise RtfError("dangling backslash")
                d = s[i + 1]
                if d.isalpha():
                    j = i + 1
                    while j < n and s[j].isalpha() and s[j].isascii():
                        j += 1
                    word = s[i + 1:j]
                    if len(word) > 32:
                        raise RtfError("control word longer than 32 letters")
                    if self.strict and word != word.lower():
                        raise RtfError("control word %r is not lower case" % word)
                    k = j
                    if k < n and (s[k] == "-" or s[k].isdigit()):
                        k += 1
                        while k < n and s[k].isdigit():
                            k += 1
                        if s[j:k] == "-":
                            raise RtfError("lone '-' after control word")
                        param = int(s[j:k])
                        if not -2147483648 <= param <= 2147483647:
                            raise RtfError("parameter out of range")
                    else:
                        param = None
                    if k < n and s[k] == " ":
                        k += 1                               # the delimiter space belongs to the control word
                    yield ("cw", word, param)
                    i = k
                elif d == "'":
                    hx = s[i + 2:i + 4]
                    if not re.fullmatch(r"[0-9a-fA-F]{2}", hx):
                        raise RtfError("bad \\' escape")
                    yield ("hex", int(hx, 16))
                    i += 4
                elif d in "\\{}":
                    yield ("txt", d)
                    i += 2
                elif d in "*~-_|:" or not self.strict:
                    yield ("cs", d)
                    i += 2
                elif d in "\r\n":
                    yield ("cw", "par", None)
                    i += 2
                else:
                    raise RtfError("unknown control symbol \\%s" % d)
            elif c in "\r\n":
                i += 1                                       # CR / LF are noise
            else:
                j = i
                while j < n and s[j] not in "\\{}\r\n":
                    j += 1
                yield ("txt", s[i:j])
                i = j

    # -- parser --------------------------------------------------------------------------------------------------------
    def parse(self):
        toks = list(self.tokens())
        if toks[:2] != [("{",), ("cw", "rtf", 1)]:
            raise RtfError("file does not start with {\\rtf1")
        para0 = {"intbl": False, "itap": 0, "s": None, "outlinelevel": None, "ls": None, "ilvl": None}
        st = {"dest": None, "sink": self.body, "skip": False, "uc": 1, "deleted": False, "revised": False,
              "para": dict(para0), "str": None, "pict": None, "rowdef": None}
        stack = []
        depth = 0
        pos = 0
        n = len(toks)
        pending_skip = 0             # fallback characters still to be dropped after \uN
        group_start = False          # True right after "{" (possibly after "\*")
        star = False

        def emit(ev):
            if not st["skip"]:
                st["sink"].append(ev)

        def text(t):
            nonlocal pending_skip
            if pending_skip:
                k = min(pending_skip, len(t))
                t = t[k:]
                pending_skip -= k
            if not t or st["skip"]:
                return
            if st["pict"] is not None:
                if not re.fullmatch(r"[0-9a-fA-F ]*", t):
                    raise RtfError("non-hex data in \\pict")
                st["pict"]["hex"].append(t.replace(" ", ""))
            elif st["str"] is not None:
                st["str"].append(t)
            else:
                emit(("t", t, st["deleted"], st["revised"]))

        while pos < n:
            tok = toks[pos]
            pos += 1
            kind = tok[0]
            if kind == "{":
                stack.append(st)
                st = dict(st)
                st["para"] = dict(st["para"])
                depth += 1
                group_start, star = True, False
                pending_skip = 0
                continue
            if kind == "}":
                if not stack:
                    raise RtfError("unbalanced }")
                pending_skip = 0
                closing, st = st, stack.pop()
                depth -= 1
                if closing["dest"] != st["dest"] or closing["str"] is not st["str"] or closing["pict"] is not st["pict"]:
                    self.close_dest(closing, st)
                # paragraph properties are group-scoped as well, but a \par inside the group has been emitted already
                group_start = False
                if depth == 0 and pos != n:
                    raise RtfError("content after the final }")
                continue
            if kind == "cs" and tok[1] == "*":
                if not group_start:
                    raise RtfError("\\* not at the start of a group")
                star = True
                continue
            if kind == "cw":
                word, param = tok[1], tok[2]
                if pending_skip and word != "u":
                    pending_skip -= 1            # a control word counts as one fallback character
                    group_start = False
                    continue
                cls = VOCAB.get(word)
                if cls is None:
                    if group_start and star:
                        st["skip"] = True        # unknown ignorable destination
                        st["dest"] = "?" + word
                        group_start = False
                        continue
                    if not self.strict:
                        group_start = False
                        continue
                    raise RtfError("control word \\%s is not in the vocabulary" % word)
                if cls == "D":
                    if not group_start:
                        raise RtfError("destination \\%s not at the start of a group" % word)
                    if self.strict and (word in STAR_REQUIRED) != star:
                        raise RtfError("destination \\%s %s \\*" % (word, "needs" if word in STAR_REQUIRED else "must not have"))
                    self.open_dest(word, st)
                    group_start = False
                    continue
                if star and group_start:
                    raise RtfError("\\* followed by non-destination \\%s" % word)
                group_start = False
                if st["skip"]:
                    continue
                if cls == "X":
                    continue
                if cls == "S":
                    p = st["para"]
                    if word in ("cell", "row") and not p["intbl"] and word == "cell":
                        raise RtfError("\\cell outside \\intbl")
                    if word == "nestcell" and not (p["intbl"] and p["itap"] >= 2):
                        raise RtfError("\\nestcell needs \\intbl\\itapN with N >= 2")
                    if word in ("par", "cell", "nestcell"):
                        if word == "cell" and p["itap"] not in (0, 1):
                            raise RtfError("\\cell in a paragraph of \\itap%d" % p["itap"])
                        emit((word, dict(p)))
                    elif word == "row":
                        emit(("row", st["rowdef"]))
                    elif word == "nestrow":
                        emit(("nestrow", st["rowdef"], p["itap"]))
                    elif word == "sect":
                        emit(("sect", dict(p)))              # \\sect also ends the current paragraph
                    else:
                        emit((word,))
                    continue
                if cls == "P":
                    p = st["para"]
                    if word == "pard":
                        p.update(para0)
                    elif word == "intbl":
                        p["intbl"] = True
                        if p["itap"] == 0:
                            p["itap"] = 1
                    elif word == "itap":
                        p["itap"] = param
                    elif word in ("s", "outlinelevel", "ls", "ilvl"):
                        if param is None:
                            raise RtfError("\\%s needs a parameter" % word)
                        p[word] = param
                    elif word == "trowd":                     # row properties are group-scoped like all formatting
                        st["rowdef"] = []
                        self.rowdefs.append(st["rowdef"])
                    elif word == "cellx":
                        if st["rowdef"] is None:
                            raise RtfError("\\cellx without \\trowd")
                        if st["rowdef"] and param <= st["rowdef"][-1]:
                            raise RtfError("\\cellx not increasing")
                        st["rowdef"] = st["rowdef"] + [param]     # copy: an inner group must not change the outer definition
                    elif word in ("sectd", "sbkpage"):
                        pass
                    continue
                if cls == "C":
                    if word == "plain":
                        st["deleted"] = st["revised"] = False
                    elif word == "uc":
                        st["uc"] = param
                    elif word == "u":
                        if param is None:
                            raise RtfError("\\u without parameter")
                        pending_skip = 0
                        text(chr(param & 0xFFFF))
                        pending_skip = st["uc"]
                    elif word == "deleted":
                        st["deleted"] = param != 0
                    elif word == "revised":
                        st["revised"] = param != 0
                    elif word in ("pngblip", "jpegblip", "picw", "pich"):
                        if st["pict"] is None:
                            raise RtfError("\\%s outside \\pict" % word)
                        st["pict"][word] = param if param is not None else True
                    continue
            group_start = False
            if kind == "hex":
                if pending_skip:
                    pending_skip -= 1
                    continue
                text(bytes([tok[1]]).decode("cp1252") if tok[1] >= 0x20 else chr(tok[1]))
            elif kind == "txt":
                text(tok[1])
            elif kind == "cs":
                text({"~": "\u00a0", "-": "\u00ad", "_": "\u2011"}.get(tok[1], ""))
        if depth != 0 or stack:
            raise RtfError("unbalanced {")

    def open_dest(self, word, st):
        if st["skip"]:
            return
        st["dest"] = word
        if word in SKIP_DESTS:
            st["skip"] = True
        elif word in TRANSPARENT:
            pass
        elif word == "info":
            st["sink"] = []                      # only the known sub-destinations of \\info are kept
        elif word in STRING_DESTS:
            st["str"] = []
        elif word == "pict":
            st["pict"] = {"hex": []}
        elif word in ("header", "footer", "footnote", "annotation", "listtext", "pntext"):
            sink = []
            {"header": self.headers, "footer": self.footers, "footnote": self.footnotes, "annotation": self.annotations,
             "listtext": self.decor, "pntext": self.decor}[word].append(sink)
            st["sink"] = sink
            st["deleted"] = st["revised"] = False
            st["para"] = {"intbl": False, "itap": 0, "s": None, "outlinelevel": None, "ls": None, "ilvl": None}
        else:
            raise RtfError("unhandled destination %s" % word)

    def close_dest(self, closing, outer):
        word = closing["dest"]
        if closing["skip"]:
            return
        if closing["str"] is not None and closing["str"] is not outer["str"]:
            val = "".join(closing["str"])
            if word in ("title", "author", "subject", "keywords", "doccomm"):
                self.info[word] = val
            elif word == "fldinst":
                self.fields.append(val)
            else:
                self.atn.append((word, val))
        if closing["pict"] is not None and closing["pict"] is not outer["pict"]:
            p = closing["pict"]
            hx = "".join(p["hex"])
            if len(hx) % 2:
                raise RtfError("odd number of hex digits in \\pict")
            blip = "png" if p.get("pngblip") else "jpeg" if p.get("jpegblip") else None
            if blip is None:
                raise RtfError("\\pict without blip type")
            if not outer["skip"]:
                outer["sink"].append(("pict", blip, p.get("picw"), p.get("pich"), bytes.fromhex(hx)))


def fix_surrogates(s):
    return s.encode("utf-16", "surrogatepass").decode("utf-16", "surrogatepass")


def flat(events, visible_only=True):
    """events -> string: text (deleted runs dropped), \\t tab, \\v line, \\n par/cell/row, \\f page/section break."""
    out = []
    for e in events:
        k = e[0]
        if k == "t":
            if not (visible_only and e[2]):
                out.append(e[1])
        elif k == "tab":
            out.append("\t")
        elif k == "line":
            out.append("\v")
        elif k in ("par", "cell", "nestcell", "row", "nestrow"):
            out.append("\n")
        elif k in ("page", "sect"):
            out.append("\f")
    return fix_surrogates("".join(out))


def read_tables(events):
    """Reconstruct table grids (cells = visible token lists) from the body events, outermost first (pre-order)."""
    tables = []
    pending = []                    # visible text of the paragraph that is being read
    open_tbl = {}                   # level -> {"rows": [...], "row": [...], "cell": [...]}

    def ensure(level):
        for lv in range(1, level + 1):
            if lv not in open_tbl:
                t = {"rows": [], "row": [], "cell": []}
                open_tbl[lv] = t
                tables.append(t["rows"])

    def close_from(level):
        for lv in sorted([k for k in open_tbl if k >= level], reverse=True):
            t = open_tbl.pop(lv)
            if t["row"] or t["cell"]:
                raise RtfError("table level %d ends inside a row" % lv)

    def add_tokens(toks):
        for t in open_tbl.values():
            t["cell"].extend(toks)
    for e in events:
        k = e[0]
        if k == "t":
            if not e[2]:
                # text inside a table is attributed when its paragraph ends; remember it
                pending.append(e[1])
        elif k in ("par", "cell", "nestcell", "sect"):
            p = e[1]
            level = p["itap"] if p["intbl"] else 0
            toks = TOKEN_RE.findall("".join(pending))
            pending.clear()
            if k == "cell" and level != 1:
                raise RtfError("\\cell at level %d" % level)
            close_from(level + 1)
            if level:
                ensure(level)
                add_tokens(toks)
            if k == "cell":
                t = open_tbl[1]
                t["row"].append(t["cell"])
                t["cell"] = []
            elif k == "nestcell":
                t = open_tbl[level]
                t["row"].append(t["cell"])
                t["cell"] = []
        elif k == "row":
            close_from(2)
            if 1 not in open_tbl:
                raise RtfError("\\row without cells")
            t = open_tbl[1]
            if t["cell"]:
                raise RtfError("\\row inside a cell")
            if e[1] is None or len(e[1]) != len(t["row"]):
                raise RtfError("row has %d cells but its definition has %r \\cellx" % (len(t["row"]), e[1] and len(e[1])))
            t["rows"].append(t["row"])
            t["row"] = []
        elif k == "nestrow":
            level = e[2]
            close_from(level + 1)
            if level not in open_tbl or level < 2:
                raise RtfError("\\nestrow at level %r without cells" % level)
            t = open_tbl[level]
            if e[1] is None or len(e[1]) != len(t["row"]):
                raise RtfError("nested row has %d cells but its definition has %r \\cellx" % (len(t["row"]), e[1] and len(e[1])))
            t["rows"].append(t["row"])
            t["row"] = []
    close_from(1)
    return tables


# ----------------------------------------------------------------------------------------------------------------------
# expectations computed from the ADM (an independent walk, next to adm.truth)
# ----------------------------------------------------------------------------------------------------------------------

def walk(doc):
    exp = {"deleted": [], "inserted": [], "annotation": [], "footnote": [], "links": [], "headings": [], "bullets": [],
           "images": [], "breaks": max(0, len(doc[2]) - 1)}

    def inl(xs):
        for x in xs:
            k = x[0]
            if k == "a":
                exp["links"].append((x[1], "".join(y[1] for y in x[2] if y[0] in ("t", "ins"))))
                inl(x[2])
            elif k == "ins":
                exp["inserted"].append(x[1])
            elif k == "del":
                exp["deleted"].append(x[1])
            elif k == "cref":
                exp["annotation"].append(x[1])
            elif k == "fn":
                exp["footnote"].append(x[1])

    def blocks(bs, lvl):
        for b in bs:
            k = b[0]
            if k == "p":
                inl(b[1])
            elif k == "h":
                exp["headings"].append(b[1])
                inl(b[2])
            elif k == "ul":
                for item in b[1]:
                    exp["bullets"].append(lvl)
                    blocks(item, lvl + 1)
            elif k == "tbl":
                for row in b[1]:
                    for cell in row:
                        blocks(cell, 0)
            elif k == "img":
                exp["images"].append(b[1])
            elif k == "pb":
                exp["breaks"] += 1
    for u in doc[2]:
        blocks(u[1], 0)
    return exp


def rank_between(s):
    r = 0
    for ch in s:
        r = max(r, {"\t": 1, "\v": 2, "\n": 3, "\f": 4}.get(ch, 0))
    return r


def validate(data, doc, images, opts):
    opts = opts or {}
    rd = RefReader(data)
    tr = adm.truth(doc)
    exp = walk(doc)
    meta = doc[1] or {}
    body = flat(rd.body)
    # 1. visible tokens, order and boundary class
    vis = []
    for s_, b in tr["visible"]:
        for j, tk in enumerate(find_tokens(s_)):
            vis.append((tk, b if j == 0 else None))
    spans = [(m.group(0), m.start(), m.end()) for m in TOKEN_RE.finditer(body)]
    assert [s[0] for s in spans] == [v[0] for v in vis], "body tokens %r expected %r" % ([s[0] for s in spans], [v[0] for v in vis])
    for i in range(1, len(spans)):
        if vis[i][1] is None:
            continue
        got = rank_between(body[spans[i - 1][2]:spans[i][1]])
        want = adm.BOUNDARY_RANK[vis[i][1]]
        assert min(got, 3) == min(want, 3) and (want < 4 or got == 4), \
            "boundary before %s: rank %d expected %d (%s)" % (spans[i][0], got, want, vis[i][1])
    # 2. pages
    assert body.count("\f") == exp["breaks"], "%d page/section breaks expected %d" % (body.count("\f"), exp["breaks"])
    if exp["breaks"] == len(doc[2]) - 1 and doc[2]:
        pages = [TOKEN_RE.findall(p) for p in body.split("\f")]
        want_pages = [[tk for s_ in u for tk in find_tokens(s_)] for u in tr["units"]]
        assert pages == want_pages, "tokens per page %r expected %r" % (pages, want_pages)
    kinds = [e[0] for e in rd.body]
    mode = opts.get("page_break", "page")
    assert ("sect" in kinds) == (mode == "sbkpage" and exp["breaks"] > 0) and ("page" in kinds) == (mode == "page" and exp["breaks"] > 0), \
        "wrong kind of break for page_break=%s" % mode
    # every page / section holds at least one paragraph or row
    seg = 0
    for e in rd.body + [("page",)]:
        if e[0] in ("page", "sect"):
            assert seg, "page without a paragraph"
            seg = 0
        elif e[0] in ("par", "row"):
            seg += 1
    # 3. hidden and don't-care text
    all_body = flat(rd.body, visible_only=False)
    deleted = [tk for e in rd.body if e[0] == "t" and e[2] for tk in TOKEN_RE.findall(e[1])]
    assert deleted == [tk for s_ in exp["deleted"] for tk in find_tokens(s_)], "deleted runs %r" % deleted
    revised = [tk for e in rd.body if e[0] == "t" and e[3] for tk in TOKEN_RE.findall(e[1])]
    assert revised == [tk for s_ in exp["inserted"] for tk in find_tokens(s_)], "revised runs %r" % revised
    ann = [fix_surrogates("".join(e[1] for e in sink if e[0] == "t")).strip() for sink in rd.annotations]
    assert ann == exp["annotation"], "annotations %r expected %r" % (ann, exp["annotation"])
    assert [k for k, _ in rd.atn] == ["atnid", "atnauthor"] * len(ann), "atnid/atnauthor groups %r" % rd.atn
    assert [e[0] for e in rd.body].count("chatn") == len(ann), "\\chatn count"
    fns = [fix_surrogates("".join(e[1] for e in sink if e[0] == "t")).strip() for sink in rd.footnotes]
    assert fns == exp["footnote"], "footnotes %r expected %r" % (fns, exp["footnote"])
    assert [e[0] for e in rd.body].count("chftn") == len(fns), "\\chftn count"
    hd = [flat(s_).strip() for s_ in rd.headers]
    ft = [flat(s_).strip() for s_ in rd.footers]
    assert hd == ([meta["header"]] if "header" in meta else []), "header %r" % hd
    assert ft == ([meta["footer"]] if "footer" in meta else []), "footer %r" % ft
    for h in tr["hidden"]:
        for tk in find_tokens(h):
            assert tk not in body, "hidden token %s in visible body text" % tk
    # 4. tables
    tables = read_tables(rd.body)
    want_tables = [[[[tk for s_ in cell for tk in find_tokens(s_)] for cell in row] for row in g] for g in tr["tables"]]
    assert tables == want_tables, "tables %r expected %r" % (tables, want_tables)
    # 5. pictures
    picts = [e for e in rd.body if e[0] == "pict"]
    assert len(picts) == len(exp["images"]), "%d pictures expected %d" % (len(picts), len(exp["images"]))
    for e, key in zip(picts, exp["images"]):
        d, ext = images[key]
        assert e[1] == ext and e[4] == d, "picture %r payload/type differs" % key
        assert (e[2], e[3]) == tuple(rtfw.image_size(d, ext)), "picture %r size %r" % (key, (e[2], e[3]))
    # 6. fields
    want_fields = [' HYPERLINK "%s" ' % u if opts.get("field_style", "word") == "word" else 'HYPERLINK "%s"' % u
                   for u, _ in exp["links"]]
    assert [fix_surrogates(f) for f in rd.fields] == want_fields, "fields %r expected %r" % (rd.fields, want_fields)
    # 7. headings and bullets
    heads = [(e[1]["s"], e[1]["outlinelevel"]) for e in rd.body
             if e[0] in ("par", "cell", "nestcell") and e[1]["outlinelevel"] is not None]
    assert heads == [(lv, lv - 1) for lv in exp["headings"]], "headings %r expected levels %r" % (heads, exp["headings"])
    if opts.get("list_style", "listtext") == "listtext":
        bl = [e[1]["ilvl"] for e in rd.body if e[0] in ("par", "cell", "nestcell") and e[1]["ls"] is not None]
        assert bl == exp["bullets"], "list levels %r expected %r" % (bl, exp["bullets"])
        if exp["bullets"]:
            assert b"{\\*\\listtable" in data and b"{\\*\\listoverridetable" in data, "list tables missing"
    assert len(rd.decor) == len(exp["bullets"]), "%d bullet texts expected %d" % (len(rd.decor), len(exp["bullets"]))
    for sink in rd.decor:
        assert flat(sink) == "\u00b7\t", "bullet text %r" % flat(sink)
    # 8. info
    for key, word in (("title", "title"), ("author", "author"), ("subject", "subject"), ("keywords", "keywords"),
                      ("description", "doccomm")):
        if key in meta:
            assert fix_surrogates(rd.info.get(word, "")) == meta[key], "\\%s %r expected %r" % (word, rd.info.get(word), meta[key])
        else:
            assert word not in rd.info, "unexpected \\%s" % word
    if exp["deleted"] or exp["inserted"]:
        assert b"{\\*\\revtbl" in data, "revision table missing"
    if opts.get("eol", "") == "" and not opts.get("hex_wrap"):
        assert b"\n" not in data and b"\r" not in data, "line break in the file although eol=''"
    if opts.get("eol") == "\r\n":
        assert b"\n" not in data.replace(b"\r\n", b"") and b"\r" not in data.replace(b"\r\n", b""), "bare CR or LF with eol=CRLF"
    return rd


# ----------------------------------------------------------------------------------------------------------------------
# extractor
# ----------------------------------------------------------------------------------------------------------------------

def judge(text, tr, check_invented=True):
    probs = []
    dc = set(tk for s_ in tr["dontcare"] for tk in find_tokens(s_))
    spans = [(m.group(0), m.start(), m.end()) for m in TOKEN_RE.finditer(text or "")]
    spans = [s for s in spans if s[0] not in dc]
    vis = []
    for s_, b in tr["visible"]:
        for j, tk in enumerate(find_tokens(s_)):
            vis.append((tk, b if j == 0 else "any"))
    hidden = [tk for h in tr["hidden"] for tk in find_tokens(h)]
    leaked = [tk for tk in hidden if tk in (text or "")]
    if leaked:
        probs.append("hidden text present: %s" % leaked)
    got = [s for s in spans if s[0] not in leaked]
    if [s[0] for s in got] != [v[0] for v in vis]:
        probs.append("tokens %s expected %s" % ([s[0] for s in got], [v[0] for v in vis]))
        return probs
    for i in range(1, len(got)):
        b = vis[i][1]
        if b not in ("none", "any") and not re.search(r"\s", text[got[i - 1][2]:got[i][1]]):
            probs.append("%s|%s not separated (boundary %s)" % (got[i - 1][0], got[i][0], b))
    if check_invented:
        rest = TOKEN_RE.sub(" ", text or "")
        junk = re.findall(r"[A-Za-z0-9][^\s]*", rest)
        if junk:
            probs.append("invented text %r" % junk)
    return probs


def extractor_check(data, doc, images, opts, extra=False):
    from sharepoint2text.parsing.extractors.ms_legacy.rtf_extractor import read_rtf
    res = list(read_rtf(io.BytesIO(data), path="x.rtf"))
    if len(res) != 1:
        return ["%d results" % len(res)]
    c = res[0]
    tr = adm.truth(doc)
    exp = walk(doc)
    probs = judge(c.get_full_text(), tr, check_invented=not extra)
    # units = pages
    n_pages = exp["breaks"] + 1 if doc[2] else 1
    units = list(c.iterate_units())
    if exp["breaks"] == len(doc[2]) - 1 and doc[2]:
        want = {i + 1: [tk for s_ in u for tk in find_tokens(s_)] for i, u in enumerate(tr["units"])}
        got = {}
        for u in units:
            got.setdefault(u.get_metadata().unit_number, []).extend(
                tk for tk in find_tokens(u.get_text()) if tk not in tr["dontcare"] and tk not in tr["hidden"])
        want_nonempty = {k: v for k, v in want.items() if v}
        if got != want_nonempty:
            probs.append("units {number: tokens} %r expected %r" % (got, want_nonempty))
        if len(units) != len(doc[2]) and any(v for v in want.values()):
            probs.append("%d units for %d pages" % (len(units), n_pages))
    # tables
    want_tables = [[[[tk for s_ in cell for tk in find_tokens(s_)] for cell in row] for row in g] for g in tr["tables"]]
    got_tables = [[[[tk for tk in find_tokens(str(cell)) if tk not in tr["dontcare"]] for cell in row] for row in t.get_table()]
                  for t in c.iterate_tables()]
    if got_tables != want_tables:
        probs.append("tables %r expected %r" % (got_tables, want_tables))
    # images
    imgs = list(c.iterate_images())
    if len(imgs) != len(exp["images"]):
        probs.append("%d images expected %d" % (len(imgs), len(exp["images"])))
    for im, key in zip(imgs, exp["images"]):
        d, ext = images[key]
        if im.get_bytes().getvalue() != d:
            probs.append("image %r: %d bytes returned, %d written" % (key, len(im.get_bytes().getvalue()), len(d)))
        if im.get_content_type() != "image/" + ext:
            probs.append("image %r content type %r" % (key, im.get_content_type()))
    # metadata
    meta = doc[1] or {}
    md = c.get_metadata()
    for key, attr in (("title", "title"), ("author", "author"), ("subject", "subject"), ("keywords", "keywords"),
                      ("description", "doc_comment")):
        if key in meta and getattr(md, attr) != meta[key]:
            probs.append("metadata %s %r expected %r" % (attr, getattr(md, attr), meta[key]))
    # links
    links = [(h.url, h.text) for h in c.hyperlinks]
    if links != exp["links"]:
        probs.append("hyperlinks %r expected %r" % (links, exp["links"]))
    return probs


def run_case(name, doc, images=None, opts=None, extra_text=None):
    try:
        missing = adm.constructors(doc) - rtfw.CAPS_RTF
        assert not missing, "CAPS_RTF lacks %s" % missing
        data = rtfw.rtf(doc, images, opts)
        assert data == rtfw.rtf(doc, images, opts), "not deterministic"
        rd = validate(data, doc, images or {}, opts)
        if extra_text is not None:
            got = flat(rd.body)
            assert extra_text in got, "text %r not read back from %r" % (extra_text, got)
    except AssertionError as e:
        report("WRITER-INVALID", name, str(e))
        return
    except Exception as e:                                     # noqa: BLE001
        report("WRITER-INVALID", name, "%s: %s" % (type(e).__name__, e))
        return
    try:
        probs = extractor_check(data, doc, images or {}, opts, extra=extra_text is not None)
        if extra_text is not None:
            from sharepoint2text.parsing.extractors.ms_legacy.rtf_extractor import read_rtf
            full = list(read_rtf(io.BytesIO(data)))[0].get_full_text()
            if extra_text not in full:
                probs.append("text %r comes back as %r" % (extra_text, full))
            try:
                full.encode("utf-8")
            except UnicodeEncodeError:
                probs.append("full text is not UTF-8 encodable (lone surrogates)")
    except Exception as e:                                     # noqa: BLE001
        probs = ["raised %s: %s" % (type(e).__name__, e)]
    if probs:
        report("EXTRACTOR-DISAGREES", name, "; ".join(probs))
    else:
        report("OK", name)


def expect_raises(name, doc, images=None, opts=None):
    try:
        rtfw.rtf(doc, images, opts)
    except NotImplementedError:
        report("OK", name + " -> NotImplementedError")
    except Exception as e:                                     # noqa: BLE001
        report("WRITER-INVALID", name, "raised %s instead of NotImplementedError" % type(e).__name__)
    else:
        report("WRITER-INVALID", name, "inexpressible construct was accepted")


def reader_selfcheck():
    """The reference reader must reject broken files (otherwise its verdicts are worthless)."""
    good = rtfw.rtf(["doc", {}, [["unit", [["p", [["t", "Bbcdfg"]]], ["tbl", [[[["p", [["t", "Cbcdfg"]]]]]]]], {}]]])
    RefReader(good)
    bad = {
        "missing-brace": good[:-1],
        "extra-brace": good + b"}",
        "misspelt-word": good.replace(b"\\pard", b"\\prad", 1),
        "cell-outside-table": good.replace(b"\\intbl", b"", 1),
        "row-cell-mismatch": good.replace(b"\\cellx8640", b"\\cellx4000\\cellx8640", 1),
        "8-bit": good.replace(b"Bbcdfg", b"B\xe9cdfg"),
        "star-missing": rtfw.rtf(["doc", {}, [["unit", [["p", [["cref", "Mbcdfg"]]]], {}]]]).replace(b"{\\*\\annotation", b"{\\annotation"),
    }
    for name, data in bad.items():
        try:
            read_tables(RefReader(data).body)
        except RtfError:
            report("OK", "reader rejects " + name)
        else:
            report("WRITER-INVALID", "reader accepts " + name, "reference reader is too lax")


def reader_on_fixtures():
    """The reference reader (non-strict mode) must cope with real Word-written files: the words it reads from the
    repository's RTF fixtures have to cover what the library's extractor finds there."""
    import glob
    from sharepoint2text.parsing.extractors.ms_legacy.rtf_extractor import read_rtf
    for f in sorted(glob.glob("/repo/sharepoint2text/tests/resources/legacy_ms/*.rtf")):
        name = "reader on fixture " + f.rsplit("/", 1)[-1]
        data = open(f, "rb").read()
        try:
            rd = RefReader(data, strict=False)
            ntab = len(read_tables(rd.body))
            mine = set(re.findall(r"[A-Za-z\u00c0-\u00ff]{4,}", flat(rd.body)))
            theirs = set(re.findall(r"[A-Za-z\u00c0-\u00ff]{4,}", list(read_rtf(io.BytesIO(data)))[0].get_full_text()))
            cover = len(mine & theirs) / max(1, len(theirs))
            if cover < 0.9:
                report("WRITER-INVALID", name, "reference reader covers only %.0f%% of the words" % (100 * cover))
            else:
                report("OK", name, "%d words, %.0f%% of the extractor's words covered, %d tables" % (len(mine), 100 * cover, ntab))
        except Exception as e:                                 # noqa: BLE001
            report("WRITER-INVALID", name, "reference reader failed: %s: %s" % (type(e).__name__, e))


def roundtrip_sweep(images, n=600, seed=1):
    """Seeded pseudo-random ADM terms (all constructors, nesting <= 3, all option combinations) must survive the
    writer -> reference reader -> ground truth round trip. One summary line."""
    import random
    rnd = random.Random(seed)

    def inl(T, cls, depth=0):
        xs = []
        for _ in range(rnd.randint(0, 3)):
            k = rnd.choice(["t", "t", "tab", "br", "a", "ins", "del", "cref", "fn"])
            if k == "t":
                xs.append(["t", T.new(cls)])
            elif k in ("tab", "br"):
                xs.append([k])
            elif k == "a" and depth == 0:
                xs.append(["a", "http://h/%d" % rnd.randint(0, 9), inl(T, "K", 1)])
            elif k == "ins":
                xs.append(["ins", T.new("I")])
            elif k == "del":
                xs.append(["del", T.new("D")])
            elif k == "cref" and depth == 0:
                xs.append(["cref", T.new("M")])
            elif k == "fn" and depth == 0:
                xs.append(["fn", T.new("Z")])
        return xs

    def blocks(T, cls, d, top):
        bs = []
        for _ in range(rnd.randint(0, 3)):
            k = rnd.choice(["p", "p", "h", "ul", "tbl", "img", "pb"])
            if k == "p":
                bs.append(["p", inl(T, cls)])
            elif k == "h":
                bs.append(["h", rnd.randint(1, 3), inl(T, "H")])
            elif k == "ul" and d < 3:
                bs.append(["ul", [blocks(T, "L", d + 1, False) for _ in range(rnd.randint(1, 2))]])
            elif k == "tbl" and d < 3:
                bs.append(["tbl", [[blocks(T, "C", d + 1, False) for _ in range(rnd.randint(1, 3))]
                                   for _ in range(rnd.randint(1, 2))]])
            elif k == "img":
                bs.append(["img", rnd.choice(["png", "jpeg"])])
            elif k == "pb" and top:
                bs.append(["pb"])
        return bs
    bad = []
    for i in range(n):
        T = Tokens(0)
        meta = {}
        if rnd.random() < .3:
            meta["title"] = T.new("T")
        if rnd.random() < .2:
            meta["header"] = T.new("R")
        if rnd.random() < .2:
            meta["footer"] = T.new("R")
        doc = ["doc", meta, [["unit", blocks(T, "B", 0, True), {}] for _ in range(rnd.randint(0, 3))]]
        opts = {"page_break": rnd.choice(["page", "sbkpage"]), "list_style": rnd.choice(["listtext", "pntext"]),
                "field_style": rnd.choice(["word", "flat"]), "pict_wrap": rnd.choice(["none", "shppict"]),
                "hex_wrap": rnd.choice([0, 16, 64]), "eol": rnd.choice(["", "\n", "\r\n"]),
                "row_props": rnd.choice(["before", "both"]), "uc": rnd.choice([None, 1])}
        try:
            validate(rtfw.rtf(doc, images, opts), doc, images, opts)
        except Exception as e:                                 # noqa: BLE001
            bad.append("#%d %s: %s" % (i, type(e).__name__, str(e)[:200]))
    if bad:
        report("WRITER-INVALID", "round-trip sweep", "%d of %d terms fail, first: %s" % (len(bad), n, bad[0]))
    else:
        report("OK", "round-trip sweep", "%d seeded random terms read back exactly" % n)


def main():
    T = Tokens(0)
    t = T.new

    def D(*units, meta=None):
        return ["doc", meta or {}, [["unit", list(bs), {}] for bs in units]]

    def P(*xs):
        return ["p", [["t", x] if isinstance(x, str) else x for x in xs]]

    def C(*xs):
        return [P(*xs)]
    images = {"png": (make_png(5, 3), "png"), "jpeg": (make_jpeg(16, 8), "jpeg"), "png2": (make_png(40, 30, 0x40), "png"),
              "gif": (b"GIF89a\x01\x00\x01\x00\x00\x00\x00;", "gif")}
    reader_selfcheck()
    reader_on_fixtures()

    terms = {
        "empty-doc": ["doc", {}, []],
        "empty-unit": D([]),
        "p": D([P(t("B"))]),
        "p-empty": D([["p", []]]),
        "p-2tokens": D([P(t("B"), t("B"))]),
        "p+p": D([P(t("B")), P(t("B"))]),
        "h1": D([["h", 1, [["t", t("H")]]]]),
        "h2+p": D([["h", 2, [["t", t("H")]]], P(t("B"))]),
        "h3": D([["h", 3, [["t", t("H")]]]]),
        "tab": D([P(t("B"), ["tab"], t("B"))]),
        "br": D([P(t("B"), ["br"], t("B"))]),
        "ul-1": D([["ul", [[P(t("L"))]]]]),
        "ul-2": D([["ul", [[P(t("L"))], [P(t("L"))]]]]),
        "ul-2para-item": D([["ul", [[P(t("L")), P(t("L"))], [P(t("L"))]]]]),
        "ul-nested": D([["ul", [[P(t("L")), ["ul", [[P(t("L"))], [P(t("L"))]]]], [P(t("L"))]]]]),
        "ul-item-starts-with-list": D([["ul", [[["ul", [[P(t("L"))]]]]]]]),
        "ul-empty-item": D([["ul", [[], [P(t("L"))]]]]),
        "ul-heading-item": D([["ul", [[["h", 2, [["t", t("H")]]]]]]]),
        "p+ul+p": D([P(t("B")), ["ul", [[P(t("L"))]]], P(t("B"))]),
        "tbl-1x1": D([["tbl", [[C(t("C"))]]]]),
        "tbl-1x2": D([["tbl", [[C(t("C")), C(t("C"))]]]]),
        "tbl-2x2": D([["tbl", [[C(t("C")), C(t("C"))], [C(t("C")), C(t("C"))]]]]),
        "tbl-empty-cell": D([["tbl", [[[], C(t("C"))]]]]),
        "tbl-2para-cell": D([["tbl", [[[P(t("C")), P(t("C"))], C(t("C"))]]]]),
        "tbl-ragged": D([["tbl", [[C(t("C"))], [C(t("C")), C(t("C"))]]]]),
        "tbl-list-in-cell": D([["tbl", [[[["ul", [[P(t("L"))], [P(t("L"))]]]], C(t("C"))]]]]),
        "tbl-heading-in-cell": D([["tbl", [[[["h", 1, [["t", t("H")]]]]]]]]),
        "p+tbl+p": D([P(t("B")), ["tbl", [[C(t("C")), C(t("C"))]]], P(t("B"))]),
        "tbl+tbl": D([["tbl", [[C(t("C"))]]], ["tbl", [[C(t("C"))]]]]),
        "tbl-nested": D([["tbl", [[C(t("C")), [["tbl", [[C(t("C")), C(t("C"))]]]]]]]]),
        "tbl-nested-text-around": D([["tbl", [[[P(t("C")), ["tbl", [[C(t("C"))], [C(t("C"))]]], P(t("C"))], C(t("C"))]]]]),
        "tbl-nested-twice": D([["tbl", [[[["tbl", [[[["tbl", [[C(t("C"))]]]]]]]]]]]]),
        "tbl-nested-adjacent": D([["tbl", [[[["tbl", [[C(t("C"))]]], ["tbl", [[C(t("C"))]]]]]]]]),
        "tbl+tbl-in-list-item": D([["ul", [[P(t("L")), ["tbl", [[C(t("C"))]]], ["tbl", [[C(t("C"))]]]]]]]),
        "ul-ending-in-tbl+tbl": D([["ul", [[P(t("L")), ["tbl", [[C(t("C"))]]]]]], ["tbl", [[C(t("C"))]]]]),
        "img-png": D([["img", "png"]]),
        "img-jpeg": D([["img", "jpeg"]]),
        "p+img+p": D([P(t("B")), ["img", "png2"], P(t("B"))]),
        "img-in-cell": D([["tbl", [[[["img", "png"]], C(t("C"))]]]]),
        "pb": D([P(t("B")), ["pb"], P(t("B"))]),
        "pb-first": D([["pb"], P(t("B"))]),
        "pb-last": D([P(t("B")), ["pb"]]),
        "multiunit": D([P(t("B"))], [P(t("B"))]),
        "multiunit-3": D([P(t("B"))], [P(t("B"))], [P(t("B"))]),
        "multiunit-empty-middle": D([P(t("B"))], [], [P(t("B"))]),
        "multiunit-empty-first": D([], [P(t("B"))]),
        "multiunit-tables": D([["tbl", [[C(t("C"))]]]], [["tbl", [[C(t("C"))]]]]),
        "multiunit-tbl-after-empty": D([P(t("B"))], [], [["tbl", [[C(t("C"))]]]]),
        "multiunit-images": D([["img", "png"]], [["img", "jpeg"], P(t("B"))]),
        "a": D([P(t("B"), ["a", "http://h/x", [["t", t("K")]]], t("B"))]),
        "a-only": D([P(["a", "http://h/y?a=1&b=2", [["t", t("K")]]])]),
        "ins": D([P(t("B"), ["ins", t("I")], t("B"))]),
        "del": D([P(t("B"), ["del", t("D")], t("B"))]),
        "ins+del": D([P(["ins", t("I")], ["del", t("D")])]),
        "cref": D([P(t("B"), ["cref", t("M")], t("B"))]),
        "fn": D([P(t("B"), ["fn", t("Z")], t("B"))]),
        "fn-in-cell": D([["tbl", [[C(t("C"), ["fn", t("Z")]), C(t("C"))]]]]),
        "meta-title": D([P(t("B"))], meta={"title": t("T")}),
        "meta-author": D([P(t("B"))], meta={"author": t("A")}),
        "meta-subject": D([P(t("B"))], meta={"subject": t("S")}),
        "meta-keywords": D([P(t("B"))], meta={"keywords": t("W")}),
        "meta-description": D([P(t("B"))], meta={"description": t("Y")}),
        "meta-all": D([P(t("B"))], meta={"title": t("T"), "author": t("A"), "subject": t("S"), "keywords": t("W"),
                                        "description": t("Y")}),
        "meta-escapes": D([P(t("B"))], meta={"title": "T{a}\\b \u00e9\u4e2d"}),
        "meta-unicode": D([P(t("B"))], meta={"title": "T\u00e9 " + t("T")}),
        "header": D([P(t("B"))], meta={"header": t("R")}),
        "footer": D([P(t("B"))], meta={"footer": t("R")}),
        "header+footer-multiunit": D([P(t("B"))], [P(t("B"))], meta={"header": t("R"), "footer": t("R")}),
    }
    for name, doc in terms.items():
        run_case("rtf:" + name, doc, images)

    # option variants
    for name in ("pb", "multiunit", "multiunit-empty-middle", "multiunit-tables", "pb-last", "header+footer-multiunit"):
        run_case("rtf:%s[sbkpage]" % name, terms[name], images, {"page_break": "sbkpage"})
    for name in ("ul-1", "ul-nested", "tbl-list-in-cell", "ul-heading-item"):
        run_case("rtf:%s[pntext]" % name, terms[name], images, {"list_style": "pntext"})
    for name in ("a", "a-only"):
        run_case("rtf:%s[flat-field]" % name, terms[name], images, {"field_style": "flat"})
    for name in ("img-png", "img-jpeg", "p+img+p"):
        run_case("rtf:%s[shppict]" % name, terms[name], images, {"pict_wrap": "shppict"})
        run_case("rtf:%s[hex_wrap=64]" % name, terms[name], images, {"hex_wrap": 64})
        run_case("rtf:%s[hex_wrap=64,CRLF]" % name, terms[name], images, {"hex_wrap": 64, "eol": "\r\n"})
    for name in ("tbl-1x1", "tbl-2x2", "tbl-nested", "tbl-nested-text-around", "p+tbl+p"):
        run_case("rtf:%s[row_props=both]" % name, terms[name], images, {"row_props": "both"})
    for name in ("p", "tbl-1x1", "multiunit", "empty-unit", "img-png"):
        run_case("rtf:%s[uc=1]" % name, terms[name], images, {"uc": 1})
    for eol in ("\n", "\r\n"):
        for name in ("p+p", "tbl-2x2", "tbl-nested", "ul-nested", "multiunit", "a", "fn", "meta-all", "header"):
            run_case("rtf:%s[eol=%r]" % (name, eol), terms[name], images, {"eol": eol})

    # escapes and extra text
    samples = {
        "latin1": "caf\u00e9 na\u00efve",
        "cp1252-only": "\u20ac \u201cq\u201d \u2013",
        "cjk": "\u4e2d\u6587",
        "above-7fff": "\uff21\u9fa5",
        "emoji": "\U0001f600",
        "specials": "a\\b{c}d",
        "controls": "x\ty",
    }
    for sname, s_ in samples.items():
        for mode in ("u", "hex"):
            doc = D([P(t("B") + " " + s_)])
            run_case("rtf:text-%s[escape=%s]" % (sname, mode), doc, images, {"escape": mode}, extra_text=s_)
    assert rtfw.rtf_escape("\u00e9", "u") == "\\u233?" and rtfw.rtf_escape("\u00e9", "hex") == "\\'e9"
    assert rtfw.rtf_escape("\uff21", "u") == "\\u-223?" and rtfw.rtf_escape("\U0001f600", "u") == "\\u-10179?\\u-8704?"
    assert rtfw.rtf_escape("\u20ac", "hex") == "\\'80" and rtfw.rtf_escape("\u4e2d", "hex") == "\\u20013?"
    assert rtfw.rtf_escape("a\\{}\n\t") == "a\\\\\\{\\}\\line \\tab "
    report("OK", "rtf_escape spot values")

    # inexpressible
    expect_raises("rtf:sdt", D([P(["sdt", [["t", "Sx"]]])]))
    expect_raises("rtf:box", D([P(["box", [P("Sx")]])]))
    expect_raises("rtf:math", D([P(["math", ["r", "x"]])]))
    expect_raises("rtf:gif", D([["img", "gif"]]), images)
    expect_raises("rtf:pb-in-cell", D([["tbl", [[[["pb"]]]]]]))
    expect_raises("rtf:pb-in-item", D([["ul", [[P("Lx"), ["pb"]]]]]))
    expect_raises("rtf:notes", ["doc", {}, [["unit", [], {"notes": ["Px"]}]]])
    expect_raises("rtf:comments", ["doc", {}, [["unit", [], {"comments": ["Mx"]}]]])
    expect_raises("rtf:sheet", ["doc", {}, [["sheet", "Nx", []]]])
    expect_raises("rtf:heading-level-4", D([["h", 4, [["t", "Hx"]]]]))
    expect_raises("rtf:empty-row", D([["tbl", [[]]]]))
    expect_raises("rtf:empty-table", D([["tbl", []]]))
    expect_raises("rtf:link-in-link", D([P(["a", "u", [["a", "v", [["t", "Kx"]]]]])]))
    expect_raises("rtf:unknown-meta", D([], meta={"company": "x"}))

    roundtrip_sweep({k: images[k] for k in ("png", "jpeg")})

    doc = terms["tbl-nested-text-around"]
    t0 = time.perf_counter()
    for _ in range(500):
        rtfw.rtf(doc)
    dt = (time.perf_counter() - t0) / 500 * 1e3
    report("OK" if dt < 1 else "WRITER-INVALID", "speed", "%.3f ms per document" % dt)

    print("SUMMARY rtf: %d OK, %d WRITER-INVALID, %d EXTRACTOR-DISAGREES"
          % (RESULTS["OK"], RESULTS["WRITER-INVALID"], RESULTS["EXTRACTOR-DISAGREES"]))
    return 1 if RESULTS["WRITER-INVALID"] else 0


if __name__ == "__main__":
    sys.exit(main())
