"""Reference writers ADM -> OpenDocument 1.2 packages: odt, odp, ods, odg and odf (formula).

Written from the OASIS OpenDocument 1.2 specification (part 1 schema, part 3 packages), not from what the
library's extractors accept.  Output is deterministic (fixed ZIP timestamps, no clock, no random values).

Public API (all return bytes)
    odt(doc, images=None, opts=None)   CAPS_ODT
    odp(doc, images=None, opts=None)   CAPS_ODP
    ods(doc, images=None, opts=None)   CAPS_ODS
    odg(doc, images=None, opts=None)   CAPS_ODG
    odf(doc, images=None, opts=None)   CAPS_ODF
    to_openformula(text)               "=SUM(A1:B2,1)" -> "of:=SUM([.A1:.B2];1)"

`images` maps key -> (data, ext) or (data, ext, info).  data = bytes (stored as Pictures/<key>.<ext>) or a str URL
(external link, nothing stored).  info (optional dict): "title", "desc" (svg:title / svg:desc), "name" (draw:name),
"width", "height" (ODF lengths, default "1cm"), "href": "plain" | "dot" ("./Pictures/..") | "missing" (dangling
reference: the part is NOT stored; deliberately broken package for fault tests).

Everything a writer cannot express raises NotImplementedError; malformed input raises ValueError / TypeError.

Common opts
    "compression": "deflated" (default) | "stored"
    "extra_files": {path: bytes | (bytes, media_type)}   extra package members (listed in the manifest)
    "omit_parts": ["styles.xml", "meta.xml", ...]         leave optional parts out of the package
    "split_keywords": True       one meta:keyword element per comma separated keyword (LibreOffice behaviour);
                                 default: one meta:keyword holding the whole string
    "header_rows": n             first n rows of every (non-spreadsheet) table go in table:table-header-rows
    "cell_repeat": [[t, r, c, n], ...]   table:number-columns-repeated="n" on cell (r, c) of table/sheet number t
    "row_repeat":  [[t, r, n], ...]      table:number-rows-repeated="n" on row r of table/sheet number t
                   (t counts tables in document order, outermost first - the order of adm.truth()["tables"];
                    for ods t is the sheet index).  n == 1 is written explicitly.
ODT opts
    "lo_style_names": True       LibreOffice paragraph style names (Text_20_body, Table_20_Contents,
                                 Table_20_Heading, Frame_20_contents) instead of "Standard" everywhere
    "note_class": "footnote" (default) | "endnote"
ODP / ODG opts
    "class_style_names": True    (odp) paragraph styles named TitleText / BodyText instead of P1 / P2
    "custom_shape": True         ["p"] blocks become draw:custom-shape with text:p instead of draw:frame/draw:text-box
ODS
    cells: None | ["s", str] | ["i", int] | ["f", float] | ["b", bool] | ["d", "YYYY-MM-DD"] | ["dt", "YYYY-MM-DDTHH:MM:SS"]
           | ["tm", "HH:MM:SS"] | ["dur", seconds] | ["err", "#DIV/0!"] | ["fml", formula_text, cached_cell | None]
           and two writer extensions: ["pct", fraction] (percentage) and ["cur", amount, "EUR"] (currency)
    "repeat": {"cols": n, "rows": m, "on": "empty" | "value", "sheet": i (default: every sheet)}
        on "empty": the last row gets one more, empty, cell with number-columns-repeated=n; one more row holding a
                    single empty cell is appended with number-rows-repeated=m
        on "value": the last cell of the last row (must hold a value) gets number-columns-repeated=n, the last row
                    gets number-rows-repeated=m
        (only numbers are written, nothing is materialised: n, m up to 10**9 and beyond are fine)
    "images_at": [[sheet, key], ...] (anchored to the sheet: table:shapes)  or  [[sheet, r, c, key], ...] (in a cell)
    "comments_at": [[sheet, r, c, text], ...]  a cell comment (office:annotation, the first child of the cell, with
                   dc:creator, dc:date and one text:p per line of text); the cell (also an empty one) must exist

Notes on expressibility
    * a table inside a list item has no ODF representation (text:list-item holds text:p / text:h / text:list only)
    * a hyperlink inside a hyperlink has no ODF representation
    * tracked changes exist only in text documents (office:text prelude); odp/odg take t, tab, br, a inlines only
    * odp: exactly one ["h"] per slide (the title placeholder, its level is not representable and ignored);
      meta header/footer: odt and ods only (master page)
    * ragged table rows are written as they are (fewer cells than declared columns is schema-valid);
      an empty cell of a text / draw table holds one empty paragraph, an empty spreadsheet cell is <table:table-cell/>
    * ["s", ""] is a typed string cell with an empty text:p; multi-line strings become one text:p per line
    * ["err", e] is written the way LibreOffice does: formula + office:value-type="string" office:string-value=""
      + the error text as display paragraph (no calcext extension attributes: strict ODF 1.2)
"""
from __future__ import annotations

import io
import re
import zipfile

# ---------------------------------------------------------------------------------------------------------------
# constants

NS = {
    "office": "urn:oasis:names:tc:opendocument:xmlns:office:1.0",
    "style": "urn:oasis:names:tc:opendocument:xmlns:style:1.0",
    "text": "urn:oasis:names:tc:opendocument:xmlns:text:1.0",
    "table": "urn:oasis:names:tc:opendocument:xmlns:table:1.0",
    "draw": "urn:oasis:names:tc:opendocument:xmlns:drawing:1.0",
    "fo": "urn:oasis:names:tc:opendocument:xmlns:xsl-fo-compatible:1.0",
    "xlink": "http://www.w3.org/1999/xlink",
    "dc": "http://purl.org/dc/elements/1.1/",
    "meta": "urn:oasis:names:tc:opendocument:xmlns:meta:1.0",
    "number": "urn:oasis:names:tc:opendocument:xmlns:datastyle:1.0",
    "presentation": "urn:oasis:names:tc:opendocument:xmlns:presentation:1.0",
    "svg": "urn:oasis:names:tc:opendocument:xmlns:svg-compatible:1.0",
    "of": "urn:oasis:names:tc:opendocument:xmlns:of:1.2",
}
NS_MANIFEST = "urn:oasis:names:tc:opendocument:xmlns:manifest:1.0"
NS_MATHML = "http://www.w3.org/1998/Math/MathML"

MIMETYPES = {
    "odt": "application/vnd.oasis.opendocument.text",
    "odp": "application/vnd.oasis.opendocument.presentation",
    "ods": "application/vnd.oasis.opendocument.spreadsheet",
    "odg": "application/vnd.oasis.opendocument.graphics",
    "odf": "application/vnd.oasis.opendocument.formula",
}

_NSDECL = " ".join(f'xmlns:{p}="{u}"' for p, u in NS.items())
_XML = '<?xml version="1.0" encoding="UTF-8"?>\n'
_FIXED_DATE = "2020-01-01T00:00:00"
_FIXED_ZIP_TIME = (2020, 1, 1, 0, 0, 0)
_AUTHOR = "verif"

_IMG_MEDIA = {"png": "image/png", "jpg": "image/jpeg", "jpeg": "image/jpeg", "gif": "image/gif", "bmp": "image/bmp",
              "svg": "image/svg+xml", "tif": "image/tiff", "tiff": "image/tiff", "webp": "image/webp",
              "wmf": "image/x-wmf", "emf": "image/x-emf"}

_META_COMMON = {"meta:title", "meta:author", "meta:subject", "meta:keywords", "meta:description"}
_INL_BASIC = {"t", "tab", "br", "a"}

CAPS_ODT = {"unit", "multiunit", "p", "h", "ul", "ul-nested", "tbl", "tbl-nested", "img", "pb",
            "ins", "del", "cref", "fn", "box", "meta:header", "meta:footer"} | _INL_BASIC | _META_COMMON
CAPS_ODP = {"unit", "multiunit", "p", "h", "ul", "ul-nested", "tbl", "img",
            "extra:notes", "extra:name"} | _INL_BASIC | _META_COMMON
CAPS_ODS = {"sheet", "multiunit", "meta:header", "meta:footer"} | _META_COMMON
CAPS_ODG = {"unit", "multiunit", "p", "h", "ul", "ul-nested", "tbl", "img", "extra:name"} | _INL_BASIC | _META_COMMON
CAPS_ODF = {"unit", "p", "t"} | _META_COMMON

# ---------------------------------------------------------------------------------------------------------------
# escaping

_BAD_XML = re.compile("[^\t\n\r\x20-\ud7ff\ue000-\ufffd\U00010000-\U0010ffff]")
_WS = " \t\n\r"


def _chk(s):
    if not isinstance(s, str):
        raise TypeError(f"string expected, got {type(s).__name__}")
    if _BAD_XML.search(s):
        raise ValueError("character not allowed in XML 1.0")
    return s


def _esc(s: str) -> str:
    """character data (whitespace kept as is; CR as a reference so that it survives line-end normalisation)"""
    if s.isalnum():
        return s
    _chk(s)
    return s.replace("&", "&amp;").replace("<", "&lt;").replace(">", "&gt;").replace("\r", "&#13;")


def _esca(s: str) -> str:
    """attribute value"""
    if s.isalnum():
        return s
    _chk(s)
    return (s.replace("&", "&amp;").replace("<", "&lt;").replace(">", "&gt;").replace('"', "&quot;")
            .replace("\t", "&#9;").replace("\n", "&#10;").replace("\r", "&#13;"))


def _spaces(n: int) -> str:
    return "<text:s/>" if n == 1 else f'<text:s text:c="{n}"/>'


def _ptext(s: str) -> str:
    """Paragraph character data per ODF 1.2 part 1, 6.1.2 (white space processing): a U+0020 is written literally
    only between two non-white-space characters of the same string; every other space becomes text:s, TAB becomes
    text:tab, LF / CR / CRLF become text:line-break."""
    if s.isalnum():
        return s
    _chk(s)
    out = []
    i, n = 0, len(s)
    while i < n:
        ch = s[i]
        if ch == " ":
            j = i
            while j < n and s[j] == " ":
                j += 1
            k = j - i
            if i > 0 and j < n and s[i - 1] not in _WS and s[j] not in _WS:
                out.append(" ")
                if k > 1:
                    out.append(_spaces(k - 1))
            else:
                out.append(_spaces(k))
            i = j
            continue
        if ch == "\t":
            out.append("<text:tab/>")
        elif ch == "\n":
            out.append("<text:line-break/>")
        elif ch == "\r":
            out.append("<text:line-break/>")
            if i + 1 < n and s[i + 1] == "\n":
                i += 1
        elif ch == "&":
            out.append("&amp;")
        elif ch == "<":
            out.append("&lt;")
        elif ch == ">":
            out.append("&gt;")
        else:
            out.append(ch)
        i += 1
    return "".join(out)


# ---------------------------------------------------------------------------------------------------------------
# render context

_SAFE_NAME = re.compile(r"[A-Za-z0-9_-]{1,64}\Z")


def _posint(n, what):
    if isinstance(n, bool) or not isinstance(n, int) or n < 1:
        raise ValueError(f"{what}: positive integer expected, got {n!r}")
    return n


class _Ctx:
    def __init__(self, fmt, images, opts):
        self.fmt = fmt
        self.images = images or {}
        self.opts = dict(opts or {})
        self.pics = {}          # key -> href
        self.files = []         # (path, bytes, media type) in first-use order
        self.paths = set()
        self.changes = []       # text:changed-region elements
        self.nnote = 0
        self.nframe = 0
        self.nimg = 0
        self.ntbl = 0
        self.header_rows = self.opts.get("header_rows", 0) or 0
        if isinstance(self.header_rows, bool) or not isinstance(self.header_rows, int) or self.header_rows < 0:
            raise ValueError("header_rows: non-negative integer expected")
        self.cell_rep = {}
        for ent in self.opts.get("cell_repeat") or []:
            t, r, ci, n = ent
            self.cell_rep.setdefault(t, {})[(r, ci)] = _posint(n, "cell_repeat")
        self.row_rep = {}
        for ent in self.opts.get("row_repeat") or []:
            t, r, n = ent
            self.row_rep.setdefault(t, {})[r] = _posint(n, "row_repeat")
        self.used_cell_rep = 0
        self.used_row_rep = 0

    def check_repeats_consumed(self):
        want_c = sum(len(v) for v in self.cell_rep.values())
        want_r = sum(len(v) for v in self.row_rep.values())
        if want_c != self.used_cell_rep or want_r != self.used_row_rep:
            raise ValueError("cell_repeat / row_repeat names a table, row or cell that does not exist")


def _image_ref(c: _Ctx, key):
    if key not in c.images:
        raise KeyError(f"image key {key!r} missing from images")
    ent = c.images[key]
    data, ext = ent[0], ent[1]
    info = ent[2] if len(ent) > 2 and ent[2] else {}
    href = c.pics.get(key)
    if href is None:
        if isinstance(data, str):
            href = _chk(data)
        else:
            ext = str(ext).lstrip(".")
            if not _SAFE_NAME.match(ext):
                raise ValueError(f"bad image extension {ext!r}")
            name = str(key) if _SAFE_NAME.match(str(key)) else "img%d" % (len(c.pics) + 1)
            path = f"Pictures/{name}.{ext}"
            while path in c.paths:
                name += "_"
                path = f"Pictures/{name}.{ext}"
            c.paths.add(path)
            form = info.get("href", "plain")
            if form not in ("plain", "dot", "missing"):
                raise ValueError(f"unknown href form {form!r}")
            if form != "missing":
                c.files.append((path, bytes(data), _IMG_MEDIA.get(ext.lower(), "application/octet-stream")))
            href = "./" + path if form == "dot" else path
        c.pics[key] = href
    return href, info


def _image_frame(c: _Ctx, key, attrs: str) -> str:
    """draw:frame holding a draw:image; attrs = style / anchor / position attributes (without size)"""
    href, info = _image_ref(c, key)
    c.nimg += 1
    name = info.get("name", "Image%d" % c.nimg)
    tail = ""
    if info.get("title"):
        tail += f"<svg:title>{_esc(info['title'])}</svg:title>"
    if info.get("desc"):
        tail += f"<svg:desc>{_esc(info['desc'])}</svg:desc>"
    return (f'<draw:frame draw:name="{_esca(name)}" {attrs} svg:width="{_esca(info.get("width", "1cm"))}" '
            f'svg:height="{_esca(info.get("height", "1cm"))}">'
            f'<draw:image xlink:href="{_esca(href)}" xlink:type="simple" xlink:show="embed" xlink:actuate="onLoad"/>'
            f'{tail}</draw:frame>')


# ---------------------------------------------------------------------------------------------------------------
# document plumbing: ADM shape, meta.xml, manifest, package

_META_KEYS_ALL = ("title", "author", "subject", "keywords", "description", "header", "footer")


def _split_doc(doc, hf_ok: bool):
    if not isinstance(doc, (list, tuple)) or len(doc) != 3 or doc[0] != "doc":
        raise ValueError('document must be ["doc", meta, units]')
    meta = doc[1] or {}
    for k, v in meta.items():
        if k not in _META_KEYS_ALL:
            raise NotImplementedError(f"meta key {k!r}")
        if k in ("header", "footer") and not hf_ok:
            raise NotImplementedError(f"meta {k} is not expressible in this format")
        _chk(v)
    return meta, doc[2]


def _meta_xml(meta: dict, opts: dict) -> str:
    out = [_XML, '<office:document-meta xmlns:office="', NS["office"], '" xmlns:xlink="', NS["xlink"], '" xmlns:dc="',
           NS["dc"], '" xmlns:meta="', NS["meta"], '" office:version="1.2"><office:meta>',
           "<meta:generator>verif-odf/1</meta:generator>"]
    if "title" in meta:
        out.append(f"<dc:title>{_esc(meta['title'])}</dc:title>")
    if "description" in meta:
        out.append(f"<dc:description>{_esc(meta['description'])}</dc:description>")
    if "subject" in meta:
        out.append(f"<dc:subject>{_esc(meta['subject'])}</dc:subject>")
    if "keywords" in meta:
        if opts.get("split_keywords"):
            for kw in meta["keywords"].split(","):
                if kw.strip():
                    out.append(f"<meta:keyword>{_esc(kw.strip())}</meta:keyword>")
        else:
            out.append(f"<meta:keyword>{_esc(meta['keywords'])}</meta:keyword>")
    if "author" in meta:
        out.append(f"<meta:initial-creator>{_esc(meta['author'])}</meta:initial-creator>")
    out.append(f"<meta:creation-date>{_FIXED_DATE}</meta:creation-date>")
    if "author" in meta:
        out.append(f"<dc:creator>{_esc(meta['author'])}</dc:creator>")
    out.append(f"<dc:date>{_FIXED_DATE}</dc:date>")
    out.append("</office:meta></office:document-meta>")
    return "".join(out)


def _package(fmt: str, parts: list, c: _Ctx) -> bytes:
    """parts: [(path, str | bytes, media type)] in package order; pictures and extra files are appended; the manifest
    lists every member except `mimetype` and the manifest itself (ODF 1.2 part 3, section 3.2 / 4.3)."""
    mimetype = MIMETYPES[fmt]
    omit = set(c.opts.get("omit_parts") or [])
    members = [(p, d, mt) for p, d, mt in parts if p not in omit]
    members += c.files
    for path, val in (c.opts.get("extra_files") or {}).items():
        if isinstance(val, (tuple, list)):
            members.append((path, val[0], val[1]))
        else:
            members.append((path, val, "text/xml" if path.endswith(".xml") else "application/octet-stream"))
    seen = set()
    for path, _, _ in members:
        if path in seen or path in ("mimetype", "META-INF/manifest.xml"):
            raise ValueError(f"duplicate or reserved package member {path!r}")
        seen.add(path)
    man = [_XML, f'<manifest:manifest xmlns:manifest="{NS_MANIFEST}" manifest:version="1.2">',
           f'<manifest:file-entry manifest:full-path="/" manifest:version="1.2" manifest:media-type="{mimetype}"/>']
    for path, _, mt in members:
        man.append(f'<manifest:file-entry manifest:full-path="{_esca(path)}" manifest:media-type="{_esca(mt)}"/>')
    man.append("</manifest:manifest>")
    comp = c.opts.get("compression", "deflated")
    if comp not in ("deflated", "stored"):
        raise ValueError(f"unknown compression {comp!r}")
    ctype = zipfile.ZIP_DEFLATED if comp == "deflated" else zipfile.ZIP_STORED
    bio = io.BytesIO()
    with zipfile.ZipFile(bio, "w") as z:
        _put(z, "mimetype", mimetype.encode("ascii"), zipfile.ZIP_STORED)
        for path, data, _ in members:
            _put(z, path, data.encode("utf-8") if isinstance(data, str) else data, ctype)
        _put(z, "META-INF/manifest.xml", "".join(man).encode("utf-8"), ctype)
    return bio.getvalue()


def _put(z: zipfile.ZipFile, path: str, data: bytes, ctype: int):
    zi = zipfile.ZipInfo(path, date_time=_FIXED_ZIP_TIME)
    zi.compress_type = ctype
    zi.create_system = 0
    zi.external_attr = 0
    z.writestr(zi, data)


def _doc_content(auto_styles: str, body: str) -> str:
    return (f'{_XML}<office:document-content {_NSDECL} office:version="1.2">'
            f'<office:automatic-styles>{auto_styles}</office:automatic-styles>'
            f'<office:body>{body}</office:body></office:document-content>')


def _doc_styles(styles: str, auto_styles: str, master: str) -> str:
    return (f'{_XML}<office:document-styles {_NSDECL} office:version="1.2">'
            f'<office:styles>{styles}</office:styles>'
            f'<office:automatic-styles>{auto_styles}</office:automatic-styles>'
            f'<office:master-styles>{master}</office:master-styles></office:document-styles>')


def _list_style(name: str) -> str:
    out = [f'<text:list-style style:name="{name}">']
    for lvl in range(1, 11):
        out.append(f'<text:list-level-style-bullet text:level="{lvl}" text:bullet-char="•">'
                   f'<style:list-level-properties text:space-before="{0.6 * (lvl - 1):.1f}cm" '
                   f'text:min-label-width="0.6cm"/></text:list-level-style-bullet>')
    out.append("</text:list-style>")
    return "".join(out)


# ---------------------------------------------------------------------------------------------------------------
# tables shared by odt / odp / odg

def _table(rows, c: _Ctx, out: list, kind: str, cellfn):
    """kind "text": table in a text document; "draw": table in a draw:frame. cellfn(cell_blocks, in_header)."""
    ti = c.ntbl
    c.ntbl += 1
    if not rows:
        raise NotImplementedError("a table without rows is not expressible in ODF")
    creps = c.cell_rep.get(ti) or {}
    rreps = c.row_rep.get(ti) or {}
    ncols = 1
    for r, row in enumerate(rows):
        if not row:
            raise NotImplementedError("a table row without cells is not expressible in ODF")
        w = 0
        for ci in range(len(row)):
            w += creps.get((r, ci), 1)
        if w > ncols:
            ncols = w
    for (r, ci) in creps:
        if not (0 <= r < len(rows) and 0 <= ci < len(rows[r])):
            raise ValueError("cell_repeat names a cell that does not exist")
    for r in rreps:
        if not 0 <= r < len(rows):
            raise ValueError("row_repeat names a row that does not exist")
    c.used_cell_rep += len(creps)
    c.used_row_rep += len(rreps)
    if kind == "text":
        out.append(f'<table:table table:name="Table{ti + 1}" table:style-name="Tbl">')
        col, rowst, cellst = "TblCol", "", ' table:style-name="TblCell" office:value-type="string"'
    else:
        out.append("<table:table>")
        col, rowst, cellst = "co1", ' table:style-name="ro1"', ' table:style-name="ce1"'
    rep = f' table:number-columns-repeated="{ncols}"' if ncols > 1 else ""
    out.append(f'<table:table-column table:style-name="{col}"{rep}/>')
    hdr = min(c.header_rows, len(rows))
    if hdr:
        out.append("<table:table-header-rows>")
    for r, row in enumerate(rows):
        if hdr and r == hdr:
            out.append("</table:table-header-rows>")
        rr = f' table:number-rows-repeated="{rreps[r]}"' if r in rreps else ""
        out.append(f"<table:table-row{rowst}{rr}>")
        for ci, cell in enumerate(row):
            cr = f' table:number-columns-repeated="{creps[(r, ci)]}"' if (r, ci) in creps else ""
            out.append(f"<table:table-cell{cellst}{cr}>")
            cellfn(cell, r < hdr)
            out.append("</table:table-cell>")
        out.append("</table:table-row>")
    if hdr and hdr == len(rows):
        out.append("</table:table-header-rows>")
    out.append("</table:table>")


# ---------------------------------------------------------------------------------------------------------------
# ODT

_ODT_AUTO = (
    '<style:style style:name="PB" style:family="paragraph" style:parent-style-name="Standard">'
    '<style:paragraph-properties fo:break-before="page"/></style:style>'
    '<style:style style:name="Tbl" style:family="table"><style:table-properties style:width="17cm" '
    'table:align="margins"/></style:style>'
    '<style:style style:name="TblCol" style:family="table-column"><style:table-column-properties '
    'style:column-width="2cm" style:rel-column-width="1*"/></style:style>'
    '<style:style style:name="TblCell" style:family="table-cell"><style:table-cell-properties fo:padding="0.1cm" '
    'fo:border="0.05pt solid #000000"/></style:style>'
    '<style:style style:name="fr1" style:family="graphic" style:parent-style-name="Frame">'
    '<style:graphic-properties style:vertical-pos="top" style:vertical-rel="baseline" fo:padding="0.1cm" '
    'fo:border="0.05pt solid #000000"/></style:style>'
    '<style:style style:name="fr2" style:family="graphic" style:parent-style-name="Graphics">'
    '<style:graphic-properties style:vertical-pos="top" style:vertical-rel="baseline"/></style:style>'
    + _list_style("L1"))

_ODT_STYLES = (
    '<style:default-style style:family="paragraph"><style:paragraph-properties style:tab-stop-distance="1.25cm"/>'
    '<style:text-properties fo:font-size="12pt" fo:language="en" fo:country="US"/></style:default-style>'
    '<style:default-style style:family="graphic"/><style:default-style style:family="table"/>'
    '<style:style style:name="Standard" style:family="paragraph" style:class="text"/>'
    '<style:style style:name="Text_20_body" style:display-name="Text body" style:family="paragraph" '
    'style:parent-style-name="Standard" style:class="text"/>'
    '<style:style style:name="Heading" style:family="paragraph" style:parent-style-name="Standard" '
    'style:next-style-name="Text_20_body" style:class="text"><style:paragraph-properties fo:keep-with-next="always"/>'
    '</style:style>'
    + "".join(f'<style:style style:name="Heading_20_{i}" style:display-name="Heading {i}" style:family="paragraph" '
              f'style:parent-style-name="Heading" style:next-style-name="Text_20_body" '
              f'style:default-outline-level="{i}" style:class="text"><style:text-properties fo:font-weight="bold"/>'
              f'</style:style>' for i in range(1, 11)) +
    '<style:style style:name="Table_20_Contents" style:display-name="Table Contents" style:family="paragraph" '
    'style:parent-style-name="Standard" style:class="extra"/>'
    '<style:style style:name="Table_20_Heading" style:display-name="Table Heading" style:family="paragraph" '
    'style:parent-style-name="Table_20_Contents" style:class="extra"/>'
    '<style:style style:name="Frame_20_contents" style:display-name="Frame contents" style:family="paragraph" '
    'style:parent-style-name="Standard" style:class="extra"/>'
    '<style:style style:name="Footnote" style:family="paragraph" style:parent-style-name="Standard" '
    'style:class="extra"/>'
    '<style:style style:name="Endnote" style:family="paragraph" style:parent-style-name="Standard" '
    'style:class="extra"/>'
    '<style:style style:name="Header" style:family="paragraph" style:parent-style-name="Standard" '
    'style:class="extra"/>'
    '<style:style style:name="Footer" style:family="paragraph" style:parent-style-name="Standard" '
    'style:class="extra"/>'
    '<style:style style:name="Frame" style:family="graphic"><style:graphic-properties text:anchor-type="paragraph" '
    'style:wrap="parallel"/></style:style>'
    '<style:style style:name="Graphics" style:family="graphic"><style:graphic-properties '
    'text:anchor-type="paragraph" style:wrap="none"/></style:style>'
    '<text:notes-configuration text:note-class="footnote" style:num-format="1" text:start-numbering-at="document"/>'
    '<text:notes-configuration text:note-class="endnote" style:num-format="i"/>')

_PAGE_LAYOUT_A4 = (
    '<style:page-layout style:name="pm1"><style:page-layout-properties fo:page-width="21cm" fo:page-height="29.7cm" '
    'style:print-orientation="portrait" fo:margin-top="2cm" fo:margin-bottom="2cm" fo:margin-left="2cm" '
    'fo:margin-right="2cm"/>'
    '<style:header-style><style:header-footer-properties fo:min-height="0.6cm" fo:margin-bottom="0.5cm"/>'
    '</style:header-style>'
    '<style:footer-style><style:header-footer-properties fo:min-height="0.6cm" fo:margin-top="0.5cm"/>'
    '</style:footer-style></style:page-layout>')


def _master_hf(meta: dict, name: str, pst_h: str, pst_f: str) -> str:
    out = [f'<style:master-page style:name="{name}" style:page-layout-name="pm1">']
    if "header" in meta:
        out.append(f'<style:header><text:p{pst_h}>{_ptext(meta["header"])}</text:p></style:header>')
    if "footer" in meta:
        out.append(f'<style:footer><text:p{pst_f}>{_ptext(meta["footer"])}</text:p></style:footer>')
    out.append("</style:master-page>")
    return "".join(out)


class _Odt:
    def __init__(self, c: _Ctx):
        self.c = c
        lo = bool(c.opts.get("lo_style_names"))
        self.p_body = "Text_20_body" if lo else "Standard"
        self.p_cell = "Table_20_Contents" if lo else "Standard"
        self.p_head = "Table_20_Heading" if lo else "Standard"
        self.p_box = "Frame_20_contents" if lo else "Standard"
        self.note_class = c.opts.get("note_class", "footnote")
        if self.note_class not in ("footnote", "endnote"):
            raise ValueError("note_class must be footnote or endnote")

    # -- inlines
    def inl(self, xs, in_a=False) -> str:
        c = self.c
        out = []
        for x in xs:
            k = x[0]
            if k == "t":
                out.append(_ptext(x[1]))
            elif k == "tab":
                out.append("<text:tab/>")
            elif k == "br":
                out.append("<text:line-break/>")
            elif k == "a":
                if in_a:
                    raise NotImplementedError("hyperlink inside a hyperlink is not expressible in ODF")
                out.append(f'<text:a xlink:type="simple" xlink:href="{_esca(x[1])}">{self.inl(x[2], True)}</text:a>')
            elif k == "ins":
                cid = "ct%d" % (len(c.changes) + 1)
                c.changes.append(f'<text:changed-region xml:id="{cid}" text:id="{cid}"><text:insertion>'
                                 f'<office:change-info><dc:creator>{_AUTHOR}</dc:creator><dc:date>{_FIXED_DATE}'
                                 f'</dc:date></office:change-info></text:insertion></text:changed-region>')
                out.append(f'<text:change-start text:change-id="{cid}"/>{_ptext(x[1])}'
                           f'<text:change-end text:change-id="{cid}"/>')
            elif k == "del":
                cid = "ct%d" % (len(c.changes) + 1)
                c.changes.append(f'<text:changed-region xml:id="{cid}" text:id="{cid}"><text:deletion>'
                                 f'<office:change-info><dc:creator>{_AUTHOR}</dc:creator><dc:date>{_FIXED_DATE}'
                                 f'</dc:date></office:change-info><text:p text:style-name="Standard">{_ptext(x[1])}'
                                 f'</text:p></text:deletion></text:changed-region>')
                out.append(f'<text:change text:change-id="{cid}"/>')
            elif k == "cref":
                out.append(f'<office:annotation><dc:creator>{_AUTHOR}</dc:creator><dc:date>{_FIXED_DATE}</dc:date>'
                           f'<text:p text:style-name="Standard">{_ptext(x[1])}</text:p></office:annotation>')
            elif k == "fn":
                c.nnote += 1
                nc = self.note_class
                pre, sty = ("ftn", "Footnote") if nc == "footnote" else ("edn", "Endnote")
                out.append(f'<text:note text:id="{pre}{c.nnote}" text:note-class="{nc}"><text:note-citation>'
                           f'{c.nnote}</text:note-citation><text:note-body><text:p text:style-name="{sty}">'
                           f'{_ptext(x[1])}</text:p></text:note-body></text:note>')
            elif k == "box":
                c.nframe += 1
                inner = []
                self.blocks(x[1], inner, self.p_box, False)
                out.append(f'<draw:frame draw:style-name="fr1" draw:name="Frame{c.nframe}" '
                           f'text:anchor-type="as-char" svg:width="8cm" draw:z-index="{c.nframe + c.nimg}">'
                           f'<draw:text-box fo:min-height="0.5cm">{"".join(inner)}</draw:text-box></draw:frame>')
            elif k in ("sdt", "math"):
                raise NotImplementedError(f"{k} is not expressible in an ODT body")
            else:
                raise NotImplementedError(f"inline {k!r}")
        return "".join(out)

    # -- blocks
    def blocks(self, bs, out: list, pst: str, in_item: bool):
        c = self.c
        for b in bs:
            k = b[0]
            if k == "p":
                out.append(f'<text:p text:style-name="{pst}">{self.inl(b[1])}</text:p>')
            elif k == "h":
                lvl = b[1]
                if isinstance(lvl, bool) or not isinstance(lvl, int) or not 1 <= lvl <= 10:
                    raise ValueError(f"heading level {lvl!r}")
                out.append(f'<text:h text:style-name="Heading_20_{lvl}" text:outline-level="{lvl}">'
                           f'{self.inl(b[2])}</text:h>')
            elif k == "ul":
                out.append("<text:list>" if in_item else '<text:list text:style-name="L1">')
                for item in b[1]:
                    out.append("<text:list-item>")
                    self.blocks(item, out, pst, True)
                    out.append("</text:list-item>")
                out.append("</text:list>")
            elif k == "tbl":
                if in_item:
                    raise NotImplementedError("a table inside a list item is not expressible in ODF")
                _table(b[1], c, out, "text", lambda cell, hd: self.cell(cell, out, hd))
            elif k == "img":
                frame = _image_frame(c, b[1], f'draw:style-name="fr2" text:anchor-type="as-char" '
                                              f'draw:z-index="{c.nframe + c.nimg}"')
                out.append(f'<text:p text:style-name="{pst}">{frame}</text:p>')
            elif k == "pb":
                out.append('<text:p text:style-name="PB"/>')
            else:
                raise NotImplementedError(f"block {k!r}")

    def cell(self, cell, out: list, in_header: bool):
        pst = self.p_head if in_header else self.p_cell
        if not cell:
            out.append(f'<text:p text:style-name="{pst}"/>')
        else:
            self.blocks(cell, out, pst, False)


def _check_extras(u, allowed: tuple, fmt: str):
    ex = u[2] if len(u) > 2 and u[2] else {}
    for k, v in ex.items():
        if v and k not in allowed:
            raise NotImplementedError(f"unit extra {k!r} is not expressible in {fmt}")
    return ex


def odt(doc, images=None, opts=None) -> bytes:
    """Text document.  Units are separated by an (empty) page-break paragraph."""
    c = _Ctx("odt", images, opts)
    meta, units = _split_doc(doc, True)
    w = _Odt(c)
    body = []
    for ui, u in enumerate(units):
        if u[0] != "unit":
            raise NotImplementedError(f"{u[0]!r} in a text document")
        _check_extras(u, (), "odt")
        if ui:
            body.append('<text:p text:style-name="PB"/>')
        w.blocks(u[1], body, w.p_body, False)
    c.check_repeats_consumed()
    tracked = ""
    if c.changes:
        tracked = f'<text:tracked-changes text:track-changes="false">{"".join(c.changes)}</text:tracked-changes>'
    content = _doc_content(_ODT_AUTO, f'<office:text>{tracked}{"".join(body)}</office:text>')
    styles = _doc_styles(_ODT_STYLES, _PAGE_LAYOUT_A4,
                         _master_hf(meta, "Standard", ' text:style-name="Header"', ' text:style-name="Footer"'))
    return _package("odt", [("content.xml", content, "text/xml"), ("styles.xml", styles, "text/xml"),
                            ("meta.xml", _meta_xml(meta, c.opts), "text/xml")], c)


# ---------------------------------------------------------------------------------------------------------------
# ODP / ODG

_DRAW_TABLE_AUTO = (
    '<style:style style:name="co1" style:family="table-column"><style:table-column-properties '
    'style:column-width="4cm"/></style:style>'
    '<style:style style:name="ro1" style:family="table-row"><style:table-row-properties style:row-height="1cm"/>'
    '</style:style>'
    '<style:style style:name="ce1" style:family="table-cell"><style:table-cell-properties '
    'fo:border="0.03cm solid #000000" fo:padding="0.1cm"/></style:style>')

_ODP_AUTO = (
    '<style:style style:name="dp1" style:family="drawing-page"><style:drawing-page-properties '
    'presentation:background-visible="true" presentation:background-objects-visible="true"/></style:style>'
    '<style:style style:name="dp2" style:family="drawing-page"><style:drawing-page-properties '
    'presentation:display-header="false" presentation:display-footer="false"/></style:style>'
    '<style:style style:name="gr1" style:family="graphic" style:parent-style-name="standard">'
    '<style:graphic-properties draw:stroke="none" draw:fill="none" draw:auto-grow-height="true"/></style:style>'
    '<style:style style:name="gr2" style:family="graphic" style:parent-style-name="standard">'
    '<style:graphic-properties style:protect="size"/></style:style>'
    '<style:style style:name="pr1" style:family="presentation" style:parent-style-name="Default-title">'
    '<style:graphic-properties draw:auto-grow-height="true"/></style:style>'
    '<style:style style:name="pr2" style:family="presentation" style:parent-style-name="Default-outline1">'
    '<style:graphic-properties draw:auto-grow-height="true"/></style:style>'
    '<style:style style:name="pr3" style:family="presentation" style:parent-style-name="Default-notes">'
    '<style:graphic-properties draw:auto-grow-height="true"/></style:style>'
    + "".join(f'<style:style style:name="{n}" style:family="paragraph"/>'
              for n in ("P1", "P2", "P3", "P4", "TitleText", "BodyText"))
    + _list_style("L1") + _DRAW_TABLE_AUTO)

_ODG_AUTO = (
    '<style:style style:name="dp1" style:family="drawing-page"/>'
    '<style:style style:name="gr1" style:family="graphic" style:parent-style-name="standard">'
    '<style:graphic-properties draw:stroke="none" draw:fill="none" draw:auto-grow-height="true"/></style:style>'
    '<style:style style:name="gr2" style:family="graphic" style:parent-style-name="standard">'
    '<style:graphic-properties style:protect="size"/></style:style>'
    '<style:style style:name="P3" style:family="paragraph"/>'
    + _list_style("L1") + _DRAW_TABLE_AUTO)

_LAYER_SET = ('<draw:layer-set><draw:layer draw:name="layout"/><draw:layer draw:name="background"/>'
              '<draw:layer draw:name="backgroundobjects"/><draw:layer draw:name="controls"/>'
              '<draw:layer draw:name="measurelines"/></draw:layer-set>')

_DRAW_STYLES_COMMON = (
    '<style:default-style style:family="graphic"><style:text-properties fo:font-size="18pt" fo:language="en" '
    'fo:country="US"/></style:default-style>'
    '<style:style style:name="standard" style:family="graphic"><style:graphic-properties draw:stroke="solid" '
    'svg:stroke-color="#000000" draw:fill="solid" draw:fill-color="#ffffff"/></style:style>')

_ODP_STYLES = _DRAW_STYLES_COMMON + "".join(
    f'<style:style style:name="Default-{n}" style:family="presentation"/>'
    for n in ("background", "backgroundobjects", "notes", "outline1", "subtitle", "title"))

_ODP_STYLES_AUTO = (
    '<style:page-layout style:name="PM0"><style:page-layout-properties fo:margin-top="0cm" fo:margin-bottom="0cm" '
    'fo:margin-left="0cm" fo:margin-right="0cm" fo:page-width="21cm" fo:page-height="29.7cm" '
    'style:print-orientation="portrait"/></style:page-layout>'
    '<style:page-layout style:name="PM1"><style:page-layout-properties fo:margin-top="0cm" fo:margin-bottom="0cm" '
    'fo:margin-left="0cm" fo:margin-right="0cm" fo:page-width="28cm" fo:page-height="21cm" '
    'style:print-orientation="landscape"/></style:page-layout>'
    '<style:style style:name="Mdp1" style:family="drawing-page"><style:drawing-page-properties '
    'draw:background-size="border" draw:fill="none"/></style:style>')

_ODP_MASTER = (_LAYER_SET + '<style:master-page style:name="Default" style:page-layout-name="PM1" '
               'draw:style-name="Mdp1"><presentation:notes style:page-layout-name="PM0"/></style:master-page>')
_ODG_MASTER = (_LAYER_SET + '<style:master-page style:name="Default" style:page-layout-name="PM1" '
               'draw:style-name="Mdp1"/>')

_CUSTOM_GEOMETRY = ('<draw:enhanced-geometry svg:viewBox="0 0 21600 21600" draw:type="rectangle" '
                    'draw:enhanced-path="M 0 0 L 21600 0 21600 21600 0 21600 0 0 Z N"/>')


def _cm(v: float) -> str:
    s = f"{v:.3f}".rstrip("0").rstrip(".")
    return s + "cm"


class _Draw:
    """draw:page content shared by presentations and drawings"""

    def __init__(self, c: _Ctx, fmt: str):
        self.c = c
        self.fmt = fmt
        cls = fmt == "odp" and bool(c.opts.get("class_style_names"))
        self.p_title = "TitleText" if cls else "P1"
        self.p_outline = "BodyText" if cls else "P2"
        self.p_plain = "P3"
        self.p_notes = "P4"
        self.custom = bool(c.opts.get("custom_shape"))

    def inl(self, xs, in_a=False) -> str:
        out = []
        for x in xs:
            k = x[0]
            if k == "t":
                out.append(_ptext(x[1]))
            elif k == "tab":
                out.append("<text:tab/>")
            elif k == "br":
                out.append("<text:line-break/>")
            elif k == "a":
                if in_a:
                    raise NotImplementedError("hyperlink inside a hyperlink is not expressible in ODF")
                out.append(f'<text:a xlink:type="simple" xlink:href="{_esca(x[1])}">{self.inl(x[2], True)}</text:a>')
            else:
                raise NotImplementedError(f"inline {k!r} is not expressible in {self.fmt}")
        return "".join(out)

    def paras(self, bs, out: list, pst: str, in_item: bool, where: str):
        """content of a list item or table cell: paragraphs and lists only"""
        for b in bs:
            k = b[0]
            if k == "p":
                out.append(f'<text:p text:style-name="{pst}">{self.inl(b[1])}</text:p>')
            elif k == "ul":
                self.list(b[1], out, pst, in_item)
            else:
                raise NotImplementedError(f"block {k!r} inside a {where} is not expressible in {self.fmt}")

    def list(self, items, out: list, pst: str, nested: bool):
        out.append("<text:list>" if nested else '<text:list text:style-name="L1">')
        for item in items:
            out.append("<text:list-item>")
            self.paras(item, out, pst, True, "list item")
            out.append("</text:list-item>")
        out.append("</text:list>")

    def cell(self, cell, out: list):
        if not cell:
            out.append(f'<text:p text:style-name="{self.p_plain}"/>')
        else:
            self.paras(cell, out, self.p_plain, False, "table cell")

    def page(self, u, idx: int, out: list):
        c, fmt = self.c, self.fmt
        if u[0] != "unit":
            raise NotImplementedError(f"{u[0]!r} in a {fmt} document")
        ex = _check_extras(u, ("notes", "name") if fmt == "odp" else ("name",), fmt)
        name = ex.get("name") or "page%d" % (idx + 1)
        out.append(f'<draw:page draw:name="{_esca(name)}" draw:style-name="dp1" draw:master-page-name="Default">')
        blocks = u[1]
        n = len(blocks)
        step = min(2.0, 19.0 / n) if n else 2.0
        seen_h = False
        for i, b in enumerate(blocks):
            k = b[0]
            geom = (f'draw:layer="layout" svg:width="25.2cm" svg:height="{_cm(step * 0.8)}" svg:x="1.4cm" '
                    f'svg:y="{_cm(0.8 + i * step)}"')
            plain = f'draw:style-name="gr1" draw:text-style-name="{self.p_plain}" {geom}'
            if k == "h":
                lvl = b[1]
                if isinstance(lvl, bool) or not isinstance(lvl, int) or not 1 <= lvl <= 10:
                    raise ValueError(f"heading level {lvl!r}")
                if fmt == "odp":
                    if seen_h:
                        raise NotImplementedError("a second heading on a slide is not expressible (one title)")
                    seen_h = True
                    out.append(f'<draw:frame presentation:style-name="pr1" draw:text-style-name="{self.p_title}" '
                               f'{geom} presentation:class="title"><draw:text-box><text:p text:style-name='
                               f'"{self.p_title}">{self.inl(b[2])}</text:p></draw:text-box></draw:frame>')
                else:
                    out.append(f'<draw:frame {plain}><draw:text-box><text:h text:style-name="{self.p_plain}" '
                               f'text:outline-level="{lvl}">{self.inl(b[2])}</text:h></draw:text-box></draw:frame>')
            elif k == "p":
                para = f'<text:p text:style-name="{self.p_plain}">{self.inl(b[1])}</text:p>'
                if self.custom:
                    out.append(f"<draw:custom-shape {plain}>{para}{_CUSTOM_GEOMETRY}</draw:custom-shape>")
                else:
                    out.append(f"<draw:frame {plain}><draw:text-box>{para}</draw:text-box></draw:frame>")
            elif k == "ul":
                if fmt == "odp":
                    out.append(f'<draw:frame presentation:style-name="pr2" draw:text-style-name="{self.p_outline}" '
                               f'{geom} presentation:class="outline"><draw:text-box>')
                    self.list(b[1], out, self.p_outline, False)
                else:
                    out.append(f"<draw:frame {plain}><draw:text-box>")
                    self.list(b[1], out, self.p_plain, False)
                out.append("</draw:text-box></draw:frame>")
            elif k == "tbl":
                out.append(f'<draw:frame draw:style-name="gr1" {geom}>')
                _table(b[1], c, out, "draw", lambda cell, hd: self.cell(cell, out))
                out.append("</draw:frame>")
            elif k == "img":
                out.append(_image_frame(c, b[1], f'draw:style-name="gr2" draw:layer="layout" svg:x="1.4cm" '
                                                 f'svg:y="{_cm(0.8 + i * step)}"'))
            else:
                raise NotImplementedError(f"block {k!r} is not expressible in {fmt}")
        if fmt == "odp" and ex.get("notes"):
            out.append(f'<presentation:notes draw:style-name="dp2"><draw:page-thumbnail draw:style-name="gr2" '
                       f'draw:layer="layout" svg:width="14.848cm" svg:height="11.136cm" svg:x="3.075cm" '
                       f'svg:y="2.257cm" draw:page-number="{idx + 1}" presentation:class="page"/>'
                       f'<draw:frame presentation:style-name="pr3" draw:text-style-name="{self.p_notes}" '
                       f'draw:layer="layout" svg:width="16.799cm" svg:height="13.364cm" svg:x="2.1cm" '
                       f'svg:y="14.107cm" presentation:class="notes"><draw:text-box>')
            for tok in ex["notes"]:
                out.append(f'<text:p text:style-name="{self.p_notes}">{_ptext(tok)}</text:p>')
            out.append("</draw:text-box></draw:frame></presentation:notes>")
        out.append("</draw:page>")


def _draw_doc(fmt: str, doc, images, opts) -> bytes:
    c = _Ctx(fmt, images, opts)
    meta, units = _split_doc(doc, False)
    w = _Draw(c, fmt)
    body = []
    for i, u in enumerate(units):
        w.page(u, i, body)
    c.check_repeats_consumed()
    if fmt == "odp":
        content = _doc_content(_ODP_AUTO, f'<office:presentation>{"".join(body)}</office:presentation>')
        styles = _doc_styles(_ODP_STYLES, _ODP_STYLES_AUTO, _ODP_MASTER)
    else:
        content = _doc_content(_ODG_AUTO, f'<office:drawing>{"".join(body)}</office:drawing>')
        styles = _doc_styles(_DRAW_STYLES_COMMON, _ODP_STYLES_AUTO, _ODG_MASTER)
    return _package(fmt, [("content.xml", content, "text/xml"), ("styles.xml", styles, "text/xml"),
                          ("meta.xml", _meta_xml(meta, c.opts), "text/xml")], c)


def odp(doc, images=None, opts=None) -> bytes:
    """Presentation: one draw:page per unit; blocks become frames whose svg:y increases with source order."""
    return _draw_doc("odp", doc, images, opts)


def odg(doc, images=None, opts=None) -> bytes:
    """Drawing: one draw:page per unit; text boxes / custom shapes / tables / images with explicit positions."""
    return _draw_doc("odg", doc, images, opts)


# ---------------------------------------------------------------------------------------------------------------
# ODS

_OF_REF = re.compile(r"(?<![A-Za-z0-9_.\]$'!])(?:(?:'((?:[^']|'')+)'|([A-Za-z_][A-Za-z0-9_]*))!)?"
                     r"(\$?[A-Za-z]{1,3}\$?[0-9]+)(?::(\$?[A-Za-z]{1,3}\$?[0-9]+))?(?![A-Za-z0-9_(!])")


def _of_ref(m) -> str:
    sheet = ""
    if m.group(1) is not None:
        sheet = "$'" + m.group(1) + "'"
    elif m.group(2) is not None:
        sheet = "$" + m.group(2)
    a, b = m.group(3).upper(), m.group(4)
    if b is None:
        return f"[{sheet}.{a}]"
    return f"[{sheet}.{a}:.{b.upper()}]"


def to_openformula(f: str) -> str:
    """spreadsheet-style formula text ("=SUM(A1:B2,1)", "A1+Sheet2!B3") -> OpenFormula attribute value
    ("of:=SUM([.A1:.B2];1)"); text starting with "of:" is passed through."""
    _chk(f)
    if f.startswith("of:"):
        return f
    if f.startswith("="):
        f = f[1:]
    out = []
    for i, part in enumerate(re.split(r'("(?:[^"]|"")*")', f)):
        if i % 2:
            out.append(part)
        else:
            out.append(_OF_REF.sub(_of_ref, part).replace(",", ";"))
    return "of:=" + "".join(out)


_ERR_FORMULA = {"#DIV/0!": "of:=1/0", "#N/A": "of:=NA()", "#VALUE!": 'of:="a"+1', "#NAME?": "of:=UNKNOWNNAME()",
                "#NUM!": "of:=SQRT(-1)", "#REF!": "of:=#REF!", "#NULL!": "of:=[.A1]![.B2]"}

_RE_DATE = re.compile(r"\d{4}-\d{2}-\d{2}\Z")
_RE_DATETIME = re.compile(r"\d{4}-\d{2}-\d{2}T\d{2}:\d{2}:\d{2}(\.\d+)?\Z")
_RE_TIME = re.compile(r"(\d{2}):(\d{2}):(\d{2})\Z")

_NUM_HMS = ('<number:hours number:style="long"/><number:text>:</number:text><number:minutes number:style="long"/>'
            '<number:text>:</number:text><number:seconds number:style="long"/>')
_NUM_YMD = ('<number:year number:style="long"/><number:text>-</number:text><number:month number:style="long"/>'
            '<number:text>-</number:text><number:day number:style="long"/>')

_ODS_AUTO = (
    '<style:style style:name="co1" style:family="table-column"><style:table-column-properties '
    'fo:break-before="auto" style:column-width="2.258cm"/></style:style>'
    '<style:style style:name="ro1" style:family="table-row"><style:table-row-properties style:row-height="0.452cm" '
    'fo:break-before="auto" style:use-optimal-row-height="true"/></style:style>'
    '<style:style style:name="ta1" style:family="table" style:master-page-name="Default"><style:table-properties '
    'table:display="true" style:writing-mode="lr-tb"/></style:style>'
    '<style:style style:name="gr1" style:family="graphic"><style:graphic-properties draw:stroke="none" '
    'draw:fill="none"/></style:style>'
    f'<number:date-style style:name="N_d">{_NUM_YMD}</number:date-style>'
    f'<number:date-style style:name="N_dt">{_NUM_YMD}<number:text>T</number:text>{_NUM_HMS}</number:date-style>'
    f'<number:time-style style:name="N_tm">{_NUM_HMS}</number:time-style>'
    f'<number:time-style style:name="N_dur" number:truncate-on-overflow="false">{_NUM_HMS}</number:time-style>'
    '<number:boolean-style style:name="N_b"><number:boolean/></number:boolean-style>'
    '<number:percentage-style style:name="N_pct"><number:number number:decimal-places="2" '
    'number:min-integer-digits="1"/><number:text>%</number:text></number:percentage-style>'
    + "".join(f'<style:style style:name="ce_{n}" style:family="table-cell" style:parent-style-name="Default" '
              f'style:data-style-name="N_{n}"/>' for n in ("d", "dt", "tm", "dur", "b", "pct")))

_ODS_STYLES = ('<style:default-style style:family="table-cell"><style:text-properties fo:font-size="10pt" '
               'fo:language="en" fo:country="US"/></style:default-style>'
               '<style:style style:name="Default" style:family="table-cell"/>')


def _dur(seconds) -> tuple:
    if isinstance(seconds, bool) or not isinstance(seconds, (int, float)) or seconds != seconds \
            or seconds in (float("inf"), float("-inf")):
        raise ValueError(f"duration {seconds!r}")
    sign = "-" if seconds < 0 else ""
    a = -seconds if seconds < 0 else seconds
    whole = int(a)
    h, rem = divmod(whole, 3600)
    m, s = divmod(rem, 60)
    frac = ""
    if a != whole:
        frac = ("%.9f" % (a - whole))[1:].rstrip("0").rstrip(".")      # ".5"
    return f"{sign}PT{h}H{m:02d}M{s:02d}{frac}S", f"{sign}{h}:{m:02d}:{s:02d}{frac}"


def _num(v) -> str:
    if isinstance(v, bool) or not isinstance(v, (int, float)):
        raise ValueError(f"number expected, got {v!r}")
    if isinstance(v, float):
        if v != v or v in (float("inf"), float("-inf")):
            raise ValueError("non-finite number has no office:value representation")
        return repr(v)
    return str(v)


class _Ods:
    def __init__(self, c: _Ctx):
        self.c = c
        self.cur_styles = {}    # currency code -> cell style name

    def value(self, cell) -> tuple:
        """-> (attribute string incl. style, [display line, ...])"""
        k = cell[0]
        if k == "s":
            v = _chk(cell[1])
            return ' office:value-type="string"', v.replace("\r\n", "\n").replace("\r", "\n").split("\n")
        if k == "i":
            v = cell[1]
            if isinstance(v, bool) or not isinstance(v, int):
                raise ValueError(f"int cell holds {v!r}")
            return f' office:value-type="float" office:value="{v}"', [str(v)]
        if k == "f":
            v = cell[1]
            if isinstance(v, bool) or not isinstance(v, (int, float)):
                raise ValueError(f"float cell holds {v!r}")
            s = _num(float(v))
            return f' office:value-type="float" office:value="{s}"', [s]
        if k == "b":
            v = cell[1]
            if not isinstance(v, bool):
                raise ValueError(f"bool cell holds {v!r}")
            return (f' table:style-name="ce_b" office:value-type="boolean" office:boolean-value="{str(v).lower()}"',
                    ["TRUE" if v else "FALSE"])
        if k == "d":
            if not _RE_DATE.match(cell[1]):
                raise ValueError(f"date {cell[1]!r}")
            return f' table:style-name="ce_d" office:value-type="date" office:date-value="{cell[1]}"', [cell[1]]
        if k == "dt":
            if not _RE_DATETIME.match(cell[1]):
                raise ValueError(f"datetime {cell[1]!r}")
            return f' table:style-name="ce_dt" office:value-type="date" office:date-value="{cell[1]}"', [cell[1]]
        if k == "tm":
            m = _RE_TIME.match(cell[1])
            if not m or int(m.group(1)) > 23 or int(m.group(2)) > 59 or int(m.group(3)) > 59:
                raise ValueError(f"time {cell[1]!r}")
            return (f' table:style-name="ce_tm" office:value-type="time" '
                    f'office:time-value="PT{m.group(1)}H{m.group(2)}M{m.group(3)}S"', [cell[1]])
        if k == "dur":
            iso, disp = _dur(cell[1])
            return f' table:style-name="ce_dur" office:value-type="time" office:time-value="{iso}"', [disp]
        if k == "err":
            if cell[1] not in _ERR_FORMULA:
                raise NotImplementedError(f"error value {cell[1]!r}")
            return ' office:value-type="string" office:string-value=""', [cell[1]]
        if k == "pct":
            s = _num(cell[1])
            return (f' table:style-name="ce_pct" office:value-type="percentage" office:value="{s}"',
                    ["%.2f%%" % (cell[1] * 100)])
        if k == "cur":
            s, code = _num(cell[1]), cell[2]
            if not re.match(r"[A-Z]{3}\Z", code):
                raise ValueError(f"currency code {code!r}")
            st = self.cur_styles.setdefault(code, "ce_cur%d" % (len(self.cur_styles) + 1))
            return (f' table:style-name="{st}" office:value-type="currency" office:currency="{code}" '
                    f'office:value="{s}"', ["%.2f %s" % (cell[1], code)])
        raise NotImplementedError(f"cell {k!r}")

    def cell(self, cell, rep, extra: str = "", pre: str = "") -> str:
        ra = "" if rep is None else f' table:number-columns-repeated="{rep}"'
        if cell is None:
            return f"<table:table-cell{ra}>{pre}{extra}</table:table-cell>" if extra or pre else f"<table:table-cell{ra}/>"
        if not isinstance(cell, (list, tuple)) or not cell:
            raise ValueError(f"cell {cell!r}")
        formula = ""
        if cell[0] == "fml":
            formula = f' table:formula="{_esca(to_openformula(cell[1]))}"'
            cell = cell[2]
            if cell is None:
                return f"<table:table-cell{formula}{ra}>{pre}{extra}</table:table-cell>"
            if cell[0] == "fml":
                raise ValueError("formula as the cached value of a formula")
        elif cell[0] == "err" and cell[1] in _ERR_FORMULA:
            formula = f' table:formula="{_esca(_ERR_FORMULA[cell[1]])}"'
        attrs, lines = self.value(cell)
        ps = "".join(f"<text:p>{_ptext(ln)}</text:p>" for ln in lines)
        return f"<table:table-cell{formula}{attrs}{ra}>{pre}{ps}{extra}</table:table-cell>"

    def currency_styles(self) -> str:
        out = []
        for code, st in self.cur_styles.items():
            out.append(f'<number:currency-style style:name="N_{st}"><number:number number:decimal-places="2" '
                       f'number:min-integer-digits="1"/><number:text> </number:text><number:currency-symbol>{code}'
                       f'</number:currency-symbol></number:currency-style>'
                       f'<style:style style:name="{st}" style:family="table-cell" style:parent-style-name="Default" '
                       f'style:data-style-name="N_{st}"/>')
        return "".join(out)


def ods(doc, images=None, opts=None) -> bytes:
    """Spreadsheet: doc[2] = [["sheet", name, grid], ...]"""
    c = _Ctx("ods", images, opts)
    meta, units = _split_doc(doc, True)
    w = _Ods(c)
    rp = c.opts.get("repeat") or None
    if rp is not None:
        rp_on = rp.get("on", "empty")
        if rp_on not in ("empty", "value"):
            raise ValueError('repeat["on"] must be "empty" or "value"')
        rp_cols = None if rp.get("cols") is None else _posint(rp["cols"], "repeat cols")
        rp_rows = None if rp.get("rows") is None else _posint(rp["rows"], "repeat rows")
        rp_sheet = rp.get("sheet")
    sheet_imgs, cell_imgs = {}, {}
    for ent in c.opts.get("images_at") or []:
        if len(ent) == 2:
            sheet_imgs.setdefault(ent[0], []).append(ent[1])
        elif len(ent) == 4:
            cell_imgs.setdefault(ent[0], {}).setdefault((ent[1], ent[2]), []).append(ent[3])
        else:
            raise ValueError("images_at entries are [sheet, key] or [sheet, row, col, key]")
    cell_notes = {}
    for ent in c.opts.get("comments_at") or []:
        if len(ent) != 4:
            raise ValueError("comments_at entries are [sheet, row, col, text]")
        if (ent[1], ent[2]) in cell_notes.setdefault(ent[0], {}):
            raise ValueError("comments_at: a cell has one comment")
        cell_notes[ent[0]][(ent[1], ent[2])] = _chk(ent[3])
    used_notes = 0
    used_imgs = 0
    body = []
    for si, sh in enumerate(units):
        if sh[0] != "sheet":
            raise NotImplementedError(f"{sh[0]!r} in a spreadsheet")
        name, grid = _chk(sh[1]), [list(row) for row in sh[2]]
        if not name:
            raise ValueError("empty sheet name")
        creps = dict(c.cell_rep.get(si) or {})
        rreps = dict(c.row_rep.get(si) or {})
        for (r, ci) in creps:
            if not (0 <= r < len(grid) and 0 <= ci < len(grid[r])):
                raise ValueError("cell_repeat names a cell that does not exist")
        for r in rreps:
            if not 0 <= r < len(grid):
                raise ValueError("row_repeat names a row that does not exist")
        c.used_cell_rep += len(creps)
        c.used_row_rep += len(rreps)
        if rp is not None and (rp_sheet is None or rp_sheet == si):
            if rp_on == "empty":
                if rp_cols is not None:
                    if not grid:
                        grid.append([])
                    grid[-1].append(None)
                    creps[(len(grid) - 1, len(grid[-1]) - 1)] = rp_cols
                if rp_rows is not None:
                    grid.append([None])
                    rreps[len(grid) - 1] = rp_rows
            else:
                if not grid or not grid[-1] or grid[-1][-1] is None:
                    raise ValueError('repeat on "value": the last cell of the last row must hold a value')
                if rp_cols is not None:
                    creps[(len(grid) - 1, len(grid[-1]) - 1)] = rp_cols
                if rp_rows is not None:
                    rreps[len(grid) - 1] = rp_rows
        body.append(f'<table:table table:name="{_esca(name)}" table:style-name="ta1">')
        if sheet_imgs.get(si):
            body.append("<table:shapes>")
            for n, key in enumerate(sheet_imgs[si]):
                body.append(_image_frame(c, key, f'draw:style-name="gr1" draw:z-index="{c.nimg}" svg:x="{n}cm" '
                                                 f'svg:y="0cm"'))
                used_imgs += 1
            body.append("</table:shapes>")
        cimgs = cell_imgs.get(si) or {}
        rows_xml = []
        ncols = 1
        for r, row in enumerate(grid):
            rr = f' table:number-rows-repeated="{rreps[r]}"' if r in rreps else ""
            rows_xml.append(f'<table:table-row table:style-name="ro1"{rr}>')
            width = 0
            for ci, cell in enumerate(row):
                rep = creps.get((r, ci))
                extra = ""
                if (r, ci) in cimgs:
                    for key in cimgs[(r, ci)]:
                        extra += _image_frame(c, key, f'draw:style-name="gr1" draw:z-index="{c.nimg}" svg:x="0cm" '
                                                      f'svg:y="0cm"')
                        used_imgs += 1
                pre = ""
                if (r, ci) in (cell_notes.get(si) or {}):
                    lines = cell_notes[si][(r, ci)].replace("\r\n", "\n").replace("\r", "\n").split("\n")
                    pre = (f'<office:annotation><dc:creator>{_AUTHOR}</dc:creator><dc:date>{_FIXED_DATE}</dc:date>'
                           + "".join(f"<text:p>{_ptext(ln)}</text:p>" for ln in lines) + "</office:annotation>")
                    used_notes += 1
                rows_xml.append(w.cell(cell, rep, extra, pre) if pre else w.cell(cell, rep, extra))
                width += 1 if rep is None else rep
            if not row:
                rows_xml.append("<table:table-cell/>")
                width = 1
            if width > ncols:
                ncols = width
            rows_xml.append("</table:table-row>")
        for (r, ci) in cimgs:
            if not (0 <= r < len(grid) and 0 <= ci < len(grid[r])):
                raise ValueError("images_at names a cell that does not exist")
        if not grid:
            rows_xml.append('<table:table-row table:style-name="ro1"><table:table-cell/></table:table-row>')
        rep = f' table:number-columns-repeated="{ncols}"' if ncols > 1 else ""
        body.append(f'<table:table-column table:style-name="co1"{rep} table:default-cell-style-name="Default"/>')
        body.extend(rows_xml)
        body.append("</table:table>")
    c.check_repeats_consumed()
    if used_imgs != len(c.opts.get("images_at") or []):
        raise ValueError("images_at names a sheet that does not exist")
    if used_notes != len(c.opts.get("comments_at") or []):
        raise ValueError("comments_at names a cell that does not exist")
    content = _doc_content(_ODS_AUTO + w.currency_styles(),
                           f'<office:spreadsheet>{"".join(body)}</office:spreadsheet>')
    styles = _doc_styles(_ODS_STYLES, _PAGE_LAYOUT_A4, _master_hf(meta, "Default", "", ""))
    return _package("ods", [("content.xml", content, "text/xml"), ("styles.xml", styles, "text/xml"),
                            ("meta.xml", _meta_xml(meta, c.opts), "text/xml")], c)


# ---------------------------------------------------------------------------------------------------------------
# ODF (formula)

def odf(doc, images=None, opts=None) -> bytes:
    """Formula document: content.xml is a MathML <math> element (ODF 1.2 part 1, 12.5); the single paragraph's
    tokens become <mi> identifiers in an <mrow>, the StarMath 5.0 annotation holds them separated by spaces."""
    c = _Ctx("odf", images, opts)
    meta, units = _split_doc(doc, False)
    if len(units) != 1 or units[0][0] != "unit":
        raise NotImplementedError("a formula document holds exactly one unit")
    u = units[0]
    _check_extras(u, (), "odf")
    if len(u[1]) != 1 or u[1][0][0] != "p":
        raise NotImplementedError("a formula document holds exactly one paragraph")
    toks = []
    for x in u[1][0][1]:
        if x[0] != "t":
            raise NotImplementedError(f"inline {x[0]!r} in a formula document")
        t = _chk(x[1])
        if not re.match(r"[A-Za-z]+\Z", t):
            raise NotImplementedError("only alphabetic identifiers can be written as StarMath / <mi>")
        toks.append(t)
    if not toks:
        raise NotImplementedError("empty formula")
    mis = "".join(f"<mi>{t}</mi>" for t in toks)
    # optional (defaults leave the output unchanged): opts["formula_nesting"] = n wraps the identifiers in n further <mrow>
    # levels (presentation MathML 3, 3.3.1: nested <mrow>s group, they do not change the rendering);
    # opts["formula_annotation"] = False leaves the StarMath annotation out (a reader has to render the MathML itself)
    nest = c.opts.get("formula_nesting", 0) or 0
    if isinstance(nest, bool) or not isinstance(nest, int) or nest < 0:
        raise ValueError("formula_nesting: non-negative integer expected")
    ann = (f'<annotation encoding="StarMath 5.0">{" ".join(toks)}</annotation>'
           if c.opts.get("formula_annotation", True) else "")
    content = (f'{_XML}<math xmlns="{NS_MATHML}" display="block"><semantics>{"<mrow>" * nest}<mrow>{mis}</mrow>{"</mrow>" * nest}'
               f'{ann}</semantics></math>')
    return _package("odf", [("content.xml", content, "text/xml"),
                            ("meta.xml", _meta_xml(meta, c.opts), "text/xml")], c)
