"""Reference RTF writer (written from the RTF 1.9.1 specification) for the abstract document model.

    rtf(doc, images=None, opts=None) -> bytes          CAPS_RTF
    rtf_escape(text, mode="u") -> str                  helper: embed arbitrary text (also used for every token)

`images` maps an image key to (bytes, ext); only ext "png" and "jpeg" can be expressed (\\pngblip / \\jpegblip).
The output is pure 7-bit ASCII (non-ASCII characters are written as \\uN? or \\'xx), deterministic, and by default
contains no CR/LF at all (CR/LF are noise in RTF; see opts "eol").

File layout (RTF 1.9.1 "Contents of an RTF file"):
    {\\rtf1\\ansi\\ansicpg1252[\\uc1]\\deff0\\deflang1033 <fonttbl> <colortbl> <stylesheet> [<listtable> <listoverridetable>]
     [<revtbl>] [<info>] <docfmt> \\sectd [{\\header ..}] [{\\footer ..}] <paragraphs / table rows> }

Mapping of the ADM:
    unit            the paragraphs of the unit; units are separated by a page break (see opts "page_break");
                    an empty unit is a page holding one empty paragraph (a page cannot hold less than that)
    ["p"]           \\pard\\plain\\f0\\fs24 ... \\par
    ["h", n]        \\pard\\plain\\sN\\outlinelevel(N-1)... \\par  with stylesheet entries "heading 1..3"
    ["ul"]          one paragraph per item block; the first paragraph of an item carries the bullet:
                    Word 97+ style  {\\listtext\\pard\\plain\\f1 \\'b7\\tab}\\pard\\plain\\ls1\\ilvlN...   (+ \\listtable)
                    Word 6/95 style {\\pntext\\pard\\plain\\f1 \\'b7\\tab}\\pard\\plain...{\\*\\pn\\pnlvlblt..{\\pntxtb\\'b7}}
                    (the bullet character and its tab are decoration, not tokens); nesting = \\ilvl / deeper indent
    ["tbl"]         \\trowd\\trgaph108\\trleft-108\\cellxN.. \\pard\\plain\\intbl ..\\cell ..\\row  per row; several blocks in a
                    cell are paragraphs separated by \\par; nested tables as Word 2000+ writes them:
                    \\pard\\plain\\intbl\\itapN ..\\nestcell ..{\\*\\nesttableprops\\trowd..\\cellxN..\\nestrow}{\\nonesttables\\par}
                    followed by the (possibly empty) closing paragraph of the outer cell.
                    RTF has no table container: consecutive rows ARE one table, so two adjacent ["tbl"] blocks are kept
                    apart by an empty paragraph (what Word itself forces).
    ["img", key]    paragraph holding {\\pict\\pngblip|\\jpegblip\\picwW\\pichH\\picwgoalX\\pichgoalY <hex>}
    ["pb"]          page break (only at the top level of a unit)
    ["t"]           escaped text; ["tab"] \\tab; ["br"] \\line
    ["a"]           {\\field{\\*\\fldinst{ HYPERLINK "url" }}{\\fldrslt{\\ul\\cf2 ..}}}
    ["ins"]/["del"] {\\revised\\revauth1\\revdttmN ..} / {\\deleted\\revauthdel1\\revdttmdelN ..}  (+ \\revtbl)
    ["cref"]        {\\*\\atnid VF}{\\*\\atnauthor verif}\\chatn{\\*\\annotation\\pard\\plain\\f0\\fs20{\\chatn} ..}
    ["fn"]          {\\super\\chftn{\\footnote\\pard\\plain\\f0\\fs20{\\super\\chftn} ..}}
    meta            {\\info{\\title ..}{\\author ..}{\\subject ..}{\\keywords ..}{\\doccomm ..}}, {\\header ..}, {\\footer ..}
    sdt, box, math, sheets, unit extras (notes/comments/name), gif/bmp images -> NotImplementedError

opts (all optional):
    "page_break":  "page" (default)  -> a paragraph holding \\page        | "sbkpage" -> \\pard\\plain..\\sect\\sectd\\sbkpage
    "escape":      "u" (default)     -> every non-ASCII char as \\uN? (signed 16 bit, non-BMP as surrogate pair)
                   "hex"             -> chars that exist in cp1252 as \\'xx, everything else as \\uN?
                   "uhex"            -> chars that exist in cp1252 as \\uN\\'xx (the \\'xx byte is the one-byte fallback; what
                                        Word writes), everything else as \\uN?
    "list_style":  "listtext" (default) | "pntext"
    "field_style": "word" (default, instruction wrapped in a group as Word writes) | "flat" ({\\*\\fldinst HYPERLINK "u"})
    "pict_wrap":   "none" (default)  | "shppict" -> {\\*\\shppict{\\pict ..}} as Word writes
    "hex_wrap":    0 (default: picture hex on one line) | n -> a line break (eol, or LF if eol is "") after every
                   n bytes of picture data (Word: 64)
    "eol":         "" (default) | "\\n" | "\\r\\n"  -> written after every \\par, \\cell, \\row, \\sect and header group
    "row_props":   "before" (default) -> \\trowd.. once, in front of the cells | "both" -> repeated as {\\trowd..\\row}
                   at the end of the row (what Word 2000+ writes)
    "uc":          None (default) -> no \\uc keyword (the spec default of 1 applies) | 1 -> \\uc1 in the header as Word writes
"""
from __future__ import annotations

import struct

CAPS_RTF = frozenset({
    "unit", "multiunit", "p", "h", "ul", "ul-nested", "tbl", "tbl-nested", "img", "pb",
    "t", "tab", "br", "a", "ins", "del", "cref", "fn",
    "meta:title", "meta:author", "meta:subject", "meta:keywords", "meta:description", "meta:header", "meta:footer",
})

_INFO_WORDS = (("title", "title"), ("author", "author"), ("subject", "subject"), ("keywords", "keywords"),
               ("description", "doccomm"))
_META_KEYS = {k for k, _ in _INFO_WORDS} | {"header", "footer"}

# DTTM (MS-DOC 2.9.71) of 2020-01-01 00:00, a Wednesday: minutes | hours<<6 | day<<11 | month<<16 | (year-1900)<<20 | weekday<<29
REV_DTTM = (1 << 11) | (1 << 16) | (120 << 20) | (3 << 29)

PAGE_TWIPS = 8640          # text width used for table cells (6 inches)
MAX_LIST_LEVELS = 9        # a \list has exactly 1 or 9 \listlevel entries


# ----------------------------------------------------------------------------------------------------------------------
# text escaping
# ----------------------------------------------------------------------------------------------------------------------

def _u(n: int) -> str:
    """\\uN? with N as signed 16-bit decimal; '?' is the one-byte fallback (\\uc1, which is also the default)."""
    return "\\u%d?" % (n - 0x10000 if n >= 0x8000 else n)


def rtf_escape(text: str, mode: str = "u") -> str:
    """Escape arbitrary text for use inside an RTF group. TAB becomes \\tab, LF becomes \\line."""
    if mode not in ("u", "hex", "uhex"):
        raise ValueError("escape mode must be 'u', 'hex' or 'uhex'")
    out = []
    for ch in text:
        o = ord(ch)
        if ch == "\\":
            out.append("\\\\")
        elif ch == "{":
            out.append("\\{")
        elif ch == "}":
            out.append("\\}")
        elif ch == "\t":
            out.append("\\tab ")
        elif ch == "\n":
            out.append("\\line ")
        elif o < 0x20 or o == 0x7F:
            out.append("\\'%02x" % o)
        elif o < 0x80:
            out.append(ch)
        else:
            if mode == "hex":
                try:
                    b = ch.encode("cp1252")
                except UnicodeEncodeError:
                    b = None
                if b is not None:
                    out.append("\\'%02x" % b[0])
                    continue
            elif mode == "uhex" and o <= 0xFFFF:
                try:
                    b = ch.encode("cp1252")
                except UnicodeEncodeError:
                    b = None
                if b is not None:
                    out.append("\\u%d\\'%02x" % (o - 0x10000 if o >= 0x8000 else o, b[0]))
                    continue
            if o > 0xFFFF:
                o -= 0x10000
                out.append(_u(0xD800 + (o >> 10)))
                out.append(_u(0xDC00 + (o & 0x3FF)))
            else:
                out.append(_u(o))
    return "".join(out)


# ----------------------------------------------------------------------------------------------------------------------
# images
# ----------------------------------------------------------------------------------------------------------------------

def image_size(data: bytes, ext: str):
    """(width, height) in pixels of a PNG or JPEG."""
    if ext == "png":
        if data[:8] != b"\x89PNG\r\n\x1a\n" or data[12:16] != b"IHDR":
            raise ValueError("not a PNG")
        return struct.unpack(">II", data[16:24])
    if ext == "jpeg":
        if data[:2] != b"\xff\xd8":
            raise ValueError("not a JPEG")
        i = 2
        while i + 4 <= len(data):
            if data[i] != 0xFF:
                raise ValueError("bad JPEG marker")
            m = data[i + 1]
            if m == 0xFF:                      # fill byte
                i += 1
                continue
            if m in (0x01,) or 0xD0 <= m <= 0xD9:
                i += 2
                continue
            ln = struct.unpack(">H", data[i + 2:i + 4])[0]
            if 0xC0 <= m <= 0xCF and m not in (0xC4, 0xC8, 0xCC):
                h, w = struct.unpack(">HH", data[i + 5:i + 9])
                return w, h
            i += 2 + ln
        raise ValueError("JPEG without SOF")
    raise NotImplementedError("image type %r" % ext)


# ----------------------------------------------------------------------------------------------------------------------
# renderer
# ----------------------------------------------------------------------------------------------------------------------

class _R:
    def __init__(self, images, opts):
        self.images = images or {}
        o = dict(opts or {})
        self.page_break = o.pop("page_break", "page")
        self.escape = o.pop("escape", "u")
        self.list_style = o.pop("list_style", "listtext")
        self.field_style = o.pop("field_style", "word")
        self.pict_wrap = o.pop("pict_wrap", "none")
        self.hex_wrap = int(o.pop("hex_wrap", 0) or 0)
        self.eol = o.pop("eol", "")
        self.row_props = o.pop("row_props", "before")
        self.uc = o.pop("uc", None)
        if o:
            raise ValueError("unknown rtf opts: %s" % sorted(o))
        if self.page_break not in ("page", "sbkpage"):
            raise ValueError("page_break")
        if self.escape not in ("u", "hex", "uhex"):
            raise ValueError("escape")
        if self.list_style not in ("listtext", "pntext"):
            raise ValueError("list_style")
        if self.field_style not in ("word", "flat"):
            raise ValueError("field_style")
        if self.pict_wrap not in ("none", "shppict"):
            raise ValueError("pict_wrap")
        if self.eol not in ("", "\n", "\r\n"):
            raise ValueError("eol")
        if self.row_props not in ("before", "both"):
            raise ValueError("row_props")
        if self.uc not in (1, None):
            raise ValueError("uc")
        self.uses_lists = False
        self.uses_rev = False

    def esc(self, s: str) -> str:
        return rtf_escape(s, self.escape)

    # -- paragraph property strings ------------------------------------------------------------------------------------
    @staticmethod
    def _tbl_props(depth: int) -> str:
        if depth == 0:
            return ""
        if depth == 1:
            return "\\intbl"
        return "\\intbl\\itap%d" % depth

    def popen(self, depth: int, indent: int = 0, heading: int = 0, bullet=None) -> str:
        """Opening of a paragraph: [bullet text group] \\pard\\plain <paragraph properties> <character properties>.
        depth = table nesting level, indent = left indent in twips, heading = 0 | 1..3,
        bullet = None | 0-based list level (first paragraph of a list item)."""
        if heading not in (0, 1, 2, 3):
            raise NotImplementedError("heading level %r" % (heading,))
        tp = self._tbl_props(depth)
        pre, lst, pn = "", "", ""
        if bullet is not None:
            if bullet >= MAX_LIST_LEVELS:
                raise NotImplementedError("list nesting deeper than %d" % MAX_LIST_LEVELS)
            self.uses_lists = True
            indent = 720 * (bullet + 1)
            if self.list_style == "listtext":
                pre = "{\\listtext\\pard\\plain%s\\f1 \\'b7\\tab}" % tp
                lst = "\\ls1\\ilvl%d\\fi-360" % bullet
            else:
                pre = "{\\pntext\\pard\\plain%s\\f1 \\'b7\\tab}" % tp
                lst = "\\fi-360"
                pn = "{\\*\\pn\\pnlvlblt\\pnf1\\pnindent360{\\pntxtb\\'b7}}"
        li = "\\li%d" % indent if indent else ""
        if heading:
            return "%s\\pard\\plain\\s%d%s%s%s\\keepn\\sb240\\sa60\\outlinelevel%d%s\\b\\f0\\fs%d " % (
                pre, heading, tp, lst, li, heading - 1, pn, (32, 28, 26)[heading - 1])
        return "%s\\pard\\plain%s%s%s%s\\f0\\fs24 " % (pre, tp, lst, li, pn)

    # -- inlines -----------------------------------------------------------------------------------------------------------
    def inl(self, xs, in_link=False) -> str:
        out = []
        for x in xs:
            k = x[0]
            if k == "t":
                out.append(self.esc(x[1]))
            elif k == "tab":
                out.append("\\tab ")
            elif k == "br":
                out.append("\\line ")
            elif k == "a":
                if in_link:
                    raise NotImplementedError("hyperlink inside hyperlink")
                url = x[1]
                if '"' in url or "\n" in url or "\t" in url:
                    raise NotImplementedError("hyperlink target with quote or control character")
                res = self.inl(x[2], in_link=True)
                if self.field_style == "word":
                    out.append('{\\field{\\*\\fldinst{ HYPERLINK "%s" }}{\\fldrslt{\\ul\\cf2 %s}}}' % (self.esc(url), res))
                else:
                    out.append('{\\field{\\*\\fldinst HYPERLINK "%s"}{\\fldrslt %s}}' % (self.esc(url), res))
            elif k == "ins":
                self.uses_rev = True
                out.append("{\\revised\\revauth1\\revdttm%d %s}" % (REV_DTTM, self.esc(x[1])))
            elif k == "del":
                self.uses_rev = True
                out.append("{\\deleted\\revauthdel1\\revdttmdel%d %s}" % (REV_DTTM, self.esc(x[1])))
            elif k == "cref":
                out.append("{\\*\\atnid VF}{\\*\\atnauthor verif}\\chatn{\\*\\annotation\\pard\\plain\\f0\\fs20{\\chatn} %s}"
                           % self.esc(x[1]))
            elif k == "fn":
                out.append("{\\super\\chftn{\\footnote\\pard\\plain\\f0\\fs20{\\super\\chftn} %s}}" % self.esc(x[1]))
            elif k in ("sdt", "box", "math"):
                raise NotImplementedError("inline %r cannot be expressed in RTF by this writer" % k)
            else:
                raise NotImplementedError("unknown inline %r" % (k,))
        return "".join(out)

    # -- pictures ----------------------------------------------------------------------------------------------------------
    def pict(self, key) -> str:
        if key not in self.images:
            raise KeyError("image key %r not in images" % (key,))
        data, ext = self.images[key]
        if ext == "jpg":
            ext = "jpeg"
        if ext not in ("png", "jpeg"):
            raise NotImplementedError("RTF \\pict cannot hold %r images in this writer" % ext)
        w, h = image_size(data, ext)
        hx = data.hex()
        if self.hex_wrap > 0:
            n = self.hex_wrap * 2
            nl = self.eol or "\n"
            hx = nl.join(hx[i:i + n] for i in range(0, len(hx), n))
        blip = "\\pngblip" if ext == "png" else "\\jpegblip"
        p = "{\\pict%s\\picw%d\\pich%d\\picwgoal%d\\pichgoal%d %s}" % (blip, w, h, w * 15, h * 15, hx)
        if self.pict_wrap == "shppict":
            p = "{\\*\\shppict%s}" % p
        return p

    # -- blocks ------------------------------------------------------------------------------------------------------------
    def blocks(self, bs, depth: int, lvl: int, indent: int, top: bool, width: int):
        """-> list of ("p", paragraph text without terminator) | ("tbl", complete row sequence) | ("pb", None).
        depth = table nesting level of the paragraphs, lvl = list level for a ["ul"] met here, indent = left indent."""
        out = []
        for b in bs:
            k = b[0]
            if k == "p":
                out.append(("p", self.popen(depth, indent) + self.inl(b[1])))
            elif k == "h":
                out.append(("p", self.popen(depth, indent, heading=b[1]) + self.inl(b[2])))
            elif k == "img":
                out.append(("p", self.popen(depth, indent) + self.pict(b[1])))
            elif k == "ul":
                out.extend(self.ul(b[1], depth, lvl, width))
            elif k == "tbl":
                out.append(("tbl", self.tbl(b[1], depth + 1, width)))
            elif k == "pb":
                if not top:
                    raise NotImplementedError("page break inside a list item or table cell")
                out.append(("pb", None))
            else:
                raise NotImplementedError("unknown block %r" % (k,))
        return out

    def separate(self, parts, depth: int):
        """RTF has no table container (consecutive rows are one table): an empty paragraph keeps two tables apart.
        Applied to the flattened part list of a unit or of a cell, so that tables coming from list items count too."""
        out = []
        for part in parts:
            if part[0] == "tbl" and out and out[-1][0] == "tbl":
                out.append(("p", self.popen(depth)))
            out.append(part)
        return out

    def ul(self, items, depth: int, lvl: int, width: int):
        out = []
        indent = 720 * (lvl + 1)
        for item in items:
            first = True
            for b in item:
                k = b[0]
                if first and k == "p":
                    out.append(("p", self.popen(depth, bullet=lvl) + self.inl(b[1])))
                elif first and k == "h":
                    out.append(("p", self.popen(depth, heading=b[1], bullet=lvl) + self.inl(b[2])))
                else:
                    if first:
                        out.append(("p", self.popen(depth, bullet=lvl)))     # item starting with a non-paragraph
                    if k == "ul":
                        out.extend(self.ul(b[1], depth, lvl + 1, width))
                    else:
                        out.extend(self.blocks([b], depth, lvl + 1, indent, False, width))
                first = False
            if first:
                out.append(("p", self.popen(depth, bullet=lvl)))             # empty item: bullet paragraph without text
        return out

    def tbl(self, rows, depth: int, width: int) -> str:
        if not rows:
            raise NotImplementedError("table without rows")
        out = []
        endcell = "\\cell" if depth == 1 else "\\nestcell"
        for row in rows:
            n = len(row)
            if n == 0:
                raise NotImplementedError("table row without cells")
            cw = max(240, width // n)
            props = "\\trowd\\trgaph108\\trleft-108" + "".join("\\cellx%d" % (cw * (i + 1)) for i in range(n))
            cells = []
            for cell in row:
                parts = self.separate(self.blocks(cell, depth, 0, 0, False, max(480, cw - 216)), depth)
                s = []
                for i, (kind, text) in enumerate(parts):
                    if kind == "p" and i < len(parts) - 1:
                        s.append(text + "\\par" + self.eol)
                    else:
                        s.append(text)
                if not parts or parts[-1][0] == "tbl":
                    s.append(self.popen(depth))          # the paragraph that carries the end-of-cell mark
                cells.append("".join(s) + endcell + self.eol)
            if depth == 1 and self.row_props == "both":     # Word 2000+: definition repeated in front of \\row
                out.append(props + self.eol + "".join(cells) + self.popen(1) + "{" + props + "\\row}" + self.eol)
            elif depth == 1:
                out.append(props + self.eol + "".join(cells) + "\\row" + self.eol)
            else:
                out.append("".join(cells) + "{\\*\\nesttableprops" + props + "\\nestrow}{\\nonesttables\\par}" + self.eol)
        return "".join(out)

    # -- page breaks and document body -----------------------------------------------------------------------------------
    def brk(self) -> str:
        if self.page_break == "page":
            return self.popen(0) + "\\page\\par" + self.eol
        return self.popen(0) + "\\sect\\sectd\\sbkpage" + self.eol     # \\sect ends an (empty, non-table) paragraph

    def body(self, doc) -> str:
        out = []
        seg = 0                        # paragraphs / rows written since the last break
        for ui, u in enumerate(doc[2]):
            if u[0] != "unit":
                raise NotImplementedError("unit kind %r cannot be expressed in RTF" % (u[0],))
            for k, v in (u[2] or {}).items():
                if v:
                    raise NotImplementedError("unit extra %r cannot be expressed in RTF" % k)
            parts = self.separate(self.blocks(u[1], 0, 0, 0, True, PAGE_TWIPS), 0)
            if ui:
                parts.insert(0, ("pb", None))
            for kind, text in parts:
                if kind == "pb":
                    if not seg:
                        out.append(self.popen(0) + "\\par" + self.eol)   # an empty page still holds one paragraph
                    out.append(self.brk())
                    seg = 0
                else:
                    out.append(text + "\\par" + self.eol if kind == "p" else text)
                    seg += 1
        if not seg:
            out.append(self.popen(0) + "\\par" + self.eol)
        return "".join(out)


def rtf(doc, images=None, opts=None) -> bytes:
    r = _R(images, opts)
    if doc[0] != "doc":
        raise ValueError("not a doc")
    meta = doc[1] or {}
    for k in meta:
        if k not in _META_KEYS:
            raise NotImplementedError("meta key %r cannot be expressed in RTF" % k)
    body = r.body(doc)          # first: tells which header tables are needed
    e = r.eol
    head = ["{\\rtf1\\ansi\\ansicpg1252%s\\deff0\\deflang1033" % ("\\uc1" if r.uc == 1 else "") + e,
            "{\\fonttbl{\\f0\\froman\\fcharset0\\fprq2 Times New Roman;}{\\f1\\froman\\fcharset2\\fprq2 Symbol;}}" + e,
            "{\\colortbl;\\red0\\green0\\blue0;\\red0\\green0\\blue255;}" + e,
            "{\\stylesheet{\\s0\\f0\\fs24 \\snext0 Normal;}"
            "{\\s1\\keepn\\sb240\\sa60\\outlinelevel0\\b\\f0\\fs32 \\sbasedon0\\snext0 heading 1;}"
            "{\\s2\\keepn\\sb240\\sa60\\outlinelevel1\\b\\f0\\fs28 \\sbasedon0\\snext0 heading 2;}"
            "{\\s3\\keepn\\sb240\\sa60\\outlinelevel2\\b\\f0\\fs26 \\sbasedon0\\snext0 heading 3;}}" + e]
    if r.uses_lists and r.list_style == "listtext":
        levels = "".join(
            "{\\listlevel\\levelnfc23\\levelnfcn23\\leveljc0\\leveljcn0\\levelfollow0\\levelstartat1\\levelspace0\\levelindent0"
            "{\\leveltext\\'01\\'b7;}{\\levelnumbers;}\\f1\\fi-360\\li%d}" % (720 * (i + 1)) for i in range(MAX_LIST_LEVELS))
        head.append("{\\*\\listtable{\\list\\listtemplateid1%s{\\listname ;}\\listid1}}" % levels + e)
        head.append("{\\*\\listoverridetable{\\listoverride\\listid1\\listoverridecount0\\ls1}}" + e)
    if r.uses_rev:
        head.append("{\\*\\revtbl{Unknown;}{verif;}}" + e)
    info = "".join("{\\%s %s}" % (word, r.esc(meta[key])) for key, word in _INFO_WORDS if key in meta)
    if info:
        head.append("{\\info%s}" % info + e)
    head.append("\\paperw12240\\paperh15840\\margl1800\\margr1800\\margt1440\\margb1440\\sectd" + e)
    if "header" in meta:
        head.append("{\\header\\pard\\plain\\f0\\fs20 %s\\par}" % r.esc(meta["header"]) + e)
    if "footer" in meta:
        head.append("{\\footer\\pard\\plain\\f0\\fs20 %s\\par}" % r.esc(meta["footer"]) + e)
    return ("".join(head) + body + "}").encode("ascii")
