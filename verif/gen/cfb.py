"""Reference writer for the Compound File Binary format ([MS-CFB], "OLE2 structured storage") plus the two small
OLE helpers every legacy Office writer needs: property-set streams ([MS-OLEPS], \\x05SummaryInformation) and the
CFB shell Office writes around a password-protected OOXML package ([MS-OFFCRYPTO] 2.3.4).

    cfb(streams, opts=None) -> bytes
        streams: {"path": bytes}; "/" separates storages ("A/B/stream"); a key ending in "/" declares an empty storage.
        opts (all optional):
          "version": 3 (default, 512-byte sectors) | 4 (4096-byte sectors)
          "clsid": {storage path ("" = root): "XXXXXXXX-XXXX-..." | 16 bytes}
          "dir_layout": "balanced" (default: a real red-black tree) | "list" (right-leaning list of black nodes)
          forged fields (the layout stays valid, only the named field lies) for robustness tests:
          "sector_shift": int          header sector-shift field
          "fat_cycle": path            the last FAT (or mini-FAT) entry of that stream's chain points back to its first
                                       sector; "<dir>", "<minifat>", "<ministream>" loop those chains instead
          "dir_cycle": True            the right-most sibling of the root storage's tree points back to the tree root
          "size_override": {path: n}   directory entry stream size ("" = root entry / mini stream size)
          "header_patch": {offset: bytes}  raw overwrite inside the 512-byte header

Layout: [FAT streams (>= 4096 bytes)] [mini stream] [mini-FAT] [directory] [DIFAT sectors] [FAT sectors]; the first
109 FAT sectors are listed in the header, further ones in DIFAT sectors.  Deterministic: all timestamps are zero.
"""
from __future__ import annotations

import struct
import uuid

FREESECT = 0xFFFFFFFF
ENDOFCHAIN = 0xFFFFFFFE
FATSECT = 0xFFFFFFFD
DIFSECT = 0xFFFFFFFC
NOSTREAM = 0xFFFFFFFF
MAGIC = b"\xd0\xcf\x11\xe0\xa1\xb1\x1a\xe1"
MINI_SECTOR = 64
MINI_CUTOFF = 4096
_BAD_NAME_CHARS = set("/\\:!")

CLSID_XLS = "00020820-0000-0000-C000-000000000046"   # Excel.Sheet.8
CLSID_PPT = "64818D10-4F9B-11CF-86EA-00AA00B929E8"   # PowerPoint.Show.8


def clsid_bytes(c) -> bytes:
    if not c:
        return b"\0" * 16
    if isinstance(c, (bytes, bytearray)):
        if len(c) != 16:
            raise ValueError("CLSID must be 16 bytes")
        return bytes(c)
    return uuid.UUID(c).bytes_le


def _upper_units(name: str):
    """[MS-CFB] 2.6.4: names compare by UTF-16 length first, then by upper-cased (simple case mapping) code units."""
    out = []
    for ch in name:
        u = ch.upper()
        out.append(u if len(u) == 1 else ch)
    b = "".join(out).encode("utf-16-le")
    return struct.unpack("<%dH" % (len(b) // 2), b)


def name_key(name: str):
    k = _upper_units(name)
    return (len(k), k)


def _check_name(name: str):
    n = len(name.encode("utf-16-le")) // 2
    if n == 0 or n > 31 or any(c in _BAD_NAME_CHARS for c in name):
        raise ValueError("invalid CFB entry name %r" % (name,))


def _dirent(name, typ, color, left, right, child, clsid, start, size) -> bytes:
    n = name.encode("utf-16-le") + b"\0\0"
    return (n.ljust(64, b"\0") + struct.pack("<HBBIII", len(n), typ, color, left, right, child) + clsid +
            b"\0" * 20 + struct.pack("<IQ", start, size))


_FREE_DIRENT = b"\0" * 68 + struct.pack("<III", NOSTREAM, NOSTREAM, NOSTREAM) + b"\0" * 48


def cfb(streams: dict, opts: dict | None = None) -> bytes:
    opts = opts or {}
    version = opts.get("version", 3)
    if version not in (3, 4):
        raise NotImplementedError("CFB major version %r" % (version,))
    shift = 9 if version == 3 else 12
    SS = 1 << shift
    per = SS // 4
    layout = opts.get("dir_layout", "balanced")
    if layout not in ("balanced", "list"):
        raise NotImplementedError("dir_layout %r" % (layout,))

    # ---- 1. storage tree ------------------------------------------------------------------------------------------
    tree: dict = {}
    for path, data in streams.items():
        parts = path.split("/")
        node = tree
        if parts[-1] == "":                      # "A/B/" -> empty storage
            parts = parts[:-1]
            if data:
                raise ValueError("storage %r cannot carry data" % (path,))
            leaf = None
        else:
            leaf = parts.pop()
        for p in parts:
            _check_name(p)
            nxt = node.setdefault(p, {})
            if not isinstance(nxt, dict):
                raise ValueError("%r is both a stream and a storage" % (p,))
            node = nxt
        if leaf is not None:
            _check_name(leaf)
            if leaf in node:
                raise ValueError("duplicate entry %r" % (path,))
            if not isinstance(data, (bytes, bytearray)):
                raise TypeError("stream %r must be bytes" % (path,))
            node[leaf] = bytes(data)

    clsids = {k.strip("/"): clsid_bytes(v) for k, v in (opts.get("clsid") or {}).items()}
    # entry: [name, type, color, left, right, child, clsid, start, size, path, data]
    entries = [["Root Entry", 5, 1, NOSTREAM, NOSTREAM, NOSTREAM, clsids.get("", b"\0" * 16), ENDOFCHAIN, 0, "", None]]

    def build(node: dict, parent_sid: int, prefix: str):
        names = sorted(node, key=name_key)
        seen = set()
        for nm in names:
            k = _upper_units(nm)
            if k in seen:
                raise ValueError("names %r collide case-insensitively" % (nm,))
            seen.add(k)
        base = len(entries)
        for nm in names:
            v = node[nm]
            path = prefix + nm
            if isinstance(v, dict):
                entries.append([nm, 1, 1, NOSTREAM, NOSTREAM, NOSTREAM, clsids.get(path, b"\0" * 16), 0, 0, path, None])
            else:
                entries.append([nm, 2, 1, NOSTREAM, NOSTREAM, NOSTREAM, b"\0" * 16, ENDOFCHAIN, len(v), path, v])
        n = len(names)
        if n:
            if layout == "list":
                for i in range(n - 1):
                    entries[base + i][4] = base + i + 1
                entries[parent_sid][5] = base
            else:
                height = n.bit_length()                      # number of levels of the balanced tree
                perfect = ((n + 1) & n) == 0

                def mk(lo, hi, depth):
                    if lo >= hi:
                        return NOSTREAM
                    mid = (lo + hi) // 2
                    e = entries[base + mid]
                    e[2] = 0 if (not perfect and depth == height - 1) else 1      # deepest incomplete level is red
                    e[3] = mk(lo, mid, depth + 1)
                    e[4] = mk(mid + 1, hi, depth + 1)
                    return base + mid
                entries[parent_sid][5] = mk(0, n, 0)
        for i, nm in enumerate(names):
            if isinstance(node[nm], dict):
                build(node[nm], base + i, prefix + nm + "/")

    build(tree, 0, "")
    by_path = {e[9]: e for e in entries}

    # ---- 2. sector allocation -------------------------------------------------------------------------------------
    chunks = []          # sector payloads, concatenated after the header
    fat = []
    chains = {}          # name -> (first sector, number of sectors) for forging

    def alloc(data: bytes, pad=b"\0"):
        if not data:
            return ENDOFCHAIN, 0
        n = (len(data) + SS - 1) // SS
        start = len(fat)
        fat.extend(range(start + 1, start + n))
        fat.append(ENDOFCHAIN)
        chunks.append(data)
        if len(data) != n * SS:
            chunks.append(pad * (n * SS - len(data)))
        return start, n

    mini_parts = []
    minifat = []
    mini_chains = {}
    for e in entries[1:]:
        if e[1] != 2:
            continue
        data = e[10]
        if not data:
            continue
        if len(data) < MINI_CUTOFF:
            n = (len(data) + MINI_SECTOR - 1) // MINI_SECTOR
            start = len(minifat)
            minifat.extend(range(start + 1, start + n))
            minifat.append(ENDOFCHAIN)
            mini_parts.append(data)
            if len(data) != n * MINI_SECTOR:
                mini_parts.append(b"\0" * (n * MINI_SECTOR - len(data)))
            e[7] = start
            mini_chains[e[9]] = (start, n)
        else:
            e[7], n = alloc(data)
            chains[e[9]] = (e[7], n)

    fat_cycle = opts.get("fat_cycle")
    if fat_cycle is not None and fat_cycle in mini_chains:
        s, n = mini_chains[fat_cycle]
        minifat[s + n - 1] = s

    mini = b"".join(mini_parts)
    entries[0][7], n = alloc(mini)
    entries[0][8] = len(mini)
    chains["<ministream>"] = (entries[0][7], n)
    mf = struct.pack("<%dI" % len(minifat), *minifat)
    minifat_start, n_minifat = alloc(mf, b"\xff")
    chains["<minifat>"] = (minifat_start, n_minifat)

    for path, size in (opts.get("size_override") or {}).items():
        e = by_path.get(path.strip("/"))
        if e is None:
            raise KeyError("size_override: no entry %r" % (path,))
        e[8] = size
    if opts.get("dir_cycle"):
        top = entries[0][5]
        if top == NOSTREAM:
            raise ValueError("dir_cycle needs at least one entry")
        sid = top
        while entries[sid][4] != NOSTREAM:
            sid = entries[sid][4]
        entries[sid][4] = top

    d = b"".join(_dirent(*e[:9]) for e in entries)
    per_dir = SS // 128
    d += _FREE_DIRENT * (-len(entries) % per_dir)
    dir_start, n_dir = alloc(d)
    chains["<dir>"] = (dir_start, n_dir)

    if fat_cycle is not None and fat_cycle not in mini_chains:
        if fat_cycle not in chains or chains[fat_cycle][1] == 0:
            raise KeyError("fat_cycle: no allocated chain %r" % (fat_cycle,))
        s, n = chains[fat_cycle]
        fat[s + n - 1] = s

    # FAT + DIFAT sizes: fixpoint of  nfat * per >= data + ndifat + nfat
    ndata = len(fat)
    nfat, ndifat = 1, 0
    while True:
        ndifat = 0 if nfat <= 109 else (nfat - 109 + per - 2) // (per - 1)
        need = (ndata + ndifat + nfat + per - 1) // per
        if need <= nfat:
            break
        nfat = need
    difat_start = ndata
    fat_start = ndata + ndifat
    fat.extend([DIFSECT] * ndifat)
    fat.extend([FATSECT] * nfat)
    fat.extend([FREESECT] * (nfat * per - len(fat)))
    fat_ids = list(range(fat_start, fat_start + nfat))
    if ndifat:
        rest = fat_ids[109:]
        for i in range(ndifat):
            part = rest[i * (per - 1):(i + 1) * (per - 1)]
            part += [FREESECT] * (per - 1 - len(part))
            part.append(difat_start + i + 1 if i + 1 < ndifat else ENDOFCHAIN)
            chunks.append(struct.pack("<%dI" % per, *part))
    chunks.append(struct.pack("<%dI" % len(fat), *fat))

    # ---- 3. header ------------------------------------------------------------------------------------------------
    hdr_difat = fat_ids[:109] + [FREESECT] * (109 - min(nfat, 109))
    hdr = (MAGIC + b"\0" * 16 +
           struct.pack("<HHHHH", 0x003E, version, 0xFFFE, opts.get("sector_shift", shift), 6) + b"\0" * 6 +
           struct.pack("<IIIIIIIII", n_dir if version == 4 else 0, nfat, dir_start, 0, MINI_CUTOFF,
                       minifat_start, n_minifat, difat_start if ndifat else ENDOFCHAIN, ndifat) +
           struct.pack("<109I", *hdr_difat))
    for off, val in (opts.get("header_patch") or {}).items():
        hdr = hdr[:off] + bytes(val) + hdr[off + len(val):]
    if len(hdr) != 512:
        raise ValueError("header_patch changed the header size")
    return hdr.ljust(SS, b"\0") + b"".join(chunks)


# =====================================================================================================================
# [MS-OLEPS] property set streams
# =====================================================================================================================
VT_I2, VT_I4, VT_LPSTR, VT_FILETIME, VT_BOOL = 0x02, 0x03, 0x1E, 0x40, 0x0B
FMTID_SUMMARY = uuid.UUID("F29F85E0-4FF9-1068-AB91-08002B27B3D9").bytes_le
FMTID_DOCSUMMARY = uuid.UUID("D5CDD502-2E9C-101B-9397-08002B2CF9AE").bytes_le

# key -> (property id, type)
SUMMARY_PROPS = {"title": (2, VT_LPSTR), "subject": (3, VT_LPSTR), "author": (4, VT_LPSTR), "keywords": (5, VT_LPSTR),
                 "comments": (6, VT_LPSTR), "template": (7, VT_LPSTR), "last_saved_by": (8, VT_LPSTR),
                 "revision_number": (9, VT_LPSTR), "created": (12, VT_FILETIME), "modified": (13, VT_FILETIME),
                 "num_pages": (14, VT_I4), "num_words": (15, VT_I4), "num_chars": (16, VT_I4),
                 "creating_application": (18, VT_LPSTR), "security": (19, VT_I4)}
DOCSUMMARY_PROPS = {"category": (2, VT_LPSTR), "presentation_target": (3, VT_LPSTR), "slides": (7, VT_I4),
                    "notes": (8, VT_I4), "hidden_slides": (9, VT_I4), "manager": (14, VT_LPSTR),
                    "company": (15, VT_LPSTR)}
_CODECS = {1252: "cp1252", 65001: "utf-8", 1250: "cp1250", 1251: "cp1251", 932: "cp932", 10000: "mac_roman"}


def filetime(iso: str) -> int:
    """'YYYY-MM-DDTHH:MM:SS' (UTC) -> FILETIME (100 ns units since 1601-01-01)."""
    import datetime
    dt = datetime.datetime.fromisoformat(iso)
    if dt.tzinfo is not None:
        dt = dt.astimezone(datetime.timezone.utc).replace(tzinfo=None)
    delta = dt - datetime.datetime(1601, 1, 1)
    return (delta.days * 86400 + delta.seconds) * 10_000_000 + delta.microseconds * 10


def property_set_stream(fmtid: bytes, props: list, codepage: int = 1252) -> bytes:
    """props: [(property id, VT type, value)] (the code page property, id 1, is added in front)."""
    codec = _CODECS.get(codepage)
    if codec is None:
        raise NotImplementedError("code page %r" % (codepage,))
    vals = [(1, struct.pack("<IhH", VT_I2, codepage if codepage < 0x8000 else codepage - 0x10000, 0))]
    for pid, vt, v in props:
        if vt == VT_LPSTR:
            raw = v.encode(codec) + b"\0"
            body = struct.pack("<II", vt, len(raw)) + raw
            body += b"\0" * (-len(body) % 4)
        elif vt == VT_I4:
            body = struct.pack("<Ii", vt, v)
        elif vt == VT_I2:
            body = struct.pack("<IhH", vt, v, 0)
        elif vt == VT_BOOL:
            body = struct.pack("<IHH", vt, 0xFFFF if v else 0, 0)
        elif vt == VT_FILETIME:
            body = struct.pack("<IQ", vt, filetime(v) if isinstance(v, str) else v)
        else:
            raise NotImplementedError("property type 0x%x" % vt)
        vals.append((pid, body))
    off = 8 + 8 * len(vals)
    index = b""
    for pid, body in vals:
        index += struct.pack("<II", pid, off)
        off += len(body)
    pset = struct.pack("<II", off, len(vals)) + index + b"".join(b for _, b in vals)
    return struct.pack("<HHI", 0xFFFE, 0, 0x00020105) + b"\0" * 16 + struct.pack("<I", 1) + fmtid + struct.pack("<I", 48) + pset


def summary_streams(meta: dict | None, codepage: int | None = None) -> dict:
    """{'\\x05SummaryInformation': bytes[, '\\x05DocumentSummaryInformation': bytes]} from a flat dict using the keys of
    SUMMARY_PROPS / DOCSUMMARY_PROPS.  Code page: 1252 when every string fits, else 65001 (as Office does)."""
    meta = meta or {}
    unknown = set(meta) - set(SUMMARY_PROPS) - set(DOCSUMMARY_PROPS)
    if unknown:
        raise NotImplementedError("summary properties %s" % sorted(unknown))
    if codepage is None:
        codepage = 1252
        for v in meta.values():
            if isinstance(v, str):
                try:
                    v.encode("cp1252")
                except UnicodeEncodeError:
                    codepage = 65001
    out = {}
    s = [(SUMMARY_PROPS[k][0], SUMMARY_PROPS[k][1], meta[k]) for k in SUMMARY_PROPS if k in meta]
    out["\x05SummaryInformation"] = property_set_stream(FMTID_SUMMARY, s, codepage)
    d = [(DOCSUMMARY_PROPS[k][0], DOCSUMMARY_PROPS[k][1], meta[k]) for k in DOCSUMMARY_PROPS if k in meta]
    if d:
        out["\x05DocumentSummaryInformation"] = property_set_stream(FMTID_DOCSUMMARY, d, codepage)
    return out


ADM_META_TO_SUMMARY = {"title": "title", "author": "author", "subject": "subject", "keywords": "keywords",
                       "description": "comments"}


def adm_summary(meta: dict | None, extra: dict | None = None) -> dict:
    """ADM meta dict (+ raw summary keys from opts) -> flat summary dict; header/footer are not summary properties."""
    out = {}
    for k, v in (meta or {}).items():
        if k in ADM_META_TO_SUMMARY:
            out[ADM_META_TO_SUMMARY[k]] = v
        elif k not in ("header", "footer"):
            raise NotImplementedError("meta:" + k)
    out.update(extra or {})
    return out


# =====================================================================================================================
# [MS-OFFCRYPTO] 2.3.4: the compound file around an encrypted OOXML package
# =====================================================================================================================
def _lp4_utf16(s: str) -> bytes:      # UNICODE-LP-P4
    b = s.encode("utf-16-le")
    return struct.pack("<I", len(b)) + b + b"\0" * (-len(b) % 4)


def _lp4_utf8(s: str) -> bytes:       # UTF-8-LP-P4
    b = s.encode("utf-8")
    return struct.pack("<I", len(b)) + b + b"\0" * (-len(b) % 4)


def _dataspaces() -> dict:
    ver = struct.pack("<HH", 1, 0)
    version = _lp4_utf16("Microsoft.Container.DataSpaces") + ver * 3
    ref = struct.pack("<I", 0) + _lp4_utf16("EncryptedPackage")            # type 0 = stream
    entry = struct.pack("<I", 1) + ref + _lp4_utf16("StrongEncryptionDataSpace")
    dsmap = struct.pack("<II", 8, 1) + struct.pack("<I", len(entry) + 4) + entry
    dsdef = struct.pack("<II", 8, 1) + _lp4_utf16("StrongEncryptionTransform")
    tid = _lp4_utf16("{FF9A3F03-56EF-4613-BDD5-5A41C1D07246}")
    primary = (struct.pack("<II", 8 + len(tid), 1) + tid + _lp4_utf16("Microsoft.Container.EncryptionTransform") + ver * 3 +
               _lp4_utf8("") + struct.pack("<III", 0, 0, 4))   # EncryptionTransformInfo as Office writes it for agile
    p = "\x06DataSpaces/"
    return {p + "Version": version, p + "DataSpaceMap": dsmap, p + "DataSpaceInfo/StrongEncryptionDataSpace": dsdef,
            p + "TransformInfo/StrongEncryptionTransform/\x06Primary": primary}


def _dummy(n: int, seed: int) -> bytes:
    """deterministic high-entropy looking filler (no clock, no random module state)"""
    import hashlib
    out = b""
    i = 0
    while len(out) < n:
        out += hashlib.sha256(b"verif-dummy-%d-%d" % (seed, i)).digest()
        i += 1
    return out[:n]


_AGILE_XML = ('<?xml version="1.0" encoding="UTF-8" standalone="yes"?>\r\n'
              '<encryption xmlns="http://schemas.microsoft.com/office/2006/encryption" '
              'xmlns:p="http://schemas.microsoft.com/office/2006/keyEncryptor/password">'
              '<keyData saltSize="16" blockSize="16" keyBits="256" hashSize="64" cipherAlgorithm="AES" cipherChaining="ChainingModeCBC" '
              'hashAlgorithm="SHA512" saltValue="%s"/><dataIntegrity encryptedHmacKey="%s" encryptedHmacValue="%s"/>'
              '<keyEncryptors><keyEncryptor uri="http://schemas.microsoft.com/office/2006/keyEncryptor/password">'
              '<p:encryptedKey spinCount="100000" saltSize="16" blockSize="16" keyBits="256" hashSize="64" cipherAlgorithm="AES" '
              'cipherChaining="ChainingModeCBC" hashAlgorithm="SHA512" saltValue="%s" encryptedVerifierHashInput="%s" '
              'encryptedVerifierHashValue="%s" encryptedKeyValue="%s"/></keyEncryptor></keyEncryptors></encryption>')


def ooxml_encrypted_shell(streams=("EncryptionInfo", "EncryptedPackage", "DataSpaces"), package_size: int = 4096,
                          extra: dict | None = None, opts: dict | None = None) -> bytes:
    """The compound file Office writes for a password-protected .docx/.xlsx/.pptx (agile encryption), with dummy
    cipher text.  `streams` selects a subset of ("EncryptionInfo", "EncryptedPackage", "DataSpaces"); "DataSpaces"
    is the storage whose real name is "\\x06DataSpaces" (with its four [MS-OFFCRYPTO] streams).  `extra` adds literal
    streams ({path: bytes})."""
    import base64
    out = {}
    for s in streams:
        if s == "EncryptionInfo":
            b64 = [base64.b64encode(_dummy(n, i)).decode("ascii") for i, n in enumerate((16, 64, 64, 16, 16, 64, 32))]
            out["EncryptionInfo"] = struct.pack("<HHI", 4, 4, 0x40) + (_AGILE_XML % tuple(b64)).encode("utf-8")
        elif s == "EncryptedPackage":
            n = -(-package_size // 16) * 16
            out["EncryptedPackage"] = struct.pack("<Q", package_size) + _dummy(n, 99)
        elif s in ("DataSpaces", "\x06DataSpaces"):
            out.update(_dataspaces())
        else:
            raise NotImplementedError("encryption stream %r" % (s,))
    out.update(extra or {})
    return cfb(out, opts)


# =====================================================================================================================
# [MS-ODRAW] helpers shared by the BIFF8 and PPT writers: record framing, BLIP records, BSE entries
# =====================================================================================================================
def oa_rec(ver: int, inst: int, typ: int, data: bytes) -> bytes:
    """OfficeArt / PowerPoint record: header <HHI (recVer | recInstance << 4, recType, recLen) + data"""
    return struct.pack("<HHI", (inst << 4) | ver, typ, len(data)) + data


def oa_container(typ: int, children, inst: int = 0) -> bytes:
    return oa_rec(0xF, inst, typ, b"".join(children))


def md4(data: bytes) -> bytes:
    """RFC 1320 (hashlib's md4 is not available everywhere); BLIP uids are MD4 digests of the image data."""
    msg = data + b"\x80" + b"\0" * ((55 - len(data)) % 64) + struct.pack("<Q", len(data) * 8)
    a0, b0, c0, d0 = 0x67452301, 0xEFCDAB89, 0x98BADCFE, 0x10325476
    M = 0xFFFFFFFF

    def rol(x, n):
        return ((x << n) | (x >> (32 - n))) & M
    for off in range(0, len(msg), 64):
        X = struct.unpack_from("<16I", msg, off)
        a, b, c, d = a0, b0, c0, d0
        for i in range(16):
            k, s = i, (3, 7, 11, 19)[i % 4]
            a, b, c, d = d, rol((a + ((b & c) | (~b & M & d)) + X[k]) & M, s), b, c
        for i in range(16):
            k, s = (i % 4) * 4 + i // 4, (3, 5, 9, 13)[i % 4]
            a, b, c, d = d, rol((a + ((b & c) | (b & d) | (c & d)) + X[k] + 0x5A827999) & M, s), b, c
        for i in range(16):
            k, s = (0, 8, 4, 12, 2, 10, 6, 14, 1, 9, 5, 13, 3, 11, 7, 15)[i], (3, 9, 11, 15)[i % 4]
            a, b, c, d = d, rol((a + (b ^ c ^ d) + X[k] + 0x6ED9EBA1) & M, s), b, c
        a0, b0, c0, d0 = (a0 + a) & M, (b0 + b) & M, (c0 + c) & M, (d0 + d) & M
    return struct.pack("<4I", a0, b0, c0, d0)


_uid_cache: dict = {}


# forced BLIP kinds: kind -> (recType, recInstance with one UID, MSOBLIPTYPE, metafile?)   [MS-ODRAW 2.2.23 - 2.2.31]
_BLIP_KINDS = {"emf": (0xF01A, 0x3D4, 2, True), "wmf": (0xF01B, 0x216, 3, True), "pict": (0xF01C, 0x542, 4, True),
               "jpeg": (0xF01D, 0x46A, 5, False), "png": (0xF01E, 0x6E0, 6, False), "dib": (0xF01F, 0x7A8, 7, False),
               "tiff": (0xF029, 0x6E4, 0x11, False)}


def _blip_forced(image: bytes, kind: str, uid2: bool):
    """BLIP record of a chosen kind whatever the bytes are (optionally with the second UID: recInstance + 1).
    Bitmap kinds: rgbUid1 [rgbUid2] tag payload;  metafile kinds: rgbUid1 [rgbUid2] OfficeArtMetafileHeader deflate(payload)."""
    import zlib
    if kind not in _BLIP_KINDS:
        raise NotImplementedError("unknown BLIP kind %r" % (kind,))
    typ, inst, bt, meta = _BLIP_KINDS[kind]
    payload = image[14:] if kind == "dib" and image[:2] == b"BM" else image
    uid = md4(payload)
    head = uid + (md4(payload + b"\x01") if uid2 else b"")
    if meta:
        comp = zlib.compress(payload, 9)
        body = struct.pack("<I4i2iIBB", len(payload), 0, 0, 100, 100, 952500, 952500, len(comp), 0, 0xFE) + comp
    else:
        body = b"\xff" + payload
    return oa_rec(0, inst + (1 if uid2 else 0), typ, head + body), bt, uid


def blip(image, kind: str | None = None, uid2: bool = False):
    """image file bytes -> (OfficeArtBlip record, MSOBLIPTYPE, rgbUid).  PNG, JPEG (RGB or CMYK), TIFF and BMP (stored as DIB).
    Optional: kind in {"png", "jpeg", "tiff", "dib", "emf", "wmf", "pict"} forces the record type whatever the bytes are,
    uid2=True writes the two-UID form; `image` may also be a pair (bytes, {"kind": .., "uid2": ..}) so that the options
    travel through the images dict of the PPT / XLS writers.  Defaults: output unchanged."""
    if isinstance(image, tuple):
        image, spec = image
        kind, uid2 = spec.get("kind", kind), bool(spec.get("uid2", uid2))
    if kind is not None or uid2:
        if kind is None:
            kind = ("png" if image[:8] == b"\x89PNG\r\n\x1a\n" else "jpeg" if image[:3] == b"\xff\xd8\xff" else
                    "tiff" if image[:4] in (b"II*\0", b"MM\0*") else "dib" if image[:2] == b"BM" else None)
            if kind is None:
                raise NotImplementedError("image format not expressible as an OfficeArt BLIP")
        return _blip_forced(image, kind, uid2)
    if image[:8] == b"\x89PNG\r\n\x1a\n":
        typ, inst, bt, payload = 0xF01E, 0x6E0, 6, image
    elif image[:3] == b"\xff\xd8\xff":
        cmyk = False
        p = 2
        while p + 4 <= len(image) and image[p] == 0xFF:        # find the frame header to see the component count
            m = image[p + 1]
            if m in (0xC0, 0xC1, 0xC2):
                cmyk = image[p + 9] == 4
                break
            if m == 0xD8 or 0xD0 <= m <= 0xD7 or m == 0x01:
                p += 2
                continue
            p += 2 + struct.unpack_from(">H", image, p + 2)[0]
        typ, inst, bt, payload = 0xF01D, 0x6E2 if cmyk else 0x46A, 5, image
    elif image[:4] in (b"II*\0", b"MM\0*"):
        typ, inst, bt, payload = 0xF029, 0x6E4, 0x11, image
    elif image[:2] == b"BM":
        typ, inst, bt, payload = 0xF01F, 0x7A8, 7, image[14:]   # DIB = BMP without the 14-byte file header
    else:
        raise NotImplementedError("image format not expressible as an OfficeArt BLIP")
    uid = _uid_cache.get(payload)
    if uid is None:
        uid = md4(payload)
        if len(_uid_cache) < 256:
            _uid_cache[payload] = uid
    return oa_rec(0, inst, typ, uid + b"\xff" + payload), bt, uid


def fbse(bt: int, uid: bytes, size: int, delay_offset: int, embedded: bytes = b"", refs: int = 1) -> bytes:
    """OfficeArtFBSE: `size` = length of the BLIP record; the BLIP itself either follows (`embedded`, XLS) or lives at
    `delay_offset` of the delay stream (PPT 'Pictures' stream)."""
    return oa_rec(2, bt, 0xF007, struct.pack("<BB", bt, bt) + uid + struct.pack("<HIIIBBBB", 0xFF, size, refs, delay_offset, 0, 0, 0, 0) + embedded)
