"""Self-test of verif.gen.pptbin.   PYTHONPATH=/verif /venv/bin/python -B -m verif.gen.selftest_pptbin

Independent readers: the strict CFB reader + olefile (container, property sets) and `read_presentation` below, a from-scratch
[MS-PPT] reader that starts at the "Current User" stream, follows UserEditAtom -> PersistDirectoryAtom -> DocumentContainer ->
SlideListWithText -> Slide/Notes containers -> OfficeArt shapes -> (OutlineTextRefAtom | inline text atoms) and the BLIP store ->
"Pictures" stream - i.e. the way PowerPoint itself resolves a file - and checks the framing of every record on the way.
WRITER-INVALID = that reader does not get the document back; EXTRACTOR-DISAGREES = it does, but sharepoint2text's read_ppt
returns something else than the ground truth of verif.gen.adm.truth().
"""
from __future__ import annotations

import io
import struct
import sys
import zlib

import olefile

from verif.gen import adm
from verif.gen import pptbin as P
from verif.gen.cfb import md4
from verif.gen.selftest_cfb import strict_read
from verif.gen.tokens import Tokens, find_tokens

from sharepoint2text.parsing.exceptions import ExtractionFileEncryptedError
from sharepoint2text.parsing.extractors.ms_legacy.ppt_extractor import read_ppt

RESULTS = {"ok": 0, "WRITER-INVALID": 0, "EXTRACTOR-DISAGREES": 0, "info": 0}


def report(kind, name, detail=""):
    RESULTS[kind] += 1
    print("%-20s %s%s" % (kind, name, (" :: " + detail) if detail else ""))


# ---------------------------------------------------------------------------------------------------------------------
class Rec:
    __slots__ = ("off", "ver", "inst", "type", "data", "kids")

    def __init__(self, off, ver, inst, typ, data):
        self.off, self.ver, self.inst, self.type, self.data, self.kids = off, ver, inst, typ, data, []

    def find(self, typ, inst=None):
        return [k for k in self.kids if k.type == typ and (inst is None or k.inst == inst)]

    def one(self, typ, inst=None):
        r = self.find(typ, inst)
        if len(r) != 1:
            raise ValueError("expected exactly one record 0x%04x in 0x%04x, found %d" % (typ, self.type, len(r)))
        return r[0]


def parse(data: bytes, start: int, end: int, base: int = 0):
    """strict record tree: containers (recVer 0xF) must be filled exactly by their children"""
    out = []
    o = start
    while o < end:
        if o + 8 > end:
            raise ValueError("record header cut at %d" % (base + o))
        vi, t, n = struct.unpack_from("<HHI", data, o)
        if o + 8 + n > end:
            raise ValueError("record 0x%04x at %d overruns its parent" % (t, base + o))
        r = Rec(base + o, vi & 0xF, vi >> 4, t, data[o + 8:o + 8 + n])
        if r.ver == 0xF and t != P.RT_CryptSession10Container:
            r.kids = parse(data, o + 8, o + 8 + n, base)
        out.append(r)
        o += 8 + n
    return out


def shape_text(sp: Rec, outline: list):
    """text of a shape: inline atoms or the outline text the OutlineTextRefAtom points to -> (type, text) | None"""
    tb = sp.find(0xF00D)
    if not tb:
        return None
    tb = tb[0]
    ref = tb.find(P.RT_OutlineTextRefAtom)
    if ref:
        return outline[struct.unpack("<i", ref[0].data)[0]]
    return texts_of(tb.kids)[0] if tb.kids else None


def texts_of(recs):
    """one (type, text) per TextHeaderAtom; a header without a chars/bytes atom is an empty text"""
    out = []
    for r in recs:
        if r.type == P.RT_TextHeaderAtom:
            out.append((struct.unpack("<I", r.data)[0], ""))
            if not 0 <= r.inst <= 5:
                raise ValueError("TextHeaderAtom.recInstance %d" % r.inst)
        elif r.type == P.RT_TextCharsAtom and out:
            out[-1] = (out[-1][0], r.data.decode("utf-16-le"))
        elif r.type == P.RT_TextBytesAtom and out:
            out[-1] = (out[-1][0], r.data.decode("latin-1"))
    return out


def read_presentation(streams: dict):
    """-> dict(slides=[dict(title, body, others, pictures, notes)], footer, header, encrypted, problems)"""
    prob = []
    cu = parse(streams["Current User"], 0, len(streams["Current User"]))
    if len(cu) != 1 or cu[0].type != P.RT_CurrentUserAtom:
        raise ValueError("Current User stream")
    size, token, edit_off, ulen, ver, major, minor, _ = struct.unpack_from("<IIIHHBBH", cu[0].data)
    if size != 0x14 or ver != 0x03F4 or major != 3 or token not in (0xE391C05F, 0xF3D1C4DF):
        prob.append("CurrentUserAtom constants")
    if cu[0].data[20:20 + ulen].decode("ascii").encode("utf-16-le") != cu[0].data[24 + ulen:]:
        prob.append("CurrentUserAtom user names")
    doc = streams["PowerPoint Document"]
    top = parse(doc, 0, len(doc))
    by_off = {r.off: r for r in top}
    ue = by_off.get(edit_off)
    if ue is None or ue.type != P.RT_UserEditAtom or ue is not top[-1]:
        raise ValueError("offsetToCurrentEdit does not point at the final UserEditAtom")
    last_slide, _, _, ue_major, last_edit, dir_off, doc_pid, seed, _, _ = struct.unpack_from("<IHBBIIIIHH", ue.data)
    encrypted = token == 0xF3D1C4DF
    if (len(ue.data) == 32) != encrypted or len(ue.data) not in (28, 32) or ue_major != 3 or last_edit != 0:
        prob.append("UserEditAtom shape")
    pd = by_off.get(dir_off)
    if pd is None or pd.type != P.RT_PersistDirectoryAtom:
        raise ValueError("offsetPersistDirectory")
    persist = {}
    o = 0
    while o < len(pd.data):
        v = struct.unpack_from("<I", pd.data, o)[0]
        first, cnt = v & 0xFFFFF, v >> 20
        for i in range(cnt):
            persist[first + i] = struct.unpack_from("<I", pd.data, o + 4 + 4 * i)[0]
        o += 4 + 4 * cnt
    if o != len(pd.data) or seed != max(persist) + 1:
        prob.append("persist directory / seed")
    if sorted(persist.values()) != [r.off for r in top[:-2]]:
        prob.append("persist directory does not list exactly the top-level objects")

    def obj(pid, typ):
        r = by_off.get(persist.get(pid, -1))
        if r is None or r.type != typ:
            raise ValueError("persist id %r is not a record of type %d" % (pid, typ))
        return r
    d = obj(doc_pid, P.RT_Document)
    if d.kids[0].type != P.RT_DocumentAtom or d.kids[-1].type != P.RT_EndDocumentAtom:
        prob.append("DocumentContainer must start with DocumentAtom and end with EndDocumentAtom")
    da = struct.unpack("<iiiiiiIIHHBBBB", d.kids[0].data)
    env = d.one(P.RT_Environment)
    env.one(P.RT_FontCollection).one(P.RT_FontEntityAtom)
    env.one(P.RT_TextSIExceptionAtom)
    env.one(P.RT_TextMasterStyleAtom, 4)
    dgg = d.one(P.RT_DrawingGroup).one(0xF000)
    fdgg = dgg.one(0xF006).data
    spid_max, cidcl, csp_saved, cdg_saved = struct.unpack_from("<IIII", fdgg)
    clusters = [struct.unpack_from("<II", fdgg, 16 + 8 * i) for i in range(cidcl - 1)]
    if len(fdgg) != 16 + 8 * (cidcl - 1):
        prob.append("FDGG length")
    bstore = dgg.find(0xF001)
    bses = bstore[0].kids if bstore else []
    if bstore and bstore[0].inst != len(bses):
        prob.append("BStore instance")
    pictures = streams.get("Pictures", b"")
    images = []
    for b in bses:
        bt1, bt2 = b.data[0], b.data[1]
        uid = b.data[2:18]
        tag, size, cref, delay = struct.unpack_from("<HIII", b.data, 18)
        vi, t, n = struct.unpack_from("<HHI", pictures, delay)
        if n + 8 != size or len(b.data) != 36 or bt1 != b.inst or bt1 != bt2:
            prob.append("BSE size/type")
        body = pictures[delay + 8:delay + 8 + n]
        if body[:16] != uid or md4(body[17:]) != uid or body[16] != 0xFF:
            prob.append("BLIP uid is not the MD4 of the image data")
        want_inst = {0xF01E: (0x6E0,), 0xF01D: (0x46A, 0x6E2), 0xF029: (0x6E4,), 0xF01F: (0x7A8,)}.get(t)
        if want_inst is None or (vi >> 4) not in want_inst or vi & 0xF:
            prob.append("BLIP record type/instance")
        images.append((body[17:], cref))
    if sum(8 + len(i[0]) + 17 for i in images) != len(pictures):
        prob.append("Pictures stream has bytes outside the BLIPs")

    drawings = {}

    def read_drawing(container: Rec, outline: list):
        dg = container.one(P.RT_Drawing).one(0xF002)
        fdg = dg.one(0xF008)
        csp, spid_cur = struct.unpack("<II", fdg.data)
        spgr = dg.one(0xF003)
        shapes = []
        group = spgr.kids[0]
        if [k.type for k in group.kids] != [0xF009, 0xF00A] or struct.unpack("<II", group.kids[1].data)[1] != 5:
            prob.append("first shape of the group must be the patriarch")
        spids = [struct.unpack("<II", group.kids[1].data)[0]]
        bg = dg.find(0xF004)
        if len(bg) != 1 or struct.unpack("<II", bg[0].one(0xF00A).data)[1] & 0x400 == 0:
            prob.append("drawing needs one background shape")
        else:
            spids.append(struct.unpack("<II", bg[0].one(0xF00A).data)[0])
        for sp in spgr.kids[1:]:
            fsp = sp.one(0xF00A)
            spid, flags = struct.unpack("<II", fsp.data)
            spids.append(spid)
            opt = sp.one(0xF00B)
            if opt.ver != 3 or len(opt.data) != 6 * opt.inst:
                prob.append("OPT framing")
            props = dict(struct.unpack_from("<HI", opt.data, 6 * i) for i in range(opt.inst))
            ids = [struct.unpack_from("<H", opt.data, 6 * i)[0] & 0x3FFF for i in range(opt.inst)]
            if ids != sorted(ids):
                prob.append("OPT properties not sorted")
            ph = None
            cd = sp.find(0xF011)
            if cd:
                pos, ph, psize, _ = struct.unpack("<iBBH", cd[0].one(P.RT_PlaceholderAtom).data)
            anchor = struct.unpack("<hhhh", sp.one(0xF010).data)
            if not (anchor[0] < anchor[3] and anchor[1] < anchor[2]):
                prob.append("empty anchor rectangle")
            shapes.append(dict(type=fsp.inst, spid=spid, flags=flags, placeholder=ph, text=shape_text(sp, outline), pib=props.get(0x4104),
                               master=props.get(0x0301)))
        if len(set(spids)) != len(spids) or any(s >> 10 != fdg.inst for s in spids) or spid_cur != max(spids) or csp != len(spids) - 1:
            prob.append("drawing %d: shape ids / FDG bookkeeping" % fdg.inst)
        if fdg.inst in drawings:
            prob.append("drawing id %d used twice" % fdg.inst)
        drawings[fdg.inst] = spids
        return shapes

    slwt = {s.inst: s for s in d.find(P.RT_SlideListWithText)}
    masters = slwt[1].find(P.RT_SlidePersistAtom)
    mpid, _, _, mid, _ = struct.unpack("<IIiII", masters[0].data)
    mm = obj(mpid, P.RT_MainMaster)
    if mid != 0x80000000 or len(masters) != 1:
        prob.append("master list")
    if [k.inst for k in mm.find(P.RT_TextMasterStyleAtom)] != [0, 1, 2, 5, 6, 7, 8]:
        prob.append("main master text styles")
    mm.one(P.RT_ColorSchemeAtom, 1)
    master_shapes = read_drawing(mm, [])
    master_spids = {s["spid"] for s in master_shapes}
    if da[6]:
        nm = obj(da[6], P.RT_Notes)
        if struct.unpack("<IHH", nm.one(P.RT_NotesAtom).data)[0] != 0:
            prob.append("notes master slideIdRef")
        read_drawing(nm, [])
    notes_by_id = {}
    if 2 in slwt:
        for spa in slwt[2].find(P.RT_SlidePersistAtom):
            npid, _, _, nid, _ = struct.unpack("<IIiII", spa.data)
            notes_by_id[nid] = obj(npid, P.RT_Notes)
    elif da[6]:
        prob.append("notes master without notes list")
    slides = []
    cur = None
    groups = []
    for r in (slwt[0].kids if 0 in slwt else []):
        if r.type == P.RT_SlidePersistAtom:
            cur = [r, []]
            groups.append(cur)
        elif cur is None:
            prob.append("text before the first SlidePersistAtom")
        else:
            cur[1].append(r)
    used_notes = set()
    for n, (spa, recs) in enumerate(groups):
        spid_, flags, ctexts, slide_id, _ = struct.unpack("<IIiII", spa.data)
        outline = texts_of(recs)
        idx = [r.inst for r in recs if r.type == P.RT_TextHeaderAtom]
        if ctexts != len(outline) or idx != list(range(len(outline))) or slide_id != 256 + n:
            prob.append("slide %d: SlidePersistAtom.cTexts / text indices / slide id" % (n + 1))
        sl = obj(spid_, P.RT_Slide)
        geom, = struct.unpack_from("<I", sl.one(P.RT_SlideAtom).data)
        phs = [b for b in sl.one(P.RT_SlideAtom).data[4:12] if b]
        master_ref, notes_ref, sflags, _ = struct.unpack_from("<IIHH", sl.one(P.RT_SlideAtom).data, 12)
        sl.one(P.RT_ColorSchemeAtom, 1)
        shapes = read_drawing(sl, outline)
        if master_ref != 0x80000000:
            prob.append("slide %d: masterIdRef" % (n + 1))
        if [s["placeholder"] for s in shapes if s["placeholder"] is not None] != phs:
            prob.append("slide %d: SlideAtom placeholder list %r does not match the shapes" % (n + 1, phs))
        if any(s["master"] is not None and s["master"] not in master_spids for s in shapes):
            prob.append("slide %d: hspMaster points nowhere" % (n + 1))
        referenced = [struct.unpack("<i", t.one(P.RT_OutlineTextRefAtom).data)[0] for s_ in sl.one(P.RT_Drawing).one(0xF002).one(0xF003).kids[1:]
                      for t in s_.find(0xF00D) if t.find(P.RT_OutlineTextRefAtom)]
        if sorted(referenced) != list(range(len(outline))):
            prob.append("slide %d: outline texts %r are not referenced exactly once (%r)" % (n + 1, len(outline), referenced))
        info = dict(title=None, body=None, others=[], pictures=[], notes=None, types=[])
        for s in shapes:
            if s["pib"]:
                if s["type"] != 75 or not 1 <= s["pib"] <= len(images):
                    prob.append("slide %d: picture shape" % (n + 1))
                else:
                    info["pictures"].append(images[s["pib"] - 1][0])
            elif s["placeholder"] == P.PT_Title:
                info["title"] = s["text"][1] if s["text"] else None
                if s["text"] and s["text"][0] != P.TX_TITLE:
                    prob.append("slide %d: title text type" % (n + 1))
            elif s["placeholder"] == P.PT_Body:
                info["body"] = s["text"][1] if s["text"] else None
                if s["text"] and s["text"][0] != P.TX_BODY:
                    prob.append("slide %d: body text type" % (n + 1))
            elif s["text"]:
                if s["type"] != 202 or s["text"][0] != P.TX_OTHER:
                    prob.append("slide %d: text box type" % (n + 1))
                info["others"].append(s["text"][1])
        if bool(flags & 4) != bool(info["pictures"] or info["others"]):     # "data other than text in a placeholder shape"
            prob.append("slide %d: fNonOutlineData" % (n + 1))
        if notes_ref:
            nt = notes_by_id.get(notes_ref)
            if nt is None or struct.unpack("<IHH", nt.one(P.RT_NotesAtom).data)[0] != slide_id:
                prob.append("slide %d: notes page linkage" % (n + 1))
            else:
                used_notes.add(notes_ref)
                body = [s for s in read_drawing(nt, []) if s["placeholder"] == P.PT_NotesBody]
                info["notes"] = body[0]["text"][1] if body and body[0]["text"] else None
                if body and body[0]["text"] and body[0]["text"][0] != P.TX_NOTES:
                    prob.append("slide %d: notes text type" % (n + 1))
        slides.append(info)
    if used_notes != set(notes_by_id):
        prob.append("notes pages not linked from a slide")
    if last_slide != (256 + len(slides) - 1 if slides else 0):
        prob.append("UserEditAtom.lastSlideIdRef")
    # drawing group bookkeeping
    if sorted(drawings) != [c[0] for c in clusters] or cdg_saved != len(drawings):
        prob.append("FDGG clusters %r vs drawings %r" % (clusters, sorted(drawings)))
    else:
        for dgid, cspid in clusters:
            if cspid != (max(drawings[dgid]) & 0x3FF) + 1:
                prob.append("FDGG cluster %d size" % dgid)
        if spid_max != max(max(v) for v in drawings.values()) or csp_saved != sum(len(v) - 1 for v in drawings.values()):
            prob.append("FDGG spidMax / cspSaved")
    refs = {}
    for s in slides:
        for im in s["pictures"]:
            refs[im] = refs.get(im, 0) + 1
    if any(refs.get(im, 0) != cref for im, cref in images):
        prob.append("BSE reference counts")
    hf = {h.inst: h for h in d.find(P.RT_HeadersFooters)}
    footer = header = None
    if 3 in hf:
        fl = struct.unpack("<HH", hf[3].one(P.RT_HeadersFootersAtom).data)[1]
        footer = hf[3].one(P.RT_CString, 2).data.decode("utf-16-le")
        if not fl & 0x20:
            prob.append("fHasFooter")
    if 4 in hf:
        fl = struct.unpack("<HH", hf[4].one(P.RT_HeadersFootersAtom).data)[1]
        header = hf[4].one(P.RT_CString, 1).data.decode("utf-16-le")
        if not fl & 0x10:
            prob.append("fHasHeader")
    crypt = None
    if encrypted:
        crypt = obj(struct.unpack_from("<I", ue.data, 28)[0], P.RT_CryptSession10Container)
    return dict(slides=slides, footer=footer, header=header, encrypted=encrypted, crypt=crypt, problems=prob)


def resolve_real(streams: dict):
    """lenient resolution of a real-world file with the same field interpretations the writer relies on (CurrentUserAtom ->
    UserEditAtom chain -> merged persist directory -> DocumentContainer -> SlideListWithText -> Slide -> shapes -> texts / BLIPs)"""
    cu = streams["Current User"]
    edit_off = struct.unpack_from("<I", cu, 8 + 8)[0]
    doc = streams["PowerPoint Document"]
    persist = {}
    doc_pid = None
    while True:
        vi, t, n = struct.unpack_from("<HHI", doc, edit_off)
        if t != P.RT_UserEditAtom:
            raise ValueError("UserEditAtom chain broken")
        _, _, _, _, last_edit, dir_off, dp, _, _, _ = struct.unpack_from("<IHBBIIIIHH", doc, edit_off + 8)
        doc_pid = doc_pid or dp
        vi, t, n = struct.unpack_from("<HHI", doc, dir_off)
        if t != P.RT_PersistDirectoryAtom:
            raise ValueError("PersistDirectoryAtom expected")
        o = dir_off + 8
        while o < dir_off + 8 + n:
            v = struct.unpack_from("<I", doc, o)[0]
            for i in range(v >> 20):
                persist.setdefault((v & 0xFFFFF) + i, struct.unpack_from("<I", doc, o + 4 + 4 * i)[0])     # newer edits win
            o += 4 + 4 * (v >> 20)
        if not last_edit:
            break
        edit_off = last_edit

    def obj(pid):
        off = persist[pid]
        vi, t, n = struct.unpack_from("<HHI", doc, off)
        return parse(doc, off, off + 8 + n)[0]
    d = obj(doc_pid)
    if d.type != P.RT_Document:
        raise ValueError("document persist id")
    bses = [b for dg in d.find(P.RT_DrawingGroup) for x in dg.find(0xF000) for bs in x.find(0xF001) for b in bs.kids]
    pics = streams.get("Pictures", b"")
    ok_blips = 0
    md4_ok = []
    for b in bses:
        if b.inst == 0:
            continue                      # unused slot
        tag, size, cref, delay = struct.unpack_from("<HIII", b.data, 18)
        vi, t, n = struct.unpack_from("<HHI", pics, delay)
        body = pics[delay + 8:delay + 8 + n]
        hs = 33 if (vi >> 4) in (0x6E1, 0x46B, 0x6E3, 0x6E5, 0x7A9) else 17
        if n + 8 == size and body[:16] == b.data[2:18]:      # (Impress does not put an MD4 into rgbUid; PowerPoint does, see below)
            ok_blips += 1
            md4_ok.append(md4(body[hs:]) == body[:16])
    slides = []
    cur = None
    for s in d.find(P.RT_SlideListWithText, 0):
        for r in s.kids:
            if r.type == P.RT_SlidePersistAtom:
                cur = [r, []]
                slides.append(cur)
            elif cur:
                cur[1].append(r)
    out = []
    for spa, recs in slides:
        pid_, flags, ctexts, slide_id, _ = struct.unpack("<IIiII", spa.data)
        outline = texts_of(recs)
        sl = obj(pid_)
        if sl.type != P.RT_Slide or ctexts != len(outline):
            raise ValueError("slide persist / cTexts")
        texts, npic = [], 0
        for sp in sl.one(P.RT_Drawing).one(0xF002).one(0xF003).kids[1:]:
            if sp.type != 0xF004:
                continue                  # nested groups are not resolved here
            tx = shape_text(sp, outline)
            if tx:
                texts.append(tx)
            opt = sp.find(0xF00B)
            if opt and any(struct.unpack_from("<H", opt[0].data, 6 * i)[0] == 0x4104 for i in range(opt[0].inst)):
                npic += 1
        out.append((texts, npic, len(outline)))
    return out, ok_blips, len([b for b in bses if b.inst]), md4_ok


# ---------------------------------------------------------------------------------------------------------------------
def expected_slides(doc, images, opts):
    """what the document says, in the vocabulary of read_presentation"""
    out = []
    p_mode = opts.get("p_mode", "body")
    for u in doc[2]:
        title, paras, pics, notes = P._read_unit(u, images)
        info = dict(title=title, body=None, others=[], pictures=[], notes="\r".join(notes) if notes else None)
        if p_mode == "body":
            info["body"] = "\r".join(paras) if paras else None
        else:
            info["others"] = list(paras)
        for k in pics:
            im = images[k]
            info["pictures"].append(im[14:] if im[:2] == b"BM" else im)
        out.append(info)
    return out


def check_writer(name, doc, images, opts, data) -> bool:
    opts = opts or {}
    problems = []
    streams, prob = strict_read(data)
    problems += ["cfb: " + p for p in prob]
    try:
        with olefile.OleFileIO(io.BytesIO(data), raise_defects=olefile.DEFECT_UNSURE) as ole:
            if ole.root.clsid != "64818D10-4F9B-11CF-86EA-00AA00B929E8":
                problems.append("root CLSID")
            for s in ("PowerPoint Document", "Current User"):
                if not ole.exists(s):
                    problems.append("olefile: stream %r missing" % s)
            md = ole.get_metadata()
            meta = doc[1] or {}
            if not opts.get("encrypted") is True:
                for k, attr in (("title", "title"), ("author", "author"), ("subject", "subject"), ("keywords", "keywords"), ("description", "comments")):
                    got = getattr(md, attr)
                    cp = "utf-8" if md.codepage in (65001, -535) else "cp1252"
                    if (got.decode(cp) if got else None) != meta.get(k):
                        problems.append("summary %s = %r" % (k, got))
                if md.slides != len(doc[2]):
                    problems.append("summary slide count")
    except Exception as e:
        problems.append("olefile: %s: %s" % (type(e).__name__, e))
    try:
        pres = read_presentation(streams)
        problems += pres["problems"]
        want = expected_slides(doc, images, opts)
        got = [{k: s[k] for k in ("title", "body", "others", "pictures", "notes")} for s in pres["slides"]]
        if got != want:
            for i, (g, w) in enumerate(zip(got, want)):
                if g != w:
                    problems.append("slide %d reads back as %r, expected %r" % (i + 1, {k: (v if k != "pictures" else len(v)) for k, v in g.items()},
                                                                               {k: (v if k != "pictures" else len(v)) for k, v in w.items()}))
                    break
            if len(got) != len(want):
                problems.append("%d slides, expected %d" % (len(got), len(want)))
        meta = doc[1] or {}
        if pres["footer"] != meta.get("footer") or pres["header"] != meta.get("header"):
            problems.append("header/footer %r/%r" % (pres["header"], pres["footer"]))
        if bool(opts.get("encrypted")) != pres["encrypted"]:
            problems.append("encryption markers")
        if opts.get("encrypted") is True and ("EncryptedSummary" not in streams or "\x05SummaryInformation" in streams):
            problems.append("encrypted file must carry EncryptedSummary instead of the property sets")
        if opts.get("layout") == "lo" and any(r.type in (P.RT_TextCharsAtom, P.RT_TextBytesAtom) for r in _slwt0(streams)):
            problems.append("layout lo must not put text into SlideListWithText")
    except Exception as e:
        problems.append("%s: %s" % (type(e).__name__, e))
    if problems:
        report("WRITER-INVALID", name, "; ".join(problems[:4]))
        return False
    return True


def _slwt0(streams):
    top = parse(streams["PowerPoint Document"], 0, len(streams["PowerPoint Document"]))
    for s in top[0].find(P.RT_SlideListWithText, 0):
        return s.kids
    return []


def check_extractor(name, doc, images, data):
    truth = adm.truth(doc)
    try:
        r = next(read_ppt(io.BytesIO(data), None))
    except Exception as e:
        report("EXTRACTOR-DISAGREES", name, "read_ppt raised %s: %s (cause %r)" % (type(e).__name__, e, e.__cause__))
        return
    issues = []
    full = r.get_full_text()
    got = find_tokens(full)
    want = [x for t, _ in truth["visible"] for x in find_tokens(t)]
    exact = [t for t, _ in truth["visible"] if find_tokens(t) != [t]]            # free text (non-token strings) must survive verbatim
    missing = [t for t in exact if t not in full]
    if missing:
        issues.append("text %r not in full text %r" % (missing, full))
    if got != want:
        issues.append("full text tokens %r, expected %r" % (got, want))
    else:
        # boundaries: tokens separated by a break / paragraph / unit boundary must not touch
        pos = 0
        prev = None
        for t, b in truth["visible"]:
            i = full.index(t, pos)
            if prev is not None and b != "none" and full[pos:i] == "":
                issues.append("no separator between %s and %s (boundary %s)" % (prev, t, b))
            pos, prev = i + len(t), t
    leaked = [t for t in truth["hidden"] if t in full]
    if leaked:
        issues.append("hidden tokens in full text: %r" % leaked)
    units = list(r.iterate_units())
    got_units = [(u.get_metadata().unit_number, find_tokens(u.get_text())) for u in units]
    want_units = [(i + 1, [x for t in toks for x in find_tokens(t)]) for i, toks in enumerate(truth["units"])]
    if got_units != want_units:
        issues.append("units %r, expected %r" % (got_units, want_units))
    want_notes = [list((u[2] or {}).get("notes") or []) for u in doc[2]]
    got_notes = [find_tokens(" ".join(s.notes)) for s in r.slides]
    if got_notes != want_notes and any(want_notes):
        issues.append("notes per slide %r, expected %r" % (got_notes, want_notes))
    want_imgs = [[images[b[1]] for b in u[1] if b[0] == "img"] for u in doc[2]]
    if any(want_imgs):
        def norm(im):
            return im[14:] if im[:2] == b"BM" else im
        got_imgs = [[im.data for im in s.images] for s in r.slides]
        if [[norm(x) for x in s] for s in want_imgs] != [[x[14:] if x[:2] == b"BM" else x for x in s] for s in got_imgs]:
            issues.append("images per slide (sizes) %r, expected %r" % ([[len(x) for x in s] for s in got_imgs], [[len(x) for x in s] for s in want_imgs]))
        nums = [(im.get_metadata().unit_number) for im in r.iterate_images()]
        want_nums = [i + 1 for i, s in enumerate(want_imgs) for _ in s]
        if nums != want_nums:
            issues.append("image unit numbers %r, expected %r" % (nums, want_nums))
    meta = doc[1] or {}
    m = r.get_metadata()
    for k, attr in (("title", "title"), ("author", "author"), ("subject", "subject"), ("keywords", "keywords"), ("description", "comments")):
        if k in meta and getattr(m, attr) != meta[k]:
            issues.append("metadata %s = %r" % (k, getattr(m, attr)))
    if issues:
        report("EXTRACTOR-DISAGREES", name, " | ".join(issues))
    else:
        report("ok", name + " (extractor agrees)")


def both(name, doc, images=None, opts=None, extractor=True):
    data = P.ppt(doc, images, opts)
    if check_writer(name, doc, images, opts, data):
        report("ok", name + " (writer valid, %d bytes)" % len(data))
        if extractor:
            check_extractor(name, doc, images, data)
    return data


def png(w, h, seed=1):
    raw = b"".join(b"\0" + bytes((x * 7 + y * 13 + seed * 31 + (x * y) % 251) & 0xFF for x in range(w * 3)) for y in range(h))

    def ch(t, d):
        return struct.pack(">I", len(d)) + t + d + struct.pack(">I", zlib.crc32(t + d))
    return b"\x89PNG\r\n\x1a\n" + ch(b"IHDR", struct.pack(">IIBBBBB", w, h, 8, 2, 0, 0, 0)) + ch(b"IDAT", zlib.compress(raw, 0)) + ch(b"IEND", b"")


def main():
    T = Tokens(0)

    def U(blocks, **extras):
        return ["unit", blocks, extras]

    def H(*inl):
        return ["h", 1, list(inl) or [["t", T.new("H")]]]

    def Pp(*inl):
        return ["p", list(inl) or [["t", T.new("B")]]]

    def t(cls="B"):
        return ["t", T.new(cls)]
    imgs = {"a": png(2, 2, 1), "b": png(3, 3, 2), "c": png(40, 30, 3),
            "bmp": b"BM" + struct.pack("<IHHI", 70, 0, 0, 54) + struct.pack("<IiiHHIIiiII", 40, 2, 2, 1, 24, 0, 16, 2835, 2835, 0, 0) + bytes(range(16))}
    try:
        with olefile.OleFileIO("/repo/sharepoint2text/tests/resources/legacy_ms/ppt_with_images.ppt") as ole:
            pics = ole.openstream("Pictures").read()
        off = 0
        while off + 8 <= len(pics):
            vi, ty, ln = struct.unpack_from("<HHI", pics, off)
            if ty == 0xF01D and "jpeg" not in imgs:
                imgs["jpeg"] = pics[off + 8 + 17:off + 8 + ln]
            off += 8 + ln
    except OSError:
        pass

    # --- simplest terms of every supported constructor
    both("1 slide, title only", ["doc", {}, [U([H()])]])
    both("1 slide, one paragraph", ["doc", {}, [U([Pp()])]])
    both("1 slide, title + paragraph", ["doc", {}, [U([H(), Pp()])]])
    both("1 slide, two paragraphs", ["doc", {}, [U([Pp(), Pp()])]])
    both("1 slide, title + three paragraphs", ["doc", {}, [U([H(), Pp(), Pp(), Pp()])]])
    both("paragraph with two runs", ["doc", {}, [U([Pp(t(), t())])]])
    both("paragraph with tab", ["doc", {}, [U([Pp(t(), ["tab"], t())])]])
    both("paragraph with soft break", ["doc", {}, [U([Pp(t(), ["br"], t())])]])
    both("title with soft break", ["doc", {}, [U([H(t("H"), ["br"], t("H"))])]])
    both("second heading becomes a paragraph", ["doc", {}, [U([H(), H(), Pp()])]])
    both("heading levels 2 and 3", ["doc", {}, [U([["h", 2, [t("H")]], ["h", 3, [t("H")]]])]])
    both("1 empty slide", ["doc", {}, [U([])]])
    both("no slides", ["doc", {}, []])
    both("2 slides", ["doc", {}, [U([H(), Pp()]), U([H(), Pp()])]])
    both("3 slides, middle one empty", ["doc", {}, [U([H(), Pp()]), U([]), U([H(), Pp()])]])
    both("3 slides, first one empty", ["doc", {}, [U([]), U([Pp()]), U([H()])]])
    both("3 empty slides", ["doc", {}, [U([]), U([]), U([])]])
    both("notes on the only slide", ["doc", {}, [U([H(), Pp()], notes=[T.new("P")])]])
    both("two notes paragraphs", ["doc", {}, [U([H()], notes=[T.new("P"), T.new("P")])]])
    both("notes on slide 2 of 3 only", ["doc", {}, [U([H()]), U([H()], notes=[T.new("P")]), U([H()])]])
    both("notes on slides 1 and 3", ["doc", {}, [U([Pp()], notes=[T.new("P")]), U([Pp()]), U([Pp()], notes=[T.new("P")])]])
    both("notes on a slide without text", ["doc", {}, [U([], notes=[T.new("P")]), U([Pp()])]])
    both("non-ASCII text", ["doc", {}, [U([H(["t", "Hbcdfg Ünï 名前 \U0001F600"]), Pp(["t", "Bbcdfg Zażółć"])])]])
    meta = {"title": T.new("Z"), "author": T.new("Z"), "subject": T.new("Z"), "keywords": T.new("Z"), "description": T.new("Z")}
    both("metadata", ["doc", meta, [U([H(), Pp()])]])
    both("metadata, non-cp1252 title", ["doc", {"title": "Zażółć 名前"}, [U([H()])]])
    both("metadata, cp1252 title 'Café'", ["doc", {"title": "Café"}, [U([H()])]])
    both("footer", ["doc", {"footer": T.new("R")}, [U([H(), Pp()]), U([Pp()])]])
    both("header (notes/handout)", ["doc", {"header": T.new("R")}, [U([H(), Pp()], notes=[T.new("P")])]])
    # --- pictures
    both("1 picture on the only slide", ["doc", {}, [U([H(), ["img", "a"]])]], imgs)
    both("picture only", ["doc", {}, [U([["img", "a"]])]], imgs)
    both("2 pictures on slide 2 of 3", ["doc", {}, [U([H()]), U([H(), ["img", "a"], ["img", "b"]]), U([H()])]], imgs)
    both("pictures on slides 1 and 3", ["doc", {}, [U([Pp(), ["img", "a"]]), U([Pp()]), U([Pp(), ["img", "b"]])]], imgs)
    both("same picture on two slides", ["doc", {}, [U([Pp(), ["img", "a"]]), U([Pp(), ["img", "a"]])]], imgs)
    both("larger PNG and BMP (DIB)", ["doc", {}, [U([Pp(), ["img", "c"]]), U([Pp(), ["img", "bmp"]])]], imgs)
    if "jpeg" in imgs:
        both("JPEG of %d bytes" % len(imgs["jpeg"]), ["doc", {}, [U([Pp(), ["img", "jpeg"]])]], imgs)
    # --- layouts / text placement variants (all valid per [MS-PPT]; "lo" is what LibreOffice writes)
    base = lambda: ["doc", {"footer": T.new("R")}, [U([H(), Pp(), Pp()], notes=[T.new("P")]), U([]), U([Pp()])]]
    for o in ({"text_atom": "bytes"}, {"text_atom": "auto"}, {"p_mode": "textbox"}, {"p_mode": "slwt_other"}, {"layout": "lo"}, {"layout": "lo", "p_mode": "textbox"},
              {"master_text": False}, {"master_text": False, "layout": "lo"}, {"current_user": True, "cfb": {"version": 4}}):
        both("variant %r" % (o,), base(), imgs, o)
    both("variant p_mode textbox, slide with text boxes only", ["doc", {}, [U([Pp(), Pp()])]], imgs, {"p_mode": "textbox"})
    both("variant p_mode textbox, title + 1 text box", ["doc", {}, [U([H(), Pp()])]], imgs, {"p_mode": "textbox"})
    both("variant layout lo, 1 slide title + paragraph", ["doc", {}, [U([H(), Pp()])]], imgs, {"layout": "lo"})
    both("variant layout lo, 2 slides", ["doc", {}, [U([H(), Pp()]), U([H(), Pp()])]], imgs, {"layout": "lo"})
    both("variant layout lo, notes", ["doc", {}, [U([H(), Pp()], notes=[T.new("P")])]], imgs, {"layout": "lo"})
    both("variant layout lo without master text, 1 slide", ["doc", {}, [U([H(), Pp()])]], imgs, {"layout": "lo", "master_text": False})
    # --- without the Current User stream (the extractor does not need it; the independent reader does)
    d = ["doc", {}, [U([H(), Pp()])]]
    data = P.ppt(d, None, {"current_user": False})
    st, prob = strict_read(data)
    if prob or "Current User" in st:
        report("WRITER-INVALID", "current_user False")
    else:
        report("ok", "current_user False: no 'Current User' stream")
        check_extractor("no Current User stream", d, None, data)
    # --- encryption markers
    for mode in (True, "keep_docprops"):
        d = ["doc", {"title": T.new("Z")}, [U([H(), Pp()])]]
        data = P.ppt(d, None, {"encrypted": mode})
        if not check_writer("encrypted=%r" % (mode,), d, None, {"encrypted": mode}, data):
            continue
        try:
            r = next(read_ppt(io.BytesIO(data), None))
            report("EXTRACTOR-DISAGREES", "encrypted=%r: read_ppt returned content (%r) instead of ExtractionFileEncryptedError" % (mode, find_tokens(r.get_full_text())),
                   "markers present: CurrentUserAtom.headerToken 0xF3D1C4DF, UserEditAtom.encryptSessionPersistIdRef, CryptSession10Container"
                   + ("; the EncryptedSummary stream is legitimately absent when document properties stay unencrypted (fDocProps)" if mode != True else ""))
        except ExtractionFileEncryptedError:
            report("ok", "encrypted=%r (writer valid, extractor raises ExtractionFileEncryptedError)" % (mode,))
        except Exception as e:
            report("EXTRACTOR-DISAGREES", "encrypted=%r" % (mode,), "%s: %s" % (type(e).__name__, e))
    # --- cross-check of the reader's (and therefore the writer's) field interpretations against real PowerPoint / Impress files
    for f in ("eurouni2.ppt", "ppt_with_images.ppt", "slide_with_notes.ppt"):
        try:
            with olefile.OleFileIO("/repo/sharepoint2text/tests/resources/legacy_ms/" + f) as ole:
                st = {"/".join(p_): ole.openstream(p_).read() for p_ in ole.listdir()}
        except OSError:
            continue
        try:
            sl, okb, nb, md4_ok = resolve_real(st)
            refd = sum(1 for tx, _, _ in sl for _ in tx)
            report("ok" if okb == nb and sl else "WRITER-INVALID", "real file %s resolves with the same structure rules: %d slides, %d shape texts, %d outline texts, %d picture shapes, %d/%d BLIPs found via BSE offset/size/uid, uid is MD4 of the data in %d"
                   % (f, len(sl), refd, sum(n for _, _, n in sl), sum(n for _, n, _ in sl), okb, nb, sum(md4_ok)))
        except Exception as e:
            report("WRITER-INVALID", "real file %s does not resolve" % f, "%s: %s" % (type(e).__name__, e))
    # --- refusals
    for label, d, o in [("table", ["doc", {}, [U([["tbl", [[[Pp()]]]]])]], None), ("list", ["doc", {}, [U([["ul", [[Pp()]]]])]], None),
                        ("page break", ["doc", {}, [U([["pb"]])]], None), ("hyperlink", ["doc", {}, [U([Pp(["a", "http://x/", [t("K")]])])]], None),
                        ("tracked insertion", ["doc", {}, [U([Pp(["ins", "Ixxxxx"])])]], None), ("comment extras", ["doc", {}, [U([Pp()], comments=["Mxxxxx"])]], None),
                        ("sheet unit", ["doc", {}, [["sheet", "Nx", []]]], None), ("unknown meta", ["doc", {"zz": "1"}, []], None),
                        ("text with \\r", ["doc", {}, [U([Pp(["t", "a\rb"])])]], None), ("bytes atom with CJK", ["doc", {}, [U([Pp(["t", "名"])])]], {"text_atom": "bytes"}),
                        ("unknown layout", ["doc", {}, []], {"layout": "x"}), ("7 outline texts", ["doc", {}, [U([H()] + [Pp() for _ in range(6)])]], {"p_mode": "slwt_other"}),
                        ("GIF image", ["doc", {}, [U([["img", "g"]])]], None)]:
        try:
            P.ppt(d, {"g": b"GIF89a" + b"\0" * 20}, o)
            report("WRITER-INVALID", "%s accepted" % label)
        except NotImplementedError:
            report("ok", "%s refused (NotImplementedError)" % label)
    if set(adm.constructors(["doc", meta, [U([H(), Pp(t(), ["tab"], ["br"]), ["img", "a"]], notes=["Pxxxxx"]), U([])]])) - P.CAPS_PPT:
        report("WRITER-INVALID", "CAPS_PPT misses constructors the writer accepts")
    d = ["doc", {}, [U([["h", 1, [["t", "Hbcdfg"]]], ["p", [["t", "Bbcdfg"]]]])]]
    if P.ppt(d) != P.ppt(d):
        report("WRITER-INVALID", "not deterministic")
    import timeit
    tm = timeit.timeit(lambda: P.ppt(d), number=200) / 200
    report("info", "render time of a 1-slide presentation: %.3f ms, %d bytes" % (tm * 1000, len(P.ppt(d))))
    print("\nSUMMARY pptbin: %d ok, %d WRITER-INVALID, %d EXTRACTOR-DISAGREES, %d info" %
          (RESULTS["ok"], RESULTS["WRITER-INVALID"], RESULTS["EXTRACTOR-DISAGREES"], RESULTS["info"]))
    return 0


if __name__ == "__main__":
    sys.exit(main())
