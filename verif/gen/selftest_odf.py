"""Self-test of verif.gen.odf:  PYTHONPATH=/verif /venv/bin/python -B -m verif.gen.selftest_odf

For every supported constructor (simplest term) and format: render, validate the package with an independent reader
(zipfile + xml.etree + a hand-written structural checker: mimetype entry, manifest completeness, parent/child
vocabulary of ODF 1.2, required attributes, style / id / href reference resolution, determinism), then run the
library's extractor and compare with adm.truth().

  WRITER-INVALID       the independent checks reject the output (bug of the writer)
  EXTRACTOR-DISAGREES  the package is valid but the extractor returns something else (reported, not hidden)
Exit code is 0 unless the self-test itself crashes.
"""
from __future__ import annotations

import io
import re
import sys
import time
import zipfile
from xml.etree import ElementTree as ET

from verif.gen import adm, odf
from verif.gen.tokens import find_tokens

NS = dict(odf.NS)
NS["manifest"] = odf.NS_MANIFEST
NS["math"] = odf.NS_MATHML
NS["xml"] = "http://www.w3.org/XML/1998/namespace"
_REV = {u: p for p, u in NS.items()}


def q(tag: str) -> str:
    """{uri}local -> prefix:local"""
    if tag.startswith("{"):
        uri, local = tag[1:].split("}")
        return f"{_REV.get(uri, '?' + uri)}:{local}"
    return tag


# --- a second, independent encoding of the ODF 1.2 schema fragments the writers use: allowed children ----------
_PARA_CONTENT = {"text:s", "text:tab", "text:line-break", "text:span", "text:a", "text:note", "office:annotation",
                 "draw:frame", "draw:custom-shape", "text:change", "text:change-start", "text:change-end"}
_TEXT_CONTENT = {"text:p", "text:h", "text:list", "table:table", "draw:frame", "draw:custom-shape",
                 "text:change", "text:change-start", "text:change-end"}
_SHAPES = {"draw:frame", "draw:custom-shape"}
_STYLE_DEFS = {"style:style", "style:default-style", "text:list-style", "number:date-style", "number:time-style",
               "number:boolean-style", "number:percentage-style", "number:currency-style", "number:number-style",
               "text:notes-configuration"}
_NUM_PARTS = {"number:year", "number:month", "number:day", "number:hours", "number:minutes", "number:seconds",
              "number:text", "number:number", "number:boolean", "number:currency-symbol"}
CHILDREN = {
    "office:document-content": {"office:scripts", "office:font-face-decls", "office:automatic-styles", "office:body"},
    "office:document-styles": {"office:font-face-decls", "office:styles", "office:automatic-styles",
                               "office:master-styles"},
    "office:document-meta": {"office:meta"},
    "office:meta": {"meta:generator", "dc:title", "dc:description", "dc:subject", "meta:keyword",
                    "meta:initial-creator", "dc:creator", "meta:creation-date", "dc:date"},
    "office:body": {"office:text", "office:presentation", "office:spreadsheet", "office:drawing"},
    "office:text": {"text:tracked-changes"} | _TEXT_CONTENT,
    "office:presentation": {"draw:page"},
    "office:drawing": {"draw:page"},
    "office:spreadsheet": {"table:table"},
    "office:styles": _STYLE_DEFS,
    "office:automatic-styles": _STYLE_DEFS | {"style:page-layout"},
    "office:master-styles": {"draw:layer-set", "style:master-page"},
    "draw:layer-set": {"draw:layer"},
    "style:master-page": {"style:header", "style:footer", "presentation:notes"} | _SHAPES,
    "style:header": {"text:p", "text:h", "text:list", "table:table"},
    "style:footer": {"text:p", "text:h", "text:list", "table:table"},
    "style:page-layout": {"style:page-layout-properties", "style:header-style", "style:footer-style"},
    "style:header-style": {"style:header-footer-properties"},
    "style:footer-style": {"style:header-footer-properties"},
    "style:style": {"style:paragraph-properties", "style:text-properties", "style:graphic-properties",
                    "style:table-properties", "style:table-column-properties", "style:table-row-properties",
                    "style:table-cell-properties", "style:drawing-page-properties"},
    "style:default-style": {"style:paragraph-properties", "style:text-properties", "style:graphic-properties",
                            "style:table-properties", "style:table-cell-properties"},
    "text:list-style": {"text:list-level-style-bullet", "text:list-level-style-number"},
    "text:list-level-style-bullet": {"style:list-level-properties", "style:text-properties"},
    "number:date-style": _NUM_PARTS, "number:time-style": _NUM_PARTS, "number:boolean-style": _NUM_PARTS,
    "number:percentage-style": _NUM_PARTS, "number:currency-style": _NUM_PARTS,
    "text:tracked-changes": {"text:changed-region"},
    "text:changed-region": {"text:insertion", "text:deletion", "text:format-change"},
    "text:insertion": {"office:change-info"},
    "text:deletion": {"office:change-info", "text:p", "text:h", "text:list", "table:table"},
    "office:change-info": {"dc:creator", "dc:date", "text:p"},
    "text:p": _PARA_CONTENT, "text:h": _PARA_CONTENT | {"text:number"}, "text:span": _PARA_CONTENT,
    "text:a": _PARA_CONTENT - {"text:a"},
    "text:list": {"text:list-header", "text:list-item"},
    "text:list-item": {"text:number", "text:p", "text:h", "text:list"},
    "text:note": {"text:note-citation", "text:note-body"},
    "text:note-body": {"text:p", "text:h", "text:list", "table:table"},
    "office:annotation": {"dc:creator", "dc:date", "text:p", "text:list"},
    "table:table": {"table:shapes", "table:table-column", "table:table-columns", "table:table-header-rows",
                    "table:table-rows", "table:table-row"},
    "table:table-header-rows": {"table:table-row"},
    "table:table-row": {"table:table-cell", "table:covered-table-cell"},
    "table:table-cell": {"office:annotation"} | _TEXT_CONTENT,
    "table:shapes": _SHAPES,
    "draw:page": _SHAPES | {"presentation:notes"},
    "presentation:notes": _SHAPES | {"draw:page-thumbnail"},
    "draw:frame": {"draw:text-box", "draw:image", "table:table", "svg:title", "svg:desc"},
    "draw:text-box": _TEXT_CONTENT,
    "draw:image": {"text:p", "text:list", "office:binary-data"},
    "draw:custom-shape": {"text:p", "text:list", "draw:enhanced-geometry", "svg:title", "svg:desc"},
    "manifest:manifest": {"manifest:file-entry"},
    "math:math": {"math:semantics"}, "math:semantics": {"math:mrow", "math:annotation"}, "math:mrow": {"math:mi"},
}
LEAVES = {"text:s", "text:tab", "text:line-break", "text:change", "text:change-start", "text:change-end",
          "text:note-citation", "dc:creator", "dc:date", "dc:title", "dc:description", "dc:subject", "meta:keyword",
          "meta:initial-creator", "meta:creation-date", "meta:generator", "svg:title", "svg:desc", "draw:layer",
          "draw:page-thumbnail", "draw:enhanced-geometry", "table:table-column", "manifest:file-entry",
          "style:paragraph-properties", "style:text-properties", "style:graphic-properties", "style:table-properties",
          "style:table-column-properties", "style:table-row-properties", "style:table-cell-properties",
          "style:drawing-page-properties", "style:page-layout-properties", "style:header-footer-properties",
          "style:list-level-properties", "text:notes-configuration", "math:mi", "math:annotation"} | _NUM_PARTS
REQUIRED = {
    "draw:page": ["draw:master-page-name"], "style:style": ["style:name", "style:family"],
    "style:master-page": ["style:name", "style:page-layout-name"], "style:page-layout": ["style:name"],
    "text:h": ["text:outline-level"], "text:a": ["xlink:href"], "draw:image": ["xlink:href"],
    "text:note": ["text:note-class"], "text:changed-region": ["text:id"], "text:change": ["text:change-id"],
    "text:change-start": ["text:change-id"], "text:change-end": ["text:change-id"], "table:table": [],
    "manifest:file-entry": ["manifest:full-path", "manifest:media-type"], "text:list-style": ["style:name"],
    "draw:layer": ["draw:name"], "text:list-level-style-bullet": ["text:level", "text:bullet-char"],
    "draw:page-thumbnail": [], "math:annotation": ["encoding"],
}
VALUE_ATTR = {"float": "office:value", "percentage": "office:value", "currency": "office:value",
              "date": "office:date-value", "time": "office:time-value", "boolean": "office:boolean-value"}
STYLE_REF = {  # (element, attribute) -> style family (or special kind)
    ("text:p", "text:style-name"): "paragraph", ("text:h", "text:style-name"): "paragraph",
    ("text:list", "text:style-name"): "#list", ("table:table", "table:style-name"): "table",
    ("table:table-column", "table:style-name"): "table-column", ("table:table-row", "table:style-name"): "table-row",
    ("table:table-cell", "table:style-name"): "table-cell",
    ("table:table-column", "table:default-cell-style-name"): "table-cell",
    ("draw:frame", "draw:style-name"): "graphic", ("draw:custom-shape", "draw:style-name"): "graphic",
    ("draw:page-thumbnail", "draw:style-name"): "graphic",
    ("draw:frame", "presentation:style-name"): "presentation",
    ("draw:frame", "draw:text-style-name"): "paragraph", ("draw:custom-shape", "draw:text-style-name"): "paragraph",
    ("draw:page", "draw:style-name"): "drawing-page", ("presentation:notes", "draw:style-name"): "drawing-page",
    ("style:master-page", "draw:style-name"): "drawing-page",
    ("draw:page", "draw:master-page-name"): "#master", ("style:style", "style:master-page-name"): "#master",
    ("style:master-page", "style:page-layout-name"): "#layout",
    ("presentation:notes", "style:page-layout-name"): "#layout",
    ("style:style", "style:data-style-name"): "#data",
}
_DURATION = re.compile(r"-?PT\d+H\d+M\d+(\.\d+)?S\Z")


def _attrs(el):
    return {q(k): v for k, v in el.attrib.items()}


def validate_package(data: bytes, fmt: str) -> list:
    """independent checks; returns a list of problems (empty = valid)"""
    bad = []
    mt = odf.MIMETYPES[fmt].encode()
    try:
        z = zipfile.ZipFile(io.BytesIO(data))
    except Exception as e:
        return [f"not a zip: {e}"]
    if z.testzip() is not None:
        bad.append("zip CRC failure")
    infos = z.infolist()
    names = [i.filename for i in infos]
    if len(set(names)) != len(names):
        bad.append("duplicate zip members")
    first = infos[0]
    if first.filename != "mimetype" or first.compress_type != zipfile.ZIP_STORED or first.extra or \
            first.flag_bits & 0x8 or first.header_offset != 0:
        bad.append("mimetype entry is not first / stored / without extra field")
    if data[30:38] != b"mimetype" or data[38:38 + len(mt)] != mt or z.read("mimetype") != mt:
        bad.append("mimetype magic not at offset 38")
    if any(i.date_time != (2020, 1, 1, 0, 0, 0) for i in infos):
        bad.append("zip timestamps not fixed")
    roots = {}
    for n in names:
        if n.endswith(".xml"):
            raw = z.read(n)
            try:
                roots[n] = ET.fromstring(raw)
            except ET.ParseError as e:
                bad.append(f"{n}: not well-formed: {e}")
            if not raw.startswith(b'<?xml version="1.0" encoding="UTF-8"?>'):
                bad.append(f"{n}: XML declaration missing")
    if bad:
        return bad
    man = roots.get("META-INF/manifest.xml")
    if man is None:
        return ["manifest missing"]
    entries = {}
    for fe in man:
        a = _attrs(fe)
        entries[a.get("manifest:full-path")] = a.get("manifest:media-type")
    if entries.get("/") != mt.decode():
        bad.append("manifest root entry media type")
    listed = set(entries) - {"/"}
    present = set(names) - {"mimetype", "META-INF/manifest.xml"}
    if listed != present:
        bad.append(f"manifest incomplete: listed-only {sorted(listed - present)}, unlisted {sorted(present - listed)}")
    if "manifest:encrypted" in z.read("META-INF/manifest.xml").decode():
        bad.append("unexpected encryption data")
    if "content.xml" not in roots:
        return bad + ["content.xml missing"]
    exp_root = {"content.xml": "math:math" if fmt == "odf" else "office:document-content",
                "styles.xml": "office:document-styles", "meta.xml": "office:document-meta",
                "META-INF/manifest.xml": "manifest:manifest"}
    styles = {}          # (family, name)
    special = {"#list": set(), "#master": set(), "#layout": set(), "#data": set()}
    for n in ("styles.xml", "content.xml"):
        if n in roots:
            for el in roots[n].iter():
                t, a = q(el.tag), _attrs(el)
                if t == "style:style":
                    key = (a.get("style:family"), a.get("style:name"))
                    if key in styles and styles[key] == n:
                        bad.append(f"{n}: style {key} defined twice")
                    styles[key] = n
                elif t == "text:list-style":
                    special["#list"].add(a.get("style:name"))
                elif t == "style:master-page":
                    special["#master"].add(a.get("style:name"))
                elif t == "style:page-layout":
                    special["#layout"].add(a.get("style:name"))
                elif t.startswith("number:") and t.endswith("-style"):
                    special["#data"].add(a.get("style:name"))
    for n, root in roots.items():
        if n in exp_root and q(root.tag) != exp_root[n]:
            bad.append(f"{n}: root element {q(root.tag)}")
        if n in ("content.xml", "styles.xml", "meta.xml") and fmt != "odf" or n == "meta.xml":
            if _attrs(root).get("office:version") != "1.2":
                bad.append(f"{n}: office:version missing")
        change_ids, change_refs, names_seen = set(), [], {}
        for el in root.iter():
            t, a = q(el.tag), _attrs(el)
            if "?" in t or any("?" in k for k in a):
                bad.append(f"{n}: foreign namespace in {t} {sorted(a)}")
            kids = [q(k.tag) for k in el]
            if t in LEAVES:
                if kids:
                    bad.append(f"{n}: {t} must be empty but holds {kids}")
            elif t in CHILDREN:
                extra = set(kids) - CHILDREN[t]
                if extra:
                    bad.append(f"{n}: {sorted(extra)} not allowed inside {t}")
            else:
                bad.append(f"{n}: element {t} unknown to the checker")
            for req in REQUIRED.get(t, ()):
                if req not in a:
                    bad.append(f"{n}: {t} lacks {req}")
            for (et, at), fam in STYLE_REF.items():
                if t == et and at in a:
                    ok = a[at] in special[fam] if fam.startswith("#") else (fam, a[at]) in styles
                    if not ok:
                        bad.append(f"{n}: {t} {at}={a[at]!r}: no such {fam} style")
            if t == "style:style" and "style:parent-style-name" in a and \
                    (a["style:family"], a["style:parent-style-name"]) not in styles:
                bad.append(f"{n}: parent style {a['style:parent-style-name']!r} undefined")
            if t in ("table:table", "draw:page", "draw:frame") and (nm := a.get("table:name") or a.get("draw:name")):
                if names_seen.setdefault((t, nm), el) is not el:
                    bad.append(f"{n}: duplicate {t} name {nm!r}")
            if t == "table:table":
                if not [k for k in kids if k == "table:table-column"]:
                    bad.append(f"{n}: table without column declaration")
                rows = el.findall("table:table-row", NS) + el.findall("table:table-header-rows/table:table-row", NS)
                if not rows:
                    bad.append(f"{n}: table without rows")
                order = [k for k in kids if k != "table:shapes"]
                if kids and "table:shapes" in kids and kids[0] != "table:shapes":
                    bad.append(f"{n}: table:shapes must come first")
                if order != sorted(order, key=lambda k: ["table:table-column", "table:table-header-rows",
                                                          "table:table-row"].index(k)):
                    bad.append(f"{n}: table children out of order {order}")
                ncols = sum(int(_attrs(k).get("table:number-columns-repeated", "1"))
                            for k in el.findall("table:table-column", NS))
                for row in rows:
                    w = sum(int(_attrs(k).get("table:number-columns-repeated", "1")) for k in row)
                    if w > ncols:
                        bad.append(f"{n}: row wider ({w}) than declared columns ({ncols})")
            if t == "table:table-row" and not kids:
                bad.append(f"{n}: table row without cells")
            if t == "table:table-cell":
                vt = a.get("office:value-type")
                if vt and vt != "string" and VALUE_ATTR.get(vt) not in a:
                    bad.append(f"{n}: cell of type {vt} without {VALUE_ATTR.get(vt)}")
                if vt is None and any(k.startswith("office:") for k in a):
                    bad.append(f"{n}: value attribute without office:value-type")
                if vt == "time" and not _DURATION.match(a.get("office:time-value", "")):
                    bad.append(f"{n}: bad duration {a.get('office:time-value')!r}")
                if vt == "currency" and "office:currency" not in a:
                    bad.append(f"{n}: currency cell without office:currency")
                if "table:formula" in a and not a["table:formula"].startswith("of:="):
                    bad.append(f"{n}: formula without of:= prefix")
                for k in ("table:number-columns-repeated",):
                    if k in a and not re.match(r"[1-9][0-9]*\Z", a[k]):
                        bad.append(f"{n}: bad {k}")
            if t == "text:changed-region":
                change_ids.add(a.get("text:id"))
                if a.get("xml:id") != a.get("text:id"):
                    bad.append(f"{n}: changed-region xml:id / text:id differ")
            if t in ("text:change", "text:change-start", "text:change-end"):
                change_refs.append((t, a.get("text:change-id")))
            if t == "text:note" and kids != ["text:note-citation", "text:note-body"]:
                bad.append(f"{n}: text:note children {kids}")
            if t == "draw:image":
                href = a.get("xlink:href", "")
                if not re.match(r"[a-z]+:", href):
                    path = href[2:] if href.startswith("./") else href
                    if path not in names:
                        bad.append(f"{n}: image href {href!r} not in package")
            if t == "draw:frame":
                if not [k for k in kids if k in ("draw:text-box", "draw:image", "table:table")]:
                    bad.append(f"{n}: empty draw:frame")
                tail = [k for k in kids if k.startswith("svg:")]
                if tail and kids[-len(tail):] != tail:
                    bad.append(f"{n}: svg:title/desc must follow the frame content")
                par = None
            if t in ("text:p", "text:h") and el.text and (el.text != el.text.lstrip(" ")):
                bad.append(f"{n}: literal leading space in paragraph")
            if t in ("text:p", "text:h", "text:span", "text:a"):
                chunks = [el.text or ""] + [k.tail or "" for k in el]
                if any("  " in ch or "\t" in ch or "\n" in ch for ch in chunks):
                    bad.append(f"{n}: unprotected white space in paragraph content")
        for t, ref in change_refs:
            if ref not in change_ids:
                bad.append(f"{n}: {t} refers to unknown region {ref!r}")
        starts = sorted(r for t, r in change_refs if t == "text:change-start")
        ends = sorted(r for t, r in change_refs if t == "text:change-end")
        if starts != ends:
            bad.append(f"{n}: unbalanced change-start / change-end")
        if n == "content.xml" and change_ids != {r for _, r in change_refs}:
            bad.append(f"{n}: changed-region without marker")
    if fmt != "odf":
        body = roots["content.xml"].find("office:body", NS)
        want = {"odt": "office:text", "odp": "office:presentation", "ods": "office:spreadsheet",
                "odg": "office:drawing"}[fmt]
        if body is None or [q(k.tag) for k in body] != [want]:
            bad.append("wrong body element")
        elif fmt == "odt":
            kids = [q(k.tag) for k in body[0]]
            if "text:tracked-changes" in kids and kids.index("text:tracked-changes") != 0:
                bad.append("text:tracked-changes must open office:text")
    return bad


# --- comparison with the extractor -----------------------------------------------------------------------------

from sharepoint2text.parsing.extractors.open_office import read_odf, read_odg, read_odp, read_ods, read_odt  # noqa

READERS = {"odt": read_odt, "odp": read_odp, "ods": read_ods, "odg": read_odg, "odf": read_odf}
WRITERS = {"odt": odf.odt, "odp": odf.odp, "ods": odf.ods, "odg": odf.odg, "odf": odf.odf}
CAPS = {"odt": odf.CAPS_ODT, "odp": odf.CAPS_ODP, "ods": odf.CAPS_ODS, "odg": odf.CAPS_ODG, "odf": odf.CAPS_ODF}

RESULTS = {"ok": 0, "invalid": [], "disagree": [], "error": []}


def line(status, fmt, name, detail=""):
    print(f"{status:<20} {fmt:<4} {name}" + (f"  :: {detail}" if detail else ""))


def sep_ok(boundary: str, sep: str) -> bool:
    if boundary == "none":
        return sep == ""
    if boundary == "tab":
        return "\t" in sep
    if boundary == "br":
        return "\n" in sep
    return bool(sep) and sep.strip() == "" or boundary == "unit" and sep == ""


def compare_text(doc, text: str, fmt: str = "odt") -> list:
    tr = adm.truth(doc)
    got = find_tokens(text)
    vis = list(tr["visible"])
    if fmt == "odp":
        # documented behaviour (README / DESIGN): odp table text is only in iterate_tables(), not in the slide text
        in_tables = {t for g in tr["tables"] for row in g for cell in row for t in cell}
        vis = [(t, b) for t, b in vis if t not in in_tables]
    want = [t for t, _ in vis]
    dc = set(tr["dontcare"]) | {t for t in got if t[0] == "Z"}
    got_j = [t for t in got if t not in dc]
    issues = []
    hidden = [t for t in got_j if t in set(tr["hidden"])]
    if hidden:
        issues.append(f"hidden tokens in text: {hidden}")
    gv = [t for t in got_j if t not in set(tr["hidden"])]
    if gv != want:
        issues.append(f"visible tokens {gv} != {want}")
    else:
        pos = 0
        prev_end = None
        for tok, b in (vis if fmt != "odf" else []):
            i = text.find(tok, pos)
            if prev_end is not None:
                sep = text[prev_end:i]
                for t in dc:
                    sep = sep.replace(t, "")
                if not sep_ok(b, sep):
                    issues.append(f"boundary before {tok}: want {b}, separator {sep!r}")
            prev_end = i + len(tok)
            pos = prev_end
    return issues


def norm_cell(v) -> list:
    return find_tokens(v if isinstance(v, str) else "")


def compare_tables(doc, res) -> list:
    tr = adm.truth(doc)
    got = [[[norm_cell(c) for c in row] for row in t.get_table()] for t in res.iterate_tables()]
    if got != tr["tables"]:
        return [f"tables {got} != {tr['tables']}"]
    return []


def run_case(fmt, name, doc, images=None, opts=None, check=None, text_check=True, expect_caps=True):
    """render + validate + extract + compare"""
    if expect_caps:
        used = adm.constructors(doc)
        if not used <= CAPS[fmt]:
            RESULTS["invalid"].append((fmt, name, f"constructors {sorted(used - CAPS[fmt])} missing from CAPS"))
            line("WRITER-INVALID", fmt, name, f"CAPS lacks {sorted(used - CAPS[fmt])}")
            return None
    try:
        data = WRITERS[fmt](doc, images, opts)
        again = WRITERS[fmt](doc, images, opts)
    except Exception as e:
        RESULTS["invalid"].append((fmt, name, f"writer raised {e!r}"))
        line("WRITER-INVALID", fmt, name, f"writer raised {e!r}")
        return None
    problems = validate_package(data, fmt)
    if data != again:
        problems.append("output not deterministic")
    if problems:
        RESULTS["invalid"].append((fmt, name, problems))
        line("WRITER-INVALID", fmt, name, "; ".join(problems[:4]))
        return data
    try:
        res = next(READERS[fmt](io.BytesIO(data), path="x." + fmt))
    except Exception as e:
        RESULTS["disagree"].append((fmt, name, f"extractor raised {e!r}"))
        line("EXTRACTOR-DISAGREES", fmt, name, f"extractor raised {e!r}")
        return data
    issues = []
    if text_check and fmt != "ods":
        issues += compare_text(doc, res.get_full_text(), fmt)
        if fmt in ("odt", "odp"):
            issues += compare_tables(doc, res)
    if images and fmt != "odf":
        anchors = image_anchors(doc, opts)
        per_anchor = [bytes(images[k][0]) for k in anchors if not isinstance(images[k][0], str)]
        per_part = list(dict.fromkeys(per_anchor))
        got = [b for b in (im.get_bytes().read() for im in res.iterate_images()) if b]
        if got != per_anchor and got != per_part:      # one image per anchor or one per stored part: both accepted
            issues.append(f"images: got {len(got)} payloads, want {len(per_anchor)} (per anchor) in document order")
    meta = doc[1] or {}
    md = res.get_metadata()
    for k, attr in (("title", "title"), ("subject", "subject"), ("description", "description"),
                    ("keywords", "keywords"), ("author", "creator"), ("author", "initial_creator")):
        if k in meta and getattr(md, attr) != meta[k]:
            issues.append(f"metadata {attr} {getattr(md, attr)!r} != {meta[k]!r}")
    if check:
        issues += check(res) or []
    if issues:
        RESULTS["disagree"].append((fmt, name, issues))
        line("EXTRACTOR-DISAGREES", fmt, name, "; ".join(issues[:3]))
    else:
        RESULTS["ok"] += 1
        line("OK", fmt, name)
    return data


def image_anchors(doc, opts) -> list:
    out = []

    def blocks(bs):
        for b in bs:
            if b[0] == "img":
                out.append(b[1])
            elif b[0] == "ul":
                for it in b[1]:
                    blocks(it)
            elif b[0] == "tbl":
                for row in b[1]:
                    for cell in row:
                        blocks(cell)
            elif b[0] in ("p", "h"):
                for x in b[-1]:
                    if x[0] == "box":
                        blocks(x[1])
    for u in doc[2]:
        if u[0] == "unit":
            blocks(u[1])
    for ent in (opts or {}).get("images_at") or []:
        out.append(ent[-1])
    return out


def expect_raises(fmt, name, doc, exc=NotImplementedError, images=None, opts=None):
    try:
        WRITERS[fmt](doc, images, opts)
    except exc:
        RESULTS["ok"] += 1
        line("OK", fmt, name + " -> " + exc.__name__)
        return
    except Exception as e:
        RESULTS["invalid"].append((fmt, name, f"raised {e!r} instead of {exc.__name__}"))
        line("WRITER-INVALID", fmt, name, f"raised {e!r} instead of {exc.__name__}")
        return
    RESULTS["invalid"].append((fmt, name, f"no {exc.__name__}"))
    line("WRITER-INVALID", fmt, name, f"silently accepted (no {exc.__name__})")


# --- cases -----------------------------------------------------------------------------------------------------

def D(blocks, meta=None, extras=None):
    return ["doc", meta or {}, [["unit", blocks, extras or {}]]]


def P(*toks):
    return ["p", [["t", t] for t in toks]]


PNG = b"\x89PNG\r\n\x1a\n\x00\x00\x00\rIHDR\x00\x00\x00\x01\x00\x00\x00\x01\x08\x02\x00\x00\x00verif-odf-1"
GIF = b"GIF89a\x01\x00\x01\x00\x00\x00\x00;verif-odf-2"
META_HARD = {"title": "T & <b> \"q\" 'a' Üñí 漢字 \U0001F600", "author": "A&B <Ö>", "subject": "s \"&\" <>",
             "keywords": "k1 & 'k2' <ß>", "description": "line1 & <x>\nline2 \"é\""}


def text_cases(fmt):
    """simplest document per constructor"""
    cs = [("p", D([P("Bbcdfg")])),
          ("p+p", D([P("Bbcdfg"), P("Bcdfgh")])),
          ("t+t", D([P("Bbcdfg", "Bcdfgh")])),
          ("tab", D([["p", [["t", "Bbcdfg"], ["tab"], ["t", "Bcdfgh"]]]])),
          ("br", D([["p", [["t", "Bbcdfg"], ["br"], ["t", "Bcdfgh"]]]])),
          ("a", D([["p", [["t", "Bbcdfg"], ["a", "http://h/x?a=1&b=2", [["t", "Kbcdfg"]]], ["t", "Bcdfgh"]]]])),
          ("h", D([["h", 1, [["t", "Hbcdfg"]]], P("Bbcdfg")])),
          ("ul", D([["ul", [[P("Lbcdfg")], [P("Lcdfgh")]]]])),
          ("ul-nested", D([["ul", [[P("Lbcdfg"), ["ul", [[P("Lcdfgh")]]]], [P("Ldfghj")]]]])),
          ("tbl-1x1", D([["tbl", [[[P("Cbcdfg")]]]]])),
          ("tbl-2x2", D([["tbl", [[[P("Cbcdfg")], [P("Ccdfgh")]], [[P("Cdfghj")], [P("Cfghjk")]]]]])),
          ("tbl-empty-cell+2p", D([["tbl", [[[], [P("Cbcdfg"), P("Ccdfgh")]]]]])),
          ("p,tbl,p", D([P("Bbcdfg"), ["tbl", [[[P("Cbcdfg")]]]], P("Bcdfgh")])),
          ]
    if fmt == "odt":
        cs += [("h2,h3", D([["h", 2, [["t", "Hbcdfg"]]], ["h", 3, [["t", "Hcdfgh"]]], P("Bbcdfg")])),
               ("tbl-nested", D([["tbl", [[[P("Cbcdfg"), ["tbl", [[[P("Ccdfgh")]]]]], [P("Cdfghj")]]]]])),
               ("tbl-ragged", D([["tbl", [[[P("Cbcdfg")], [P("Ccdfgh")]], [[P("Cdfghj")]]]]])),
               ("ul-in-cell", D([["tbl", [[[["ul", [[P("Lbcdfg")]]]]]]]])),
               ("h-in-cell", D([["tbl", [[[["h", 1, [["t", "Hbcdfg"]]]]]]]])),
               ("pb", D([P("Bbcdfg"), ["pb"], P("Bcdfgh")])),
               ("ins", D([["p", [["t", "Bbcdfg"], ["ins", "Ibcdfg"], ["t", "Bcdfgh"]]]])),
               ("del", D([["p", [["t", "Bbcdfg"], ["del", "Dbcdfg"], ["t", "Bcdfgh"]]]])),
               ("cref", D([["p", [["t", "Bbcdfg"], ["cref", "Mbcdfg"], ["t", "Bcdfgh"]]]])),
               ("fn", D([["p", [["t", "Bbcdfg"], ["fn", "Zbcdfg"], ["t", "Bcdfgh"]]]])),
               ("box", D([["p", [["t", "Bbcdfg"], ["box", [P("Sbcdfg")]], ["t", "Bcdfgh"]]]])),
               ("box-only", D([["p", [["box", [P("Sbcdfg"), P("Scdfgh")]]]]])),
               ("a(ins,del)", D([["p", [["a", "http://h/", [["ins", "Ibcdfg"], ["del", "Dbcdfg"]]]]]])),
               ("header+footer", D([P("Bbcdfg")], {"header": "Rbcdfg", "footer": "Rcdfgh"})),
               ]
    return cs


def main() -> int:
    t0 = time.perf_counter()
    imgs = {"k1": (PNG, "png")}
    for fmt in ("odt", "odp", "odg"):
        for name, doc in text_cases(fmt):
            run_case(fmt, name, doc)
        spaced = " Bbcdfg  Bcdfgh  Bdfghj\tBfghjk\nBghjkl   Bhjklm "
        run_case(fmt, "white space (text:s / text:tab / text:line-break)",
                 D([["p", [["t", " Bbcdfg  Bcdfgh "], ["t", " "], ["t", "Bdfghj\tBfghjk\r\nBghjkl"], ["t", "   Bhjklm "]]]]),
                 text_check=False, check=lambda r: [] if r.get_full_text().strip() == spaced.strip() and
                 (fmt != "odt" or r.get_full_text() == spaced) else [f"text {r.get_full_text()!r} != {spaced!r}"])
        run_case(fmt, "img", D([P("Bbcdfg"), ["img", "k1"], P("Bcdfgh")]), imgs)
        run_case(fmt, "img x2 (two parts, alt text)", D([["img", "k1"], ["img", "k 2"]]),
                 {"k1": (PNG, "png", {"title": "Zbcdfg", "desc": "Zcdfgh"}), "k 2": (GIF, "gif")})
        run_case(fmt, "img same part twice", D([["img", "k1"], P("Bbcdfg"), ["img", "k1"]]), imgs)
        run_case(fmt, "img external link", D([["img", "k1"]]), {"k1": ("http://h/x.png", "png")})
        run_case(fmt, "img ./href", D([["img", "k1"]]), {"k1": (PNG, "png", {"href": "dot"})})
        two = ["doc", {}, [["unit", [P("Bbcdfg")], {}], ["unit", [P("Bcdfgh")], {}]]]
        run_case(fmt, "two units", two)
        run_case(fmt, "empty document", ["doc", {}, []])
        run_case(fmt, "empty unit", D([]))
        run_case(fmt, "metadata escapes", D([P("Bbcdfg")], META_HARD))
        run_case(fmt, "metadata split keywords", D([P("Bbcdfg")], {"keywords": "Kbcdfg, Kcdfgh"}),
                 opts={"split_keywords": True})
        run_case(fmt, "stored compression", D([P("Bbcdfg")]), opts={"compression": "stored"})
        run_case(fmt, "tbl header_rows=1", D([["tbl", [[[P("Cbcdfg")]], [[P("Ccdfgh")]]]]]), opts={"header_rows": 1})
        run_case(fmt, "tbl header_rows=all", D([["tbl", [[[P("Cbcdfg")]]]]]), opts={"header_rows": 3})
        for n in (1, 2):
            def chk(res, n=n):
                tabs = [t.get_table() for t in res.iterate_tables()]
                want = [[["Cbcdfg"] * n + ["Ccdfgh"]] * n]
                return [] if tabs == want or fmt == "odg" else [f"repeat {n}: tables {tabs} != {want}"]
            run_case(fmt, f"tbl cell/row repeat {n}", D([["tbl", [[[P("Cbcdfg")], [P("Ccdfgh")]]]]]),
                     opts={"cell_repeat": [[0, 0, 0, n]], "row_repeat": [[0, 0, n]]}, check=chk, text_check=False)
        expect_raises(fmt, "sdt", D([["p", [["sdt", [["t", "Sbcdfg"]]]]]]))
        expect_raises(fmt, "math", D([["p", [["math", ["r", "x"]]]]]))
        expect_raises(fmt, "a in a", D([["p", [["a", "u", [["a", "v", [["t", "Kbcdfg"]]]]]]]]))
        expect_raises(fmt, "tbl in list item", D([["ul", [[["tbl", [[[P("Cbcdfg")]]]]]]]]))
        expect_raises(fmt, "empty table", D([["tbl", []]]))
        expect_raises(fmt, "sheet unit", ["doc", {}, [["sheet", "Nbcdfg", []]]])
        expect_raises(fmt, "extras comments", D([P("Bbcdfg")], None, {"comments": ["Mbcdfg"]}))
        expect_raises(fmt, "unknown block", D([["zzz"]]))
        expect_raises(fmt, "control char", D([P("B\x01")]), ValueError)
        expect_raises(fmt, "repeat on missing cell", D([["tbl", [[[P("Cbcdfg")]]]]]), ValueError,
                      opts={"cell_repeat": [[0, 5, 5, 2]]})
        expect_raises(fmt, "missing image key", D([["img", "nope"]]), KeyError, images={})
    # odt only
    run_case("odt", "lo_style_names", D([P("Bbcdfg"), ["tbl", [[[P("Cbcdfg")]], [[P("Ccdfgh")]]]], P("Bcdfgh")]),
             opts={"lo_style_names": True, "header_rows": 1})
    run_case("odt", "endnote", D([["p", [["t", "Bbcdfg"], ["fn", "Zbcdfg"]]]]), opts={"note_class": "endnote"})
    run_case("odt", "header/footer extracted", D([P("Bbcdfg")], {"header": "Rbcdfg", "footer": "Rcdfgh"}),
             check=lambda r: [] if ([h.text for h in r.headers], [f.text for f in r.footers]) ==
             (["Rbcdfg"], ["Rcdfgh"]) else [f"headers {r.headers} footers {r.footers}"])
    run_case("odt", "annotation / footnote / hyperlink fields",
             D([["p", [["a", "http://h/?a&b", [["t", "Kbcdfg"]]], ["cref", "Mbcdfg"], ["fn", "Zbcdfg"]]]]),
             check=lambda r: [] if ([a.text for a in r.annotations], [n.text for n in r.footnotes],
                                    [(h.text, h.url) for h in r.hyperlinks]) ==
             (["Mbcdfg"], ["Zbcdfg"], [("Kbcdfg", "http://h/?a&b")]) else ["annotation/footnote/hyperlink fields"])
    run_case("odt", "everything", D([["h", 1, [["t", "Hbcdfg"]]],
                                     ["p", [["t", "Bbcdfg"], ["tab"], ["ins", "Ibcdfg"], ["br"], ["del", "Dbcdfg"],
                                            ["cref", "Mbcdfg"], ["fn", "Zbcdfg"], ["t", "Bcdfgh"]]],
                                     ["ul", [[P("Lbcdfg")]]], ["tbl", [[[P("Cbcdfg")]]]], ["img", "k1"], ["pb"],
                                     P("Bdfghj")], {"title": "Tt", "header": "Rbcdfg"}), imgs)
    expect_raises("odt", "pb as header? (meta key unknown)", ["doc", {"zzz": "x"}, []])
    # odp only
    run_case("odp", "notes + name", D([["h", 1, [["t", "Hbcdfg"]]], P("Bbcdfg")], None,
                                      {"notes": ["Pbcdfg", "Pcdfgh"], "name": "Nbcdfg"}),
             check=lambda r: [] if (r.slides[0].notes, r.slides[0].name) == (["Pbcdfg", "Pcdfgh"], "Nbcdfg")
             else [f"notes {r.slides[0].notes} name {r.slides[0].name!r}"])
    run_case("odp", "class_style_names h,ul,p", D([["h", 1, [["t", "Hbcdfg"]]], ["ul", [[P("Lbcdfg")]]], P("Bbcdfg")]),
             opts={"class_style_names": True},
             check=lambda r: [] if (r.slides[0].title, r.slides[0].body_text, r.slides[0].other_text) ==
             ("Hbcdfg", ["Lbcdfg"], ["Bbcdfg"]) else [f"title/body/other {r.slides[0]}"])
    run_case("odp", "class_style_names p,ul,h (source order)",
             D([P("Bbcdfg"), ["ul", [[P("Lbcdfg")]]], ["h", 1, [["t", "Hbcdfg"]]]]), opts={"class_style_names": True})
    run_case("odp", "30 paragraphs keep order", D([P(t) for t in ("Bbcdfg", "Bcdfgh", "Bdfghj", "Bfghjk", "Bghjkl",
                                                                  "Bhjklm", "Bjklmn", "Bklmnp", "Blmnpq", "Bmnpqr",
                                                                  "Bnpqrs", "Bpqrst")]))
    expect_raises("odp", "second heading", D([["h", 1, [["t", "Hbcdfg"]]], ["h", 1, [["t", "Hcdfgh"]]]]))
    expect_raises("odp", "header meta", D([P("Bbcdfg")], {"header": "Rbcdfg"}))
    for fmt in ("odp", "odg"):
        run_case(fmt, "custom_shape", D([P("Bbcdfg"), P("Bcdfgh")]), opts={"custom_shape": True})
        for k in ("ins", "del", "cref", "fn"):
            expect_raises(fmt, k, D([["p", [[k, "Xbcdfg"]]]]))
        expect_raises(fmt, "box", D([["p", [["box", [P("Sbcdfg")]]]]]))
        expect_raises(fmt, "pb", D([["pb"]]))
        expect_raises(fmt, "tbl-nested", D([["tbl", [[[["tbl", [[[P("Cbcdfg")]]]]]]]]]))
    run_case("odg", "h2 + name", D([["h", 2, [["t", "Hbcdfg"]]], P("Bbcdfg")], None, {"name": "Nbcdfg"}))
    expect_raises("odg", "notes", D([P("Bbcdfg")], None, {"notes": ["Pbcdfg"]}))
    ods_cases()
    odf_cases()
    dt = time.perf_counter() - t0
    big = D([["tbl", [[[P("Cbcdfg")] for _ in range(5)] for _ in range(20)]]] + [P("Bbcdfg")] * 50)
    t1 = time.perf_counter()
    for _ in range(50):
        odf.odt(big)
    per = (time.perf_counter() - t1) / 50 * 1000
    print(f"\ntiming: 100-cell table + 50 paragraphs odt = {per:.2f} ms/document")
    print(f"\nSUMMARY ok={RESULTS['ok']} writer-invalid={len(RESULTS['invalid'])} "
          f"extractor-disagrees={len(RESULTS['disagree'])}  ({dt:.1f}s)")
    if RESULTS["invalid"]:
        print("\nWRITER-INVALID (bugs of the writer / self-test):")
        for fmt, name, why in RESULTS["invalid"]:
            print(f"  {fmt} {name}: {why}")
    if RESULTS["disagree"]:
        print("\nEXTRACTOR-DISAGREES (valid package, extractor returns something else):")
        for fmt, name, why in RESULTS["disagree"]:
            print(f"  {fmt} {name}: {why}")
    return 0


# --- ods / odf cases -------------------------------------------------------------------------------------------

def S(grid, name="Nbcdfg", meta=None):
    return ["doc", meta or {}, [["sheet", name, grid]]]


def ods_expected(cell):
    """what a reader of the ODF value attributes must see (typed value)"""
    if cell is None:
        return None
    k = cell[0]
    if k == "fml":
        return ods_expected(cell[2])
    if k in ("s", "err", "d", "dt"):
        return cell[1]
    if k in ("i", "b"):
        return cell[1]
    if k in ("f", "pct", "cur"):
        return int(cell[1]) if float(cell[1]) == int(cell[1]) else cell[1]
    if k == "tm":
        h, m, s = cell[1].split(":")
        return f"PT{h}H{m}M{s}S"
    if k == "dur":
        return odf._dur(cell[1])[0]
    raise AssertionError(k)


def ods_grid_check(grids, names=None):
    def chk(res):
        out = []
        got = [s.data for s in res.sheets]
        if got != grids:
            out.append(f"sheet data {got} != {grids}")
        if names is not None and [s.name for s in res.sheets] != names:
            out.append(f"sheet names {[s.name for s in res.sheets]} != {names}")
        for g, s in zip(got, res.sheets):
            for r1, r2 in zip(g, s.data):
                for a, b in zip(r1, r2):
                    if type(a) is not type(b):
                        out.append(f"type {type(a).__name__} != {type(b).__name__}")
        return out
    return chk


def typed_eq(got, want):
    if len(got) != len(want):
        return False
    for rg, rw in zip(got, want):
        if len(rg) != len(rw):
            return False
        for a, b in zip(rg, rw):
            if type(a) is not type(b) or a != b:
                return False
    return True


def short(grid) -> str:
    if grid is None:
        return "None"
    s = repr(grid)
    dims = f"{len(grid)}x{max((len(r) for r in grid), default=0)}"
    return s if len(s) <= 120 else f"<{dims} grid {s[:50]}...{s[-30:]}>"


def ods_case(name, grid, opts=None, want=None, images=None, extra=None):
    if want is None:
        want = [[ods_expected(c) for c in row] for row in grid]
        width = max((len(r) for r in want), default=0)
        want = [r + [None] * (width - len(r)) for r in want]
        while want and all(v is None for v in want[-1]):
            want.pop()
        last = max((i + 1 for r in want for i, v in enumerate(r) if v is not None), default=0)
        want = [r[:last] for r in want]

    def chk(res):
        out = []
        got = res.sheets[0].data if res.sheets else None
        if got is None or not typed_eq(got, want):
            out.append(f"data {short(got)} != {short(want)}")
        if res.sheets and res.sheets[0].name != "Nbcdfg":
            out.append(f"name {res.sheets[0].name!r}")
        if extra:
            out += extra(res) or []
        return out
    run_case("ods", name, S(grid), images, opts, check=chk)


def ods_cases():
    ods_case("s", [[["s", "Cbcdfg"]]])
    ods_case("s multiline / number-like / spaces", [[["s", "Cbcdfg\nCcdfgh"], ["s", "007"], ["s", " x  y "]]])
    ods_case("s empty string (typed string cell without text)", [[["s", ""], ["i", 1]]])
    ods_case("i", [[["i", 5], ["i", -3], ["i", 0], ["i", 2 ** 40]]])
    ods_case("f", [[["f", 1.5], ["f", 2.0], ["f", -0.25], ["f", 1e20], ["f", 1e-7]]])
    ods_case("b", [[["b", True], ["b", False]]])
    ods_case("d", [[["d", "2020-01-31"]]])
    ods_case("dt", [[["dt", "2020-01-31T12:30:00"]]])
    ods_case("tm", [[["tm", "12:30:00"], ["tm", "00:00:00"]]])
    ods_case("dur", [[["dur", 90000], ["dur", 61], ["dur", 1.5], ["dur", -3600]]])
    ods_case("err", [[["err", "#DIV/0!"], ["err", "#N/A"]]])
    ods_case("fml cached i / s / none / err", [[["i", 2], ["fml", "=A1*2", ["i", 4]], ["fml", 'A1&"x,y"', ["s", "Cbcdfg"]],
                                                ["fml", "=SUM(A1:B1,1)", None], ["fml", "=1/0", ["err", "#DIV/0!"]]]])
    ods_case("pct / cur (writer extensions)", [[["pct", 0.5], ["cur", 12.5, "EUR"], ["cur", 3, "USD"]]])
    ods_case("None cells and rows", [[None, ["s", "Cbcdfg"], None], [], [None, None, ["i", 1]], [None]])
    ods_case("ragged rows", [[["i", 1]], [["i", 2], ["i", 3], ["i", 4]], [["i", 5], ["i", 6]]])
    ods_case("every type in one row", [[["s", "Cbcdfg"], ["i", 5], ["f", 1.5], ["b", True], None, ["d", "2020-01-31"],
                                        ["dt", "2020-01-31T12:30:00"], ["tm", "12:30:00"], ["dur", 90000],
                                        ["err", "#DIV/0!"], ["fml", "=B1+C1", ["f", 6.5]]]])
    run_case("ods", "empty grid", S([]), check=lambda r: [] if r.sheets[0].data == [] else [f"{r.sheets[0].data}"])
    run_case("ods", "no sheets", ["doc", {}, []])
    two = ["doc", {}, [["sheet", "Nbcdfg", [[["s", "Cbcdfg"]]]], ["sheet", "Ncdfgh", [[["i", 1], ["s", "Ccdfgh"]]]]]]
    run_case("ods", "two sheets", two, check=ods_grid_check([[["Cbcdfg"]], [[1, "Ccdfgh"]]], ["Nbcdfg", "Ncdfgh"]))
    run_case("ods", "sheet name escapes", ["doc", {}, [["sheet", "N & <\"x\"> 'ü'", [[["i", 1]]]]]],
             check=lambda r: [] if r.sheets[0].name == "N & <\"x\"> 'ü'" else [f"name {r.sheets[0].name!r}"])
    run_case("ods", "metadata escapes + header/footer", S([[["s", "Cbcdfg"]]], meta=dict(META_HARD, header="Rbcdfg",
                                                                                       footer="Rcdfgh")))
    run_case("ods", "full text = name + cells", S([[["s", "Cbcdfg"], ["s", "Ccdfgh"]], [["s", "Cdfghj"]]]),
             check=lambda r: [] if r.get_full_text() == "Nbcdfg\nCbcdfg\tCcdfgh\nCdfghj"
             else [f"full text {r.get_full_text()!r}"])
    base = [[["s", "Cbcdfg"], ["i", 7]]]
    for n in (1, 2, 100, 101):
        ods_case(f"repeat empty cols={n}", base, {"repeat": {"cols": n, "on": "empty"}}, want=[["Cbcdfg", 7]])
        ods_case(f"repeat empty rows={n}", base, {"repeat": {"rows": n, "on": "empty"}}, want=[["Cbcdfg", 7]])
        ods_case(f"repeat empty cols={n} rows={n}", base, {"repeat": {"cols": n, "rows": n, "on": "empty"}},
                 want=[["Cbcdfg", 7]])
        ods_case(f"repeat value cols={n}", base, {"repeat": {"cols": n, "on": "value"}}, want=[["Cbcdfg"] + [7] * n])
        ods_case(f"repeat value rows={n}", base, {"repeat": {"rows": n, "on": "value"}}, want=[["Cbcdfg", 7]] * n)
        ods_case(f"repeat value cols={n} rows={n}", base, {"repeat": {"cols": n, "rows": n, "on": "value"}},
                 want=[["Cbcdfg"] + [7] * n] * n)
        ods_case(f"cell_repeat on a leading empty cell n={n}", [[None, ["i", 7]]], {"cell_repeat": [[0, 0, 0, n]]},
                 want=[[None] * n + [7]])
        ods_case(f"row_repeat on a leading empty row n={n}", [[None], [["i", 7]]], {"row_repeat": [[0, 0, n]]},
                 want=[[None]] * n + [[7]])
    t = time.perf_counter()
    data = odf.ods(S(base), None, {"repeat": {"cols": 10 ** 9, "rows": 10 ** 9, "on": "empty"}})
    data2 = odf.ods(S(base), None, {"repeat": {"cols": 10 ** 9, "rows": 10 ** 9, "on": "value"}})
    el = time.perf_counter() - t
    bad = validate_package(data, "ods") + validate_package(data2, "ods")
    if bad or el > 0.5 or len(data) > 20000:
        RESULTS["invalid"].append(("ods", "repeat 10**9", bad or f"{el:.2f}s / {len(data)} bytes"))
        line("WRITER-INVALID", "ods", "repeat 10**9", str(bad or el))
    else:
        RESULTS["ok"] += 1
        line("OK", "ods", f"repeat 10**9 written in {el * 1000:.1f} ms, {len(data)} bytes (not fed to the extractor)")
    imgs = {"k1": (PNG, "png", {"title": "Zbcdfg"}), "k2": (GIF, "gif")}
    ods_case("image in table:shapes + in a cell", [[["s", "Cbcdfg"], None]],
             {"images_at": [[0, "k1"], [0, 0, 1, "k2"]]}, images=imgs)
    expect_raises("ods", "unit in spreadsheet", D([P("Bbcdfg")]))
    expect_raises("ods", "unknown cell", S([[["zzz", 1]]]))
    expect_raises("ods", "unknown error", S([[["err", "#WHAT"]]]))
    expect_raises("ods", "nan", S([[["f", float("nan")]]]), ValueError)
    expect_raises("ods", "bad date", S([[["d", "31.01.2020"]]]), ValueError)
    expect_raises("ods", "repeat value on empty cell", S([[None]]), ValueError, opts={"repeat": {"cols": 2, "on": "value"}})
    expect_raises("ods", "images_at missing sheet", S([[None]]), ValueError, images=imgs, opts={"images_at": [[3, "k1"]]})
    for f, want in (("=SUM(A1:B2,1)", "of:=SUM([.A1:.B2];1)"), ("A1+Sheet2!C3", "of:=[.A1]+[$Sheet2.C3]"),
                    ("='My S'!$A$1&\"A1,x\"", "of:=[$'My S'.$A$1]&\"A1,x\""), ("LOG10(A1)+ATAN2(1,B2)",
                                                                                "of:=LOG10([.A1])+ATAN2(1;[.B2])"),
                    ("of:=[.A1]", "of:=[.A1]"), ("=1/0", "of:=1/0")):
        got = odf.to_openformula(f)
        if got == want:
            RESULTS["ok"] += 1
            line("OK", "ods", f"to_openformula {f}")
        else:
            RESULTS["invalid"].append(("ods", f"to_openformula {f}", got))
            line("WRITER-INVALID", "ods", f"to_openformula {f}", got)


def odf_cases():
    run_case("odf", "one identifier", D([P("Bbcdfg")]))
    run_case("odf", "two identifiers", D([P("Bbcdfg", "Bcdfgh")]))
    run_case("odf", "metadata escapes", D([P("Bbcdfg")], META_HARD))
    expect_raises("odf", "two paragraphs", D([P("Bbcdfg"), P("Bcdfgh")]))
    expect_raises("odf", "two units", ["doc", {}, [["unit", [P("Bbcdfg")], {}], ["unit", [P("Bcdfgh")], {}]]])
    expect_raises("odf", "tab", D([["p", [["t", "Bbcdfg"], ["tab"]]]]))
    expect_raises("odf", "heading", D([["h", 1, [["t", "Hbcdfg"]]]]))
    expect_raises("odf", "non-identifier", D([P("a+b")]))


if __name__ == "__main__":
    sys.exit(main())
