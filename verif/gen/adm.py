"""Abstract document model (ADM): the input alphabet shared by C02, C03, C04, C05, C06, C13, C14.

Everything is plain JSON (nested lists / dicts / str / int / float / bool / None) so that cases can be recorded,
shrunk by deleting list elements, fingerprinted and replayed.

    doc    = ["doc", meta, [unit, ...]]
             meta = {"title": str, "author": str, "subject": str, "keywords": str, "description": str}  (any subset)
                    optional keys "header": tok, "footer": tok  (page header / footer text, class R)
    unit   = ["unit", [block, ...], extras]       # page / slide / sheet-less text unit / chapter
             extras = {"notes": [tok...], "comments": [tok...], "name": tok}   (any subset; {} allowed)
    block  = ["p", [inline, ...]]
           | ["h", level(1..3), [inline, ...]]
           | ["ul", [item, ...]]                  item = [block, ...]        (lists nest through items)
           | ["tbl", [row, ...]]                  row = [cell, ...]  cell = [block, ...]  (tables nest through cells)
           | ["img", key]                         key indexes the `images` dict given to the renderer
           | ["pb"]                               explicit page break
    inline = ["t", tok] | ["tab"] | ["br"]
           | ["a", url, [inline, ...]]            hyperlink
           | ["ins", tok] | ["del", tok]          tracked insertion (visible) / deletion (hidden)
           | ["cref", tok]                        comment anchored here; tok is the comment body (hidden, class M)
           | ["fn", tok]                          footnote reference; tok is the footnote body (don't care, class Z)
           | ["sdt", [inline, ...]]               inline content control
           | ["box", [block, ...]]                text box anchored in this paragraph
           | ["math", omml_tree]                  formula (tree in the C19 grammar)
    sheet  = ["sheet", name_tok, [[cell, ...], ...]]      (spreadsheet unit; used instead of "unit")
             cell = None | ["s", str] | ["i", int] | ["f", float] | ["b", bool] | ["d", "YYYY-MM-DD"] | ["dt", "YYYY-MM-DDTHH:MM:SS"]
                  | ["tm", "HH:MM:SS"] | ["dur", seconds] | ["err", "#DIV/0!"] | ["fml", formula_text, cached_cell]

Token classes (first letter): B body, H heading, C cell, L list item, K link text, I inserted, S sdt/text-box, N sheet name;
hidden: D deleted, M comment, P speaker note, R header/footer, X removed markup; Z don't care.
A renderer declares CAPS (the constructor names it can express); `constructors(doc)` lists what a document uses.
"""
from __future__ import annotations

BOUNDARY_RANK = {"none": 0, "tab": 1, "br": 2, "para": 3, "cell": 3, "row": 3, "unit": 4}
VISIBLE_CLASSES = set("BHCLKISN")
HIDDEN_CLASSES = set("DMPRX")


def constructors(doc) -> set:
    out = set()

    def blocks(bs, depth_list=0, depth_tbl=0):
        for b in bs:
            k = b[0]
            out.add(k)
            if k in ("p", "h"):
                inl(b[-1])
            elif k == "ul":
                if depth_list:
                    out.add("ul-nested")
                for it in b[1]:
                    blocks(it, depth_list + 1, depth_tbl)
            elif k == "tbl":
                if depth_tbl:
                    out.add("tbl-nested")
                for row in b[1]:
                    for cell in row:
                        blocks(cell, depth_list, depth_tbl + 1)

    def inl(xs):
        for x in xs:
            out.add(x[0])
            if x[0] in ("a",):
                inl(x[2])
            elif x[0] == "sdt":
                inl(x[1])
            elif x[0] == "box":
                blocks(x[1])
    meta = doc[1] or {}
    for k in meta:
        out.add("meta:" + k)
    for u in doc[2]:
        out.add(u[0])
        if u[0] == "unit":
            blocks(u[1])
            for k, v in (u[2] or {}).items():
                if v:
                    out.add("extra:" + k)
    if len(doc[2]) > 1:
        out.add("multiunit")
    return out


def truth(doc):
    """Ground truth of a text document: dict with
       visible: list of (tok, boundary_before) in source order, boundary in none/tab/br/para/cell/row/unit
       hidden:  list of tokens that must not appear in the default full text
       dontcare: list of tokens whose presence is not judged
       units:   list (per unit) of the visible tokens of that unit
       tables:  list (document order, outermost first) of grids; grid = list of rows, row = list of cells, cell = list of toks
    """
    vis, hid, dc, units, tables = [], [], [], [], []
    state = {"b": "unit"}

    def emit(tok, ulist):
        c = tok[0]
        if c in HIDDEN_CLASSES:
            hid.append(tok)
            return
        if c == "Z":
            dc.append(tok)
            return
        vis.append((tok, state["b"]))
        ulist.append(tok)
        state["b"] = "none"

    def bump(b):
        if BOUNDARY_RANK[b] > BOUNDARY_RANK[state["b"]]:
            state["b"] = b

    def inl(xs, ulist, cellsink=None):
        for x in xs:
            k = x[0]
            if k == "t":
                emit(x[1], ulist)
                if cellsink is not None and x[1][0] not in HIDDEN_CLASSES and x[1][0] != "Z":
                    cellsink.append(x[1])
            elif k == "tab":
                bump("tab")
            elif k == "br":
                bump("br")
            elif k == "a":
                inl(x[2], ulist, cellsink)
            elif k == "ins":
                emit(x[1], ulist)
                if cellsink is not None:
                    cellsink.append(x[1])
            elif k == "del":
                hid.append(x[1])
            elif k == "cref":
                hid.append(x[1])
            elif k == "fn":
                dc.append(x[1])
            elif k == "sdt":
                inl(x[1], ulist, cellsink)
            elif k == "box":
                bump("para")
                blocks(x[1], ulist, cellsink)
                bump("para")
            elif k == "math":
                pass

    def blocks(bs, ulist, cellsink=None):
        for b in bs:
            k = b[0]
            if k in ("p", "h"):
                bump("para")
                inl(b[-1], ulist, cellsink)
                bump("para")
            elif k == "ul":
                for it in b[1]:
                    bump("para")
                    blocks(it, ulist, cellsink)
                    bump("para")
            elif k == "tbl":
                grid = []
                tables.append(grid)
                for row in b[1]:
                    bump("row")
                    grow = []
                    grid.append(grow)
                    for cell in row:
                        bump("cell")
                        sink = []
                        grow.append(sink)
                        blocks(cell, ulist, sink)
                        if cellsink is not None:
                            cellsink.extend(sink)
                        bump("cell")
                    bump("row")
            elif k == "pb":
                bump("para")
            elif k == "img":
                bump("para")

    meta = doc[1] or {}
    for k in ("header", "footer"):
        if meta.get(k):
            hid.append(meta[k])
    for u in doc[2]:
        ulist = []
        units.append(ulist)
        bump("unit")
        if u[0] == "unit":
            blocks(u[1], ulist)
            ex = u[2] or {}
            for t in ex.get("notes", []):
                hid.append(t)
            for t in ex.get("comments", []):
                hid.append(t)
        bump("unit")
    return {"visible": vis, "hidden": hid, "dontcare": dc, "units": units, "tables": tables}
