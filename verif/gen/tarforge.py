"""TAR writer with forgeable headers (POSIX.1-1988 ustar, POSIX.1-2001 pax, GNU tar).  Standard library only.

    tarforge(members, compression=None | "gz" | "bz2" | "xz", fmt="ustar" | "pax" | "gnu") -> bytes
    honest(members) -> bool            True iff no header field is forged
    raw_header(...) -> bytes           the hand-built 512-byte header block (used for forged sizes; the self-test compares it
                                       with tarfile.TarInfo.tobuf for every honest member)

members: list of dicts (unknown keys raise NotImplementedError)
    "name": str                  member path, written verbatim (absolute, "..", backslashes, empty, trailing "/" ... allowed)
    "type": "REG" (default) | "DIR" | "SYM" | "LNK" | "CHR" | "BLK" | "FIFO" | "AREG" (old-style '\\0' regular file) | "CONT"
    "data": bytes                content (REG / AREG / CONT only; other types carry no data)
    "linkname": str              link target for SYM / LNK
    "size_override": int | None  forged size field: the header says this, the data blocks still hold len(data) bytes
    "mode": int                  default 0o644 (0o755 for DIR, 0o777 for SYM)
    "mtime": int                 default 0
    "devmajor", "devminor": int  for CHR / BLK (default 1, 3)
Headers are produced by tarfile.TarInfo.tobuf (ustar: 100-byte name + 155-byte prefix split; pax: extended header records
for long / non-ASCII names; gnu: ././@LongLink members).  A name that the chosen format cannot express (ustar: no valid
prefix split; any format: NUL inside the name) raises NotImplementedError - choose pax or gnu.  A size_override that tarfile
refuses to format (negative, or too large for 11 octal digits) is patched into the finished header by hand: base-256
(GNU) encoding, checksum recomputed.  Output ends with two zero blocks and is padded to a multiple of 10240 bytes, like tar(1).
Deterministic: fixed mtime, numeric owner 0/0, empty uname/gname, gzip header without timestamp.
"""
from __future__ import annotations

import bz2
import gzip
import lzma
import tarfile

BLOCK = 512
RECORD = 10240
TYPES = {"REG": tarfile.REGTYPE, "AREG": tarfile.AREGTYPE, "CONT": tarfile.CONTTYPE, "DIR": tarfile.DIRTYPE, "SYM": tarfile.SYMTYPE,
         "LNK": tarfile.LNKTYPE, "CHR": tarfile.CHRTYPE, "BLK": tarfile.BLKTYPE, "FIFO": tarfile.FIFOTYPE}
DATA_TYPES = ("REG", "AREG", "CONT")
FORMATS = {"ustar": tarfile.USTAR_FORMAT, "pax": tarfile.PAX_FORMAT, "gnu": tarfile.GNU_FORMAT}
COMPRESSIONS = (None, "gz", "bz2", "xz")
MEMBER_KEYS = {"name", "type", "data", "linkname", "size_override", "mode", "mtime", "devmajor", "devminor"}
CAPS = ({"type:" + t for t in TYPES} | {"fmt:" + f for f in FORMATS} | {"compression:" + str(c) for c in COMPRESSIONS}
        | {"size_override", "linkname", "mode", "mtime", "devmajor", "devminor", "longname:pax", "longname:gnu", "prefix-split:ustar"})
ENC, ERR = "utf-8", "surrogateescape"


def _octal(n: int, digits: int) -> bytes:
    """POSIX numeric field: digits-1 octal digits + NUL; GNU base-256 (first byte 0x80 / 0xFF) when that does not fit"""
    if 0 <= n < 8 ** (digits - 1):
        return b"%0*o\x00" % (digits - 1, n)
    if -256 ** (digits - 1) <= n < 256 ** (digits - 1):
        if n >= 0:
            return b"\x80" + n.to_bytes(digits - 1, "big")
        return b"\xff" + (256 ** (digits - 1) + n).to_bytes(digits - 1, "big")
    raise ValueError(f"number {n} does not fit a {digits}-byte tar field")


def _checksum(block: bytes) -> int:
    """sum of all header bytes with the checksum field taken as eight spaces"""
    return sum(block[:148]) + 8 * 0x20 + sum(block[156:512])


def _with_checksum(block: bytes) -> bytes:
    return block[:148] + b"%06o\x00 " % _checksum(block) + block[156:]


def raw_header(name: bytes, typeflag: bytes, size: int, linkname: bytes = b"", mode: int = 0o644, mtime: int = 0, prefix: bytes = b"",
               magic: bytes = b"ustar\x0000", devmajor=None, devminor=None, uid: int = 0, gid: int = 0,
               uname: bytes = b"", gname: bytes = b"") -> bytes:
    """512-byte ustar-layout header block: name[100] mode[8] uid[8] gid[8] size[12] mtime[12] chksum[8] typeflag[1] linkname[100]
    magic[6] version[2] uname[32] gname[32] devmajor[8] devminor[8] prefix[155] pad[12].  (GNU: magic+version = b"ustar  \\0")"""
    if len(name) > 100 or len(linkname) > 100 or len(prefix) > 155 or len(typeflag) != 1 or len(magic) != 8:
        raise ValueError("field too long for a tar header block")
    dev = lambda v: bytes(8) if v is None else _octal(v, 8)       # noqa: E731
    block = b"".join([name.ljust(100, b"\x00"), _octal(mode & 0o7777, 8), _octal(uid, 8), _octal(gid, 8), _octal(size, 12),
                      _octal(mtime, 12), b" " * 8, typeflag, linkname.ljust(100, b"\x00"), magic, uname.ljust(32, b"\x00"),
                      gname.ljust(32, b"\x00"), dev(devmajor), dev(devminor), prefix.ljust(155, b"\x00"), bytes(12)])
    assert len(block) == BLOCK
    return _with_checksum(block)


def patch_size(block: bytes, size: int) -> bytes:
    """overwrite the size field of a finished 512-byte header and recompute its checksum"""
    return _with_checksum(block[:124] + _octal(size, 12) + block[136:])


def _check(m):
    unknown = set(m) - MEMBER_KEYS
    if unknown:
        raise NotImplementedError(f"tar member keys {sorted(unknown)}")
    t = m.get("type") or "REG"
    if t not in TYPES:
        raise NotImplementedError(f"tar member type {t!r}")
    name = m.get("name")
    if not isinstance(name, str):
        raise ValueError("tar member needs a str name")
    data = bytes(m.get("data") or b"")
    if data and t not in DATA_TYPES:
        raise ValueError(f"a {t} member carries no data blocks (use size_override to forge a size)")
    link = m.get("linkname") or ""
    if "\x00" in name or "\x00" in link:
        raise NotImplementedError("NUL inside a tar name: header fields are NUL-terminated")
    return t, name, data, link


def honest(members) -> bool:
    for m in members:
        _check(m)
        if m.get("size_override") is not None:
            return False
    return True


def _tarinfo(m, t, name, data, link, size):
    ti = tarfile.TarInfo(name)
    ti.type = TYPES[t]
    ti.size = size
    ti.linkname = link
    ti.mode = m["mode"] if m.get("mode") is not None else {"DIR": 0o755, "SYM": 0o777}.get(t, 0o644)
    ti.mtime = int(m.get("mtime") or 0)
    ti.uid = ti.gid = 0
    ti.uname = ti.gname = ""
    if t in ("CHR", "BLK"):
        ti.devmajor = m["devmajor"] if m.get("devmajor") is not None else 1
        ti.devminor = m["devminor"] if m.get("devminor") is not None else 3
    return ti


def member_bytes(m, fmt: str = "ustar") -> bytes:
    """header block(s) + padded data blocks of one member"""
    if fmt not in FORMATS:
        raise NotImplementedError(f"tar format {fmt!r}")
    t, name, data, link = _check(m)
    tf = FORMATS[fmt]
    try:
        head = _tarinfo(m, t, name, data, link, len(data)).tobuf(tf, ENC, ERR)
    except ValueError as e:
        raise NotImplementedError(f"name {name[:40]!r}... / linkname not expressible in {fmt} format ({e}); use pax or gnu") from e
    forged = m.get("size_override")
    if forged is not None:
        forged = int(forged)
        try:
            if forged < 0:
                raise ValueError("negative size: always patched by hand (tarfile's pax writer would move it to a pax record)")
            head = _tarinfo(m, t, name, data, link, forged).tobuf(tf, ENC, ERR)
        except ValueError:
            head = head[:-BLOCK] + patch_size(head[-BLOCK:], forged)
    return head + data + bytes(-len(data) % BLOCK)


def tarforge(members, compression=None, fmt: str = "ustar") -> bytes:
    if compression not in COMPRESSIONS:
        raise NotImplementedError(f"tar compression {compression!r}")
    if fmt not in FORMATS:
        raise NotImplementedError(f"tar format {fmt!r}")
    raw = b"".join(member_bytes(m, fmt) for m in members) + bytes(2 * BLOCK)
    raw += bytes(-len(raw) % RECORD)
    if compression == "gz":
        return gzip.compress(raw, compresslevel=6, mtime=0)
    if compression == "bz2":
        return bz2.compress(raw, 9)
    if compression == "xz":
        return lzma.compress(raw, format=lzma.FORMAT_XZ, preset=1)
    return raw
