"""Self-test of verif.gen.cfb.   PYTHONPATH=/verif /venv/bin/python -B -m verif.gen.selftest_cfb

Independent readers: (1) olefile with raise_defects=DEFECT_UNSURE (any oddity raises), (2) xlrd.compdoc, (3) `strict_read`
below: a from-scratch reader that additionally enforces what the tolerant readers do not look at ([MS-CFB] sibling order,
red-black properties, free directory entries, FAT bookkeeping).  WRITER-INVALID = one of them rejects a non-forged file.
The only library code that looks at a bare CFB is encryption detection (is_ooxml_encrypted); disagreements there are
reported as EXTRACTOR-DISAGREES.
"""
from __future__ import annotations

import io
import struct
import sys

import olefile
import xlrd.compdoc

from verif.gen import cfb as C

RESULTS = {"ok": 0, "WRITER-INVALID": 0, "EXTRACTOR-DISAGREES": 0, "info": 0}


def report(kind, name, detail=""):
    RESULTS[kind] += 1
    print("%-20s %s%s" % (kind if kind != "ok" else "ok", name, (" :: " + detail) if detail else ""))


# ---------------------------------------------------------------------------------------------------------------------
def strict_read(data: bytes):
    """Returns ({path: bytes}, [problem, ...]); written against [MS-CFB] only (shares no code with the writer)."""
    prob = []
    if data[:8] != b"\xd0\xcf\x11\xe0\xa1\xb1\x1a\xe1":
        return {}, ["signature"]
    if data[8:24] != b"\0" * 16:
        prob.append("header CLSID not zero")
    minor, major, bom, shift, mshift = struct.unpack_from("<HHHHH", data, 24)
    if (major, shift) not in ((3, 9), (4, 12)):
        return {}, ["version/sector shift %r" % ((major, shift),)]
    if minor != 0x3E or bom != 0xFFFE or mshift != 6 or data[34:40] != b"\0" * 6:
        prob.append("header constants")
    SS = 1 << shift
    ndirsec, nfat, dirstart, txn, cutoff, mfstart, nmf, difstart, ndif = struct.unpack_from("<9I", data, 40)
    if cutoff != 4096 or txn != 0:
        prob.append("cutoff/transaction")
    if major == 3 and ndirsec != 0:
        prob.append("v3 directory sector count must be 0")
    if major == 4 and data[512:SS] != b"\0" * (SS - 512):
        prob.append("v4 header padding")
    if (len(data) - SS) % SS or len(data) < SS:
        return {}, ["file size not a whole number of sectors"]
    nsec = (len(data) - SS) // SS

    def sector(i):
        if i >= nsec:
            raise IndexError("sector %d out of range" % i)
        return data[SS + i * SS: SS + (i + 1) * SS]
    try:
        difat = list(struct.unpack_from("<109I", data, 76))
        role = {}
        s, seen = difstart, 0
        while s != 0xFFFFFFFE:
            if s in role:
                return {}, ["DIFAT loop"]
            role[s] = "difat"
            seen += 1
            v = struct.unpack("<%dI" % (SS // 4), sector(s))
            difat += v[:-1]
            s = v[-1]
        if seen != ndif:
            prob.append("DIFAT sector count")
        fatsecs = [x for x in difat if x != 0xFFFFFFFF]
        if len(fatsecs) != nfat or difat[:nfat] != fatsecs:
            prob.append("FAT sector list")
        fat = []
        for s in fatsecs:
            if s in role:
                prob.append("FAT sector reused")
            role[s] = "fat"
            fat += struct.unpack("<%dI" % (SS // 4), sector(s))
        if len(fat) < nsec:
            prob.append("FAT shorter than file")
        for s, r in role.items():
            if fat[s] != (0xFFFFFFFD if r == "fat" else 0xFFFFFFFC):
                prob.append("sector %d not marked %s in FAT" % (s, r))
        used = set(role)

        def chain(start, table, owner, usedset, limit):
            out = []
            s = start
            while s != 0xFFFFFFFE:
                if s >= limit or s in usedset:
                    raise ValueError("chain of %s broken at %r" % (owner, s))
                usedset.add(s)
                out.append(s)
                s = table[s]
            return out
        dirsecs = chain(dirstart, fat, "directory", used, nsec)
        if major == 4 and ndirsec != len(dirsecs):
            prob.append("v4 directory sector count")
        ddata = b"".join(sector(s) for s in dirsecs)
        ents = []
        for i in range(len(ddata) // 128):
            e = ddata[i * 128:(i + 1) * 128]
            nlen, typ, color, left, right, child = struct.unpack_from("<HBBIII", e, 64)
            start, size = struct.unpack_from("<IQ", e, 116)
            if typ == 0:
                if e[:68] != b"\0" * 68 or e[80:] != b"\0" * 48 or (left, right, child) != (0xFFFFFFFF,) * 3:
                    prob.append("free directory entry %d not blank" % i)
                ents.append(None)
                continue
            if nlen < 4 or nlen > 64 or nlen % 2 or e[nlen - 2:nlen] != b"\0\0" or e[nlen:64] != b"\0" * (64 - nlen):
                prob.append("directory entry %d name field" % i)
            name = e[:nlen - 2].decode("utf-16-le")
            if e[100:116] != b"\0" * 16 and typ == 2:
                prob.append("stream %d has timestamps" % i)
            ents.append(dict(name=name, typ=typ, color=color, left=left, right=right, child=child, start=start, size=size,
                             clsid=e[80:96]))
        root = ents[0]
        if not root or root["typ"] != 5 or root["name"] != "Root Entry" or (root["left"], root["right"]) != (0xFFFFFFFF,) * 2:
            return {}, prob + ["root entry"]
        minisecs = chain(root["start"], fat, "mini stream", used, nsec) if root["size"] else []
        if root["size"] == 0 and root["start"] != 0xFFFFFFFE:
            prob.append("empty mini stream start")
        ministream = b"".join(sector(s) for s in minisecs)
        if root["size"] % 64 or len(ministream) < root["size"] or len(ministream) - root["size"] >= SS:
            prob.append("mini stream size")
        mfsecs = chain(mfstart, fat, "mini FAT", used, nsec)
        if len(mfsecs) != nmf:
            prob.append("mini FAT sector count")
        minifat = []
        for s in mfsecs:
            minifat += struct.unpack("<%dI" % (SS // 4), sector(s))
        miniused = set()

        def key(name):
            up = "".join(c.upper() if len(c.upper()) == 1 else c for c in name).encode("utf-16-be")
            return (len(up), up)
        visited = set([0])
        out = {}

        def walk_tree(sid, lo, hi, parent_red, path):
            """returns black height; checks order (lo < key < hi), colours"""
            if sid == 0xFFFFFFFF:
                return 1
            if sid >= len(ents) or ents[sid] is None or sid in visited:
                raise ValueError("directory tree broken at %r" % sid)
            visited.add(sid)
            e = ents[sid]
            k = key(e["name"])
            if (lo is not None and not lo < k) or (hi is not None and not k < hi):
                prob.append("sibling order violated at %r" % e["name"])
            red = e["color"] == 0
            if e["color"] not in (0, 1):
                prob.append("colour byte of %r" % e["name"])
            if red and parent_red:
                prob.append("red node with red parent: %r" % e["name"])
            a = walk_tree(e["left"], lo, k, red, path)
            handle(sid, path)
            b = walk_tree(e["right"], k, hi, red, path)
            if a != b:
                prob.append("black heights differ below %r" % e["name"])
            return a + (0 if red else 1)

        def handle(sid, path):
            e = ents[sid]
            p = path + e["name"]
            if e["typ"] == 1:
                if e["start"] != 0 or e["size"] != 0:
                    prob.append("storage %r has start/size" % p)
                if e["child"] == 0xFFFFFFFF:
                    out[p + "/"] = b""
                else:
                    top = ents[e["child"]] if e["child"] < len(ents) else None
                    if top and top["color"] != 1:
                        prob.append("tree root of %r is red" % p)
                    walk_tree(e["child"], None, None, False, p + "/")
            elif e["typ"] == 2:
                if e["child"] != 0xFFFFFFFF:
                    prob.append("stream %r has a child" % p)
                if e["size"] == 0:
                    if e["start"] != 0xFFFFFFFE:
                        prob.append("empty stream %r start" % p)
                    out[p] = b""
                elif e["size"] < 4096:
                    secs = chain(e["start"], minifat, p, miniused, len(ministream) // 64)
                    if len(secs) != -(-e["size"] // 64):
                        prob.append("mini chain length of %r" % p)
                    out[p] = b"".join(ministream[s * 64:(s + 1) * 64] for s in secs)[:e["size"]]
                else:
                    secs = chain(e["start"], fat, p, used, nsec)
                    if len(secs) != -(-e["size"] // SS):
                        prob.append("chain length of %r" % p)
                    out[p] = b"".join(sector(s) for s in secs)[:e["size"]]
            else:
                prob.append("entry type %d" % e["typ"])
        if root["child"] != 0xFFFFFFFF:
            top = ents[root["child"]]
            if top and top["color"] != 1:
                prob.append("tree root of root storage is red")
            walk_tree(root["child"], None, None, False, "")
        for i, e in enumerate(ents):
            if e is not None and i not in visited:
                prob.append("unreachable directory entry %d" % i)
        for s in range(nsec):
            if (fat[s] != 0xFFFFFFFF) != (s in used):
                prob.append("FAT bookkeeping of sector %d" % s)
                break
        for s in range(len(minifat)):
            if (minifat[s] != 0xFFFFFFFF) != (s in miniused):
                prob.append("mini FAT bookkeeping of sector %d" % s)
                break
        return out, prob
    except (ValueError, IndexError, struct.error) as e:
        return {}, prob + ["%s: %s" % (type(e).__name__, e)]


def olefile_read(data: bytes):
    out = {}
    with olefile.OleFileIO(io.BytesIO(data), raise_defects=olefile.DEFECT_UNSURE) as ole:
        for p in ole.listdir(streams=True, storages=False):
            out["/".join(p)] = ole.openstream(p).read()
        storages = ["/".join(p) + "/" for p in ole.listdir(streams=False, storages=True)]
        for s in storages:          # a storage without any entry below it is reported as "path/"
            if not any(k != s and k.startswith(s) for k in list(out) + storages):
                out[s] = b""
        if ole.parsing_issues:
            raise ValueError("olefile parsing issues: %r" % (ole.parsing_issues,))
    return out


def xlrd_read(data: bytes, paths):
    log = io.StringIO()
    cd = xlrd.compdoc.CompDoc(data, logfile=log)
    out = {}
    for p in paths:
        if p.endswith("/"):
            continue
        out[p] = cd.get_named_stream(p)
    if log.getvalue().strip():
        raise ValueError("xlrd.compdoc warnings: " + log.getvalue().strip()[:200])
    return out


def validate(name: str, streams: dict, data: bytes, use_xlrd=True) -> bool:
    """all independent readers must return exactly the input streams"""
    want = {k: bytes(v) for k, v in streams.items()}
    good = True
    got, prob = strict_read(data)
    if prob or got != want:
        report("WRITER-INVALID", name, "strict reader: %s" % (prob or "content differs: %r" % sorted(set(got) ^ set(want)),))
        good = False
    try:
        got = olefile_read(data)
        if got != want:
            report("WRITER-INVALID", name, "olefile content differs")
            good = False
    except Exception as e:
        report("WRITER-INVALID", name, "olefile: %s: %s" % (type(e).__name__, e))
        good = False
    if use_xlrd:
        try:
            got = xlrd_read(data, want)
            for k, v in got.items():
                if v != want[k]:
                    report("WRITER-INVALID", name, "xlrd.compdoc content of %r differs" % k)
                    good = False
        except Exception as e:
            report("WRITER-INVALID", name, "xlrd.compdoc: %s: %s" % (type(e).__name__, e))
            good = False
    if good:
        report("ok", name, "%d bytes" % len(data))
    return good


def pat(n: int, seed: int = 0) -> bytes:
    return bytes((i * 7 + seed * 13 + (i >> 8)) & 0xFF for i in range(n))


def main():
    # --- stream sizes around sector / mini sector / cutoff boundaries
    validate("no streams", {}, C.cfb({}), use_xlrd=False)
    for n in (0, 1, 63, 64, 65, 511, 512, 513, 4095, 4096, 4097, 8192, 70000):
        validate("one stream of %d bytes" % n, {"S": pat(n)}, C.cfb({"S": pat(n)}))
    mix = {"Workbook": pat(5000, 1), "\x05SummaryInformation": pat(200, 2), "Tiny": b"x", "Empty": b"", "Big2": pat(4096, 3),
           "mini4095": pat(4095, 4)}
    validate("mixed mini/FAT streams", mix, C.cfb(mix))
    # --- directory tree shapes: every sibling count 1..40, both layouts
    for layout in ("balanced", "list"):
        bad = 0
        for n in range(1, 41):
            st = {"N%d%s" % (i, "x" * (i % 5)): pat(10 + i, i) for i in range(n)}
            data = C.cfb(st, {"dir_layout": layout})
            got, prob = strict_read(data)
            if layout == "list":           # a list is BST-ordered but not black-balanced: only the balance complaints are expected
                prob = [p for p in prob if not p.startswith("black heights")]
            try:
                o = olefile_read(data)
            except Exception as e:
                o, prob = None, prob + ["olefile %s" % e]
            if prob or got != st or o != st:
                bad += 1
                report("WRITER-INVALID", "%d siblings, layout %s" % (n, layout), str(prob))
        if not bad:
            report("ok", "1..40 siblings, layout %s" % layout)
    # --- names: case-insensitive order, length-first order, non-ASCII, 31 characters
    names = {"b": b"1", "A": b"2", "aa": b"3", "Z": b"4", "\x05SummaryInformation": b"5", "\x01CompObj": b"6", "é": b"7", "É2": b"8",
             "n" * 31: b"9", "Ünïcode 名前": b"10", "PowerPoint Document": pat(100)}
    validate("name ordering / unicode names", names, C.cfb(names))
    for badname in ("a:b", "x" * 32, "ex!cl"):
        try:
            C.cfb({badname: b""})
            report("WRITER-INVALID", "invalid name %r accepted" % badname)
        except ValueError:
            report("ok", "invalid name %r refused" % badname)
    try:
        C.cfb({"Dup": b"", "dup": b"1"})
        report("WRITER-INVALID", "case-colliding names accepted")
    except ValueError:
        report("ok", "case-colliding names refused")
    # --- storages
    nested = {"Top": pat(10), "St/A": pat(70, 1), "St/B": pat(5000, 2), "St/Sub/Deep": pat(3, 3), "St/Sub/Deeper/X": b"", "Empty/": b"",
              "St2/E/": b"", "\x06DataSpaces/Version": pat(76)}
    validate("nested storages, empty storages", nested, C.cfb(nested))
    data = C.cfb({"a": b"1", "S/b": b"2"}, {"clsid": {"": C.CLSID_PPT, "S": C.CLSID_XLS}})
    with olefile.OleFileIO(io.BytesIO(data)) as ole:
        got = (ole.root.clsid, ole.getclsid("S"))
    if got == (C.CLSID_PPT, C.CLSID_XLS):
        report("ok", "CLSIDs of root and storage")
    else:
        report("WRITER-INVALID", "CLSIDs", repr(got))
    # --- version 4 and > 109 FAT sectors (DIFAT sectors)
    v4 = {"Workbook": pat(100000, 5), "small": pat(100, 6), "S/x": pat(4096, 7)}
    validate("version 4 (4096-byte sectors)", v4, C.cfb(v4, {"version": 4}), use_xlrd=False)
    big = {"Huge": pat(7_300_000, 8), "Also": pat(9000, 9), "m": b"mini"}
    d = C.cfb(big)
    nfat, ndif = struct.unpack_from("<I", d, 44)[0], struct.unpack_from("<I", d, 72)[0]
    validate("%d FAT sectors, %d DIFAT sector(s)" % (nfat, ndif), big, d)
    if ndif < 1:
        report("WRITER-INVALID", "DIFAT case did not need a DIFAT sector")
    big2 = {"Huge": pat(16_000_000, 8)}
    d = C.cfb(big2)
    validate("%d DIFAT sectors" % struct.unpack_from("<I", d, 72)[0], big2, d)
    # --- determinism
    if C.cfb(mix) == C.cfb(dict(mix)) and C.cfb(nested) == C.cfb(dict(reversed(list(nested.items())))):
        report("ok", "deterministic, independent of dict order")
    else:
        report("WRITER-INVALID", "output depends on dict order")

    # --- forged fields: the strict reader must notice every forgery; report what olefile does (information)
    base = {"Workbook": pat(6000, 1), "Mini": pat(300, 2), "Other": pat(10, 3)}
    forged = [("sector_shift 0", {"sector_shift": 0}), ("sector_shift 8", {"sector_shift": 8}), ("sector_shift 12 in v3", {"sector_shift": 12}),
              ("sector_shift 31", {"sector_shift": 31}), ("sector_shift 0xFFFF", {"sector_shift": 0xFFFF}),
              ("fat_cycle FAT stream", {"fat_cycle": "Workbook"}), ("fat_cycle mini stream", {"fat_cycle": "Mini"}),
              ("fat_cycle directory", {"fat_cycle": "<dir>"}), ("fat_cycle mini FAT", {"fat_cycle": "<minifat>"}),
              ("fat_cycle mini stream container", {"fat_cycle": "<ministream>"}),
              ("dir_cycle", {"dir_cycle": True}), ("dir_cycle list", {"dir_cycle": True, "dir_layout": "list"}),
              ("size_override larger", {"size_override": {"Workbook": 10 ** 7}}), ("size_override huge", {"size_override": {"Mini": 2 ** 40}}),
              ("size_override smaller", {"size_override": {"Workbook": 4096}}), ("size_override mini->FAT", {"size_override": {"Mini": 5000}}),
              ("header_patch byte order", {"header_patch": {28: b"\xff\xff"}})]
    for name, o in forged:
        data = C.cfb(base, o)
        got, prob = strict_read(data)
        if not prob and got == base:
            report("WRITER-INVALID", "forgery %s has no effect" % name)
            continue
        try:
            with olefile.OleFileIO(io.BytesIO(data)) as ole:
                r = {"/".join(p): len(ole.openstream(p).read()) for p in ole.listdir()}
            verdict = "olefile reads %r" % r
        except Exception as e:
            verdict = "olefile raises %s: %s" % (type(e).__name__, str(e)[:60])
        report("info", "forged %-32s" % name, "strict: %s | %s" % (prob[0] if prob else "content differs", verdict))
    if C.cfb(base, {"size_override": {}, "dir_cycle": False}) != C.cfb(base):
        report("WRITER-INVALID", "neutral opts change the output")

    # --- property sets (olefile is the independent reader)
    meta = {"title": "Ttitle", "subject": "Tsubj", "author": "Tauth", "keywords": "k1 k2", "comments": "Cmt", "last_saved_by": "me",
            "created": "2020-01-02T03:04:05", "modified": "2021-02-03T04:05:06", "company": "ACME", "category": "cat", "manager": "boss",
            "slides": 3, "creating_application": "verif", "revision_number": "7"}
    for label, m in (("ascii", meta), ("cp1252", dict(meta, title="Café €")), ("utf-8", dict(meta, title="Zażółć 名前"))):
        st = C.summary_streams(m)
        data = C.cfb(dict(st, Workbook=b"x"))
        try:
            with olefile.OleFileIO(io.BytesIO(data), raise_defects=olefile.DEFECT_UNSURE) as ole:
                md = ole.get_metadata()
                cp = md.codepage
                codec = {1252: "cp1252", 65001: "utf-8", -535: "utf-8"}[cp]
                got = {"title": md.title.decode(codec), "subject": md.subject.decode(codec), "author": md.author.decode(codec),
                       "keywords": md.keywords.decode(codec), "comments": md.comments.decode(codec),
                       "last_saved_by": md.last_saved_by.decode(codec), "created": md.create_time.isoformat(),
                       "modified": md.last_saved_time.isoformat(), "company": md.company.decode(codec),
                       "category": md.category.decode(codec), "manager": md.manager.decode(codec), "slides": md.slides,
                       "creating_application": md.creating_application.decode(codec), "revision_number": md.revision_number.decode(codec)}
            if got == m:
                report("ok", "summary information (%s, code page %s)" % (label, cp))
            else:
                report("WRITER-INVALID", "summary information (%s)" % label, repr({k: (got[k], m[k]) for k in m if got[k] != m[k]}))
        except Exception as e:
            report("WRITER-INVALID", "summary information (%s)" % label, "%s: %s" % (type(e).__name__, e))

    # --- encrypted OOXML shell
    from sharepoint2text.parsing.extractors.util.encryption import is_ooxml_encrypted
    from sharepoint2text.parsing.exceptions import ExtractionFileEncryptedError
    from sharepoint2text.parsing.extractors.ms_modern.docx_extractor import read_docx
    from sharepoint2text.parsing.extractors.ms_modern.xlsx_extractor import read_xlsx
    from sharepoint2text.parsing.extractors.ms_modern.pptx_extractor import read_pptx
    full = ("EncryptionInfo", "EncryptedPackage", "DataSpaces")
    for subset in (full, ("EncryptionInfo", "EncryptedPackage"), ("EncryptionInfo",), ("EncryptedPackage",), ("DataSpaces",)):
        data = C.ooxml_encrypted_shell(subset)
        got, prob = strict_read(data)
        try:
            o = olefile_read(data)
        except Exception as e:
            o, prob = None, prob + ["olefile: %s" % e]
        if prob or o != got:
            report("WRITER-INVALID", "encrypted shell %r" % (subset,), str(prob))
            continue
        report("ok", "encrypted shell %r: %s" % (subset, sorted(k.replace("\x06", "\\x06") for k in got)))
        det = is_ooxml_encrypted(io.BytesIO(data))
        if not det:
            report("EXTRACTOR-DISAGREES", "is_ooxml_encrypted(%r) -> False" % (subset,),
                   "the storage is named \\x06DataSpaces in real files; the library looks for 'DataSpaces'" if subset == ("DataSpaces",) else "")
        if subset == full:
            for rd in (read_docx, read_xlsx, read_pptx):
                try:
                    next(rd(io.BytesIO(data), None))
                    report("EXTRACTOR-DISAGREES", "%s on encrypted shell returned a result" % rd.__name__)
                except ExtractionFileEncryptedError:
                    report("ok", "%s raises ExtractionFileEncryptedError on the shell" % rd.__name__)
                except Exception as e:
                    report("EXTRACTOR-DISAGREES", "%s on encrypted shell" % rd.__name__, "%s: %s" % (type(e).__name__, e))
    real = "/repo/sharepoint2text/tests/resources/legacy_ms/password_protected/docx-password-protected-pw123.docx"
    try:
        with olefile.OleFileIO(real) as ole:
            ref = {"/".join(p): ole.openstream(p).read() for p in ole.listdir()}
        prob = []
        mine, _ = strict_read(C.ooxml_encrypted_shell())
        same = [k for k in mine if k.startswith("\x06DataSpaces") and ref.get(k.replace("\x06Primary", "Primary"), ref.get(k)) == mine[k]]
        n = len([k for k in mine if k.startswith("\x06DataSpaces")])
        report("ok" if len(same) == n else "WRITER-INVALID", "DataSpaces streams byte-identical to a Word-encrypted fixture: %d/%d" % (len(same), n),
               "" if not prob else "fixture itself: %s" % prob[:2])
    except OSError:
        report("info", "encrypted fixture not available")

    print("\nSUMMARY cfb: %d ok, %d WRITER-INVALID, %d EXTRACTOR-DISAGREES, %d info" %
          (RESULTS["ok"], RESULTS["WRITER-INVALID"], RESULTS["EXTRACTOR-DISAGREES"], RESULTS["info"]))
    return 0


if __name__ == "__main__":
    sys.exit(main())
