"""Reference writers for the plain-text family: .txt, .csv, .md, .json.

    txt(doc, opts=None)   -> bytes     CAPS_TXT
    csv(doc, opts=None)   -> bytes     CAPS_CSV
    md(doc, opts=None)    -> bytes     CAPS_MD
    json_(doc, opts=None) -> bytes     CAPS_JSON
    CAPS_PLAIN = {"txt": CAPS_TXT, "csv": CAPS_CSV, "md": CAPS_MD, "json": CAPS_JSON}

Common opts
    "encoding":      "ascii" | "utf-8" (default) | "utf-8-sig" | "utf-16"  ("utf-16" = BOM FF FE + UTF-16LE, fixed byte order)
    "newline":       "\\n" (default) | "\\r\\n"
    "final_newline": True (default) | False      -- whether the last line is terminated
A character that the encoding cannot hold raises NotImplementedError. None of the formats can carry document
metadata, header/footer, notes, images, revisions, comments or footnotes: those raise NotImplementedError.

txt    one line per ["p"]/["h"] block; the ["t"] tokens of a block are joined by a single space, ["tab"] is a TAB
       character, ["br"] a line break; an empty paragraph is an empty line; units are separated by one blank line.
csv    RFC 4180. One unit only: either ["sheet", name, grid] or a ["unit"] holding exactly one ["tbl"]. A field is
       quoted when it contains the delimiter, a quote, CR or LF (quotes doubled). Table cells: the ["p"]/["h"] blocks
       of a cell are joined by a line break inside the (then quoted) field. Sheet cells: None -> empty, s/err -> text,
       i -> decimal, f -> repr, b -> TRUE/FALSE, d/dt/tm -> the ISO text, dur -> [h]:mm:ss, fml -> its cached value
       (opts "formulas": True writes "=formula" instead). The sheet name cannot be stored in a CSV file and is NOT written.
       opts "delimiter": "," (default) or e.g. "\\t".
md     CommonMark. ["h", n] -> "#"*n + " text"; ["p"] -> paragraph; blocks separated by one blank line; ["br"] -> hard
       line break (opts "md_br": "spaces" (default, two trailing spaces) | "backslash"); ["tab"] -> TAB character;
       ["a"] -> [text](url); ["ul"] -> "- " items, nested lists and further paragraphs of an item indented by two
       spaces; units are separated by a thematic break "---" between blank lines. Markdown punctuation in text is
       backslash-escaped. An empty paragraph cannot be expressed (NotImplementedError).
json   json.dumps of the flat list of paragraph strings (one per ["p"]/["h"] block, tokens joined by one space) of a
       single unit. ["tab"]/["br"] are not accepted because JSON stores them as the two-character escapes \\t / \\n,
       i.e. not as white space in the file. opts "indent": None (default) | int; "ensure_ascii": default True only for
       encoding "ascii".
"""
from __future__ import annotations

import json
import re

_BASE = {"unit", "p", "h", "t"}
CAPS_TXT = frozenset(_BASE | {"multiunit", "tab", "br"})
CAPS_CSV = frozenset({"unit", "sheet", "tbl", "p", "h", "t", "tab", "br"})
CAPS_MD = frozenset(_BASE | {"multiunit", "tab", "br", "a", "ul", "ul-nested"})
CAPS_JSON = frozenset(_BASE)
CAPS_PLAIN = {"txt": CAPS_TXT, "csv": CAPS_CSV, "md": CAPS_MD, "json": CAPS_JSON}

_COMMON_OPTS = ("encoding", "newline", "final_newline")


# ----------------------------------------------------------------------------------------------------------------------
# shared helpers
# ----------------------------------------------------------------------------------------------------------------------

def _opts(opts, extra=()):
    o = dict(opts or {})
    for k in o:
        if k not in _COMMON_OPTS and k not in extra:
            raise ValueError("unknown option %r" % k)
    enc = o.get("encoding", "utf-8")
    if enc not in ("ascii", "utf-8", "utf-8-sig", "utf-16"):
        raise ValueError("encoding must be ascii, utf-8, utf-8-sig or utf-16")
    nl = o.get("newline", "\n")
    if nl not in ("\n", "\r\n"):
        raise ValueError("newline must be LF or CRLF")
    return o, enc, nl, bool(o.get("final_newline", True))


def _encode(text: str, enc: str, nl: str, final: bool) -> bytes:
    """text uses LF internally."""
    if final and text and not text.endswith("\n"):
        text += "\n"
    if nl != "\n":
        text = text.replace("\n", nl)
    try:
        if enc == "utf-16":
            return b"\xff\xfe" + text.encode("utf-16-le")
        return text.encode(enc)
    except UnicodeEncodeError:
        raise NotImplementedError("text cannot be encoded as %s" % enc)


def _check_doc(doc, multi: bool):
    if doc[0] != "doc":
        raise ValueError("not a doc")
    for k in (doc[1] or {}):
        raise NotImplementedError("meta key %r cannot be expressed in a plain-text format" % k)
    if len(doc[2]) > 1 and not multi:
        raise NotImplementedError("several units cannot be expressed in this format")


def _check_unit(u):
    if u[0] != "unit":
        raise NotImplementedError("unit kind %r cannot be expressed in this format" % (u[0],))
    for k, v in (u[2] or {}).items():
        if v:
            raise NotImplementedError("unit extra %r cannot be expressed in a plain-text format" % k)


def _line(inls, allow=("tab", "br"), text=lambda s: s, br="\n") -> str:
    """Inline list -> text: neighbouring tokens joined by one space, TAB for ["tab"], `br` for ["br"]."""
    out = []
    prev = False
    for x in inls:
        k = x[0]
        if k == "t":
            if "\n" in x[1] or "\r" in x[1]:
                raise NotImplementedError("line break inside a text token")
            if prev:
                out.append(" ")
            out.append(text(x[1]))
            prev = True
        elif k == "tab" and "tab" in allow:
            out.append("\t")
            prev = False
        elif k == "br" and "br" in allow:
            out.append(br)
            prev = False
        else:
            raise NotImplementedError("inline %r cannot be expressed in this format" % (k,))
    return "".join(out)


def _para_blocks(bs):
    for b in bs:
        if b[0] == "p":
            yield b[1]
        elif b[0] == "h":
            if b[1] not in (1, 2, 3):
                raise NotImplementedError("heading level %r" % (b[1],))
            yield b[2]
        else:
            raise NotImplementedError("block %r cannot be expressed in this format" % (b[0],))


# ----------------------------------------------------------------------------------------------------------------------
# txt
# ----------------------------------------------------------------------------------------------------------------------

def txt(doc, opts=None) -> bytes:
    o, enc, nl, final = _opts(opts)
    _check_doc(doc, True)
    lines = []
    for i, u in enumerate(doc[2]):
        _check_unit(u)
        if i:
            lines.append("")                     # one blank line between units
        lines.extend(_line(inl) for inl in _para_blocks(u[1]))
    text = "\n".join(lines)
    if final and lines:
        text += "\n"
    return _encode(text, enc, nl, False)


# ----------------------------------------------------------------------------------------------------------------------
# csv
# ----------------------------------------------------------------------------------------------------------------------

def _dur(seconds) -> str:
    neg = seconds < 0
    s = abs(seconds)
    whole = int(s)
    frac = s - whole
    out = "%d:%02d:%02d" % (whole // 3600, whole // 60 % 60, whole % 60)
    if frac:
        out += ("%.6f" % frac)[1:].rstrip("0")
    return ("-" if neg else "") + out


def _sheet_cell(c, formulas: bool) -> str:
    if c is None:
        return ""
    k = c[0]
    if k in ("s", "err", "d", "dt", "tm"):
        return str(c[1])
    if k == "i":
        return "%d" % c[1]
    if k == "f":
        return repr(float(c[1]))
    if k == "b":
        return "TRUE" if c[1] else "FALSE"
    if k == "dur":
        return _dur(c[1])
    if k == "fml":
        return "=" + c[1] if formulas else _sheet_cell(c[2], formulas)
    raise NotImplementedError("sheet cell %r" % (k,))


def csv(doc, opts=None) -> bytes:
    o, enc, nl, final = _opts(opts, ("delimiter", "formulas"))
    delim = o.get("delimiter", ",")
    if len(delim) != 1 or delim in '"\r\n':
        raise ValueError("delimiter")
    _check_doc(doc, False)
    rows = []
    for u in doc[2]:
        if u[0] == "sheet":
            rows = [[_sheet_cell(c, bool(o.get("formulas"))) for c in row] for row in u[2]]
        else:
            _check_unit(u)
            if len(u[1]) != 1 or u[1][0][0] != "tbl":
                raise NotImplementedError("a CSV file holds exactly one table")
            rows = [["\n".join(_line(inl) for inl in _para_blocks(cell)) for cell in row] for row in u[1][0][1]]
    need = re.compile("[" + re.escape(delim) + '"\r\n]')

    def field(s: str) -> str:
        if need.search(s):
            return '"' + s.replace('"', '""') + '"'
        return s
    lines = []
    for r in rows:
        if len(r) == 1 and r[0] == "":
            lines.append('""')           # a lone empty field would otherwise read back as an empty record
        else:
            lines.append(delim.join(field(s) for s in r))
    text = "\n".join(lines)
    if final and lines:
        text += "\n"
    return _encode(text, enc, nl, False)


# ----------------------------------------------------------------------------------------------------------------------
# markdown
# ----------------------------------------------------------------------------------------------------------------------

_MD_SPECIAL = re.compile(r"([\\`*_\[\]<>#|~&])")
_MD_LINE_START = re.compile(r"^(\s*)([-+=]|\d+[.)])")


def _md_text(s: str) -> str:
    s = _MD_SPECIAL.sub(r"\\\1", s)
    return _MD_LINE_START.sub(lambda m: m.group(1) + "\\" + m.group(2) if not m.group(2)[0].isdigit()
                              else m.group(1) + m.group(2)[:-1] + "\\" + m.group(2)[-1], s)


def _md_inl(inls, br: str, heading=False, in_link=False) -> str:
    out = []
    prev = False
    for x in inls:
        k = x[0]
        if k == "t":
            if "\n" in x[1] or "\r" in x[1]:
                raise NotImplementedError("line break inside a text token")
            if prev:
                out.append(" ")
            out.append(_md_text(x[1]))
            prev = True
        elif k == "tab":
            out.append("\t")
            prev = False
        elif k == "br":
            if heading:
                raise NotImplementedError("line break inside an ATX heading")
            out.append(br)
            prev = False
        elif k == "a":
            if in_link:
                raise NotImplementedError("link inside link")
            url = x[1]
            if re.search(r"[\s<>()\\]", url) or not url:
                raise NotImplementedError("link destination needs escaping")
            if prev:
                out.append(" ")
            out.append("[%s](%s)" % (_md_inl(x[2], br, heading, True), url))
            prev = True
        else:
            raise NotImplementedError("inline %r cannot be expressed in markdown by this writer" % (k,))
    return "".join(out)


def _md_check_space(inls):
    """Markdown drops white space at the start and the end of a block and around a hard break, and a hard break at the
    end of a block is no break: such inline sequences cannot be expressed."""
    kinds = []

    def flatten(xs):
        for x in xs:
            if x[0] == "a":
                flatten(x[2])
            else:
                kinds.append(x[0])
    flatten(inls)
    ws = ("tab", "br")
    if kinds and (kinds[0] in ws or kinds[-1] in ws):
        raise NotImplementedError("markdown does not keep white space at the start or end of a block")
    for a, b in zip(kinds, kinds[1:]):
        if (a == "br" and b in ws) or (b == "br" and a in ws):
            raise NotImplementedError("markdown does not keep white space next to a hard line break")


def _md_blocks(bs, br: str):
    """-> list of chunks (each a string of one or more lines); chunks are separated by one blank line."""
    out = []
    for b in bs:
        k = b[0]
        if k == "p":
            _md_check_space(b[1])
            s = _md_inl(b[1], br)
            if not s.strip():
                raise NotImplementedError("markdown cannot express an empty paragraph")
            if s != s.strip(" ") or re.search(r"\n ", s):
                raise NotImplementedError("white space at the start or end of a markdown line is not preserved")
            out.append(s)
        elif k == "h":
            if b[1] not in (1, 2, 3):
                raise NotImplementedError("heading level %r" % (b[1],))
            _md_check_space(b[2])
            s = _md_inl(b[2], br, heading=True)
            if s != s.strip(" "):
                raise NotImplementedError("white space at the start or end of a markdown heading is not preserved")
            out.append("#" * b[1] + (" " + s if s else ""))
        elif k == "ul":
            out.append(_md_list(b[1], br))
        else:
            raise NotImplementedError("block %r cannot be expressed in markdown by this writer" % (k,))
    return out


def _indent(s: str, pad: str) -> str:
    return re.sub(r"\n(?=[^\n])", "\n" + pad, s)           # blank lines stay blank


def _md_list(items, br: str) -> str:
    if not items:
        raise NotImplementedError("list without items")
    lines = []
    for item in items:
        if not item:
            lines.append("-")
            continue
        if item[0][0] not in ("p", "h"):
            raise NotImplementedError("list item must start with a paragraph")
        first = True
        prev_kind = None
        for b in item:
            chunk = _md_blocks([b], br)[0]
            if first:
                lines.append("- " + _indent(chunk, "  "))
            elif b[0] == "ul" and prev_kind in ("p", "h"):
                lines.append("  " + _indent(chunk, "  "))          # nested list directly under its paragraph (tight)
            else:
                lines.append("")
                lines.append("  " + _indent(chunk, "  "))
            first = False
            prev_kind = b[0]
    return "\n".join(lines)


def md(doc, opts=None) -> bytes:
    o, enc, nl, final = _opts(opts, ("md_br",))
    mode = o.get("md_br", "spaces")
    if mode not in ("spaces", "backslash"):
        raise ValueError("md_br")
    br = "  \n" if mode == "spaces" else "\\\n"
    _check_doc(doc, True)
    units = []
    for u in doc[2]:
        _check_unit(u)
        units.append("\n\n".join(_md_blocks(u[1], br)))
    text = "\n\n---\n\n".join(units) if len(units) > 1 else "".join(units)
    return _encode(text, enc, nl, final)


# ----------------------------------------------------------------------------------------------------------------------
# json
# ----------------------------------------------------------------------------------------------------------------------

def json_(doc, opts=None) -> bytes:
    o, enc, nl, final = _opts(opts, ("indent", "ensure_ascii"))
    _check_doc(doc, False)
    paras = []
    for u in doc[2]:
        _check_unit(u)
        paras.extend(_line(inl, allow=()) for inl in _para_blocks(u[1]))
    text = json.dumps(paras, indent=o.get("indent"), ensure_ascii=bool(o.get("ensure_ascii", enc == "ascii")))
    return _encode(text, enc, nl, final)
