"""Hand-built ZIP writer (PKWARE APPNOTE.TXT 6.3: local file headers, central directory, [ZIP64 records], end of central
directory) in which every header field can be forged.  Standard library only.

    zipforge(members, opts=None) -> bytes
    zip_honest(members, compression=zipfile.ZIP_STORED) -> bytes       the same member dicts written by zipfile itself
    honest(members, opts=None) -> bool                                 True iff zipforge() output is a valid, un-forged ZIP

members: list of dicts (unknown keys raise NotImplementedError)
    "name": str                 ASCII names are stored as they are; other names as UTF-8 with general purpose bit 11 set
    "data": bytes               uncompressed content (default b"")
    "method": int               0 stored (default), 8 deflate, 12 bzip2, 14 LZMA are really compressed; any other value is
                                written into the header while the data is stored unchanged (unsupported-method forgery)
    "flag_bits": int            OR-ed into the general purpose flags (bit 0 = encrypted: a forged flag unless "password" is
                                given; bit 3 = sizes/CRC in a data descriptor behind the data - honoured, the local header
                                then carries zeros)
    "password": bytes           real traditional PKWARE encryption (ZipCrypto) of this member; sets bit 0
    "file_size": int            override of the uncompressed size   } written to BOTH the local header and the central
    "compress_size": int        override of the compressed size     } directory (values >= 0xFFFFFFFF go to a ZIP64 extra
    "crc": int                  override of the CRC-32              } field, as the specification demands)
    "external_attr": int        default 0o100644 << 16 for files, (0o40755 << 16) | 0x10 for directories
    "is_dir": bool              directory entry: name gets a trailing "/" if it has none; no data
    "extra": bytes              extra field, appended to the local and the central header (after a ZIP64 extra, if any)
    "comment": bytes            per-entry comment in the central directory
    "name_bytes": bytes         raw file name bytes (legacy CP437 / deliberately non-UTF-8 names); "name" is then ignored
    "date_time": (y, m, d, H, M, S)   default (1980, 1, 1, 0, 0, 0)
opts: dict (unknown keys raise NotImplementedError)
    "comment": bytes | str      archive comment in the end-of-central-directory record
    "cd_offset_delta": int      added to the "offset of start of central directory" field (EOCD and ZIP64 EOCD)
    "entries_count_override": int   forged entry count (both EOCD count fields)
    "prefix": bytes             bytes before the first local header (offsets are then relative to the file start: valid)
Without overrides the output for methods 0/8/12/14 is byte-identical to what zipfile.ZipFile.writestr produces for the same
members (checked by the self-test), so every header field has been compared with an independent implementation.
"""
from __future__ import annotations

import bz2
import io
import lzma
import struct
import zipfile
import zlib

MEMBER_KEYS = {"name", "data", "method", "flag_bits", "password", "file_size", "compress_size", "crc", "external_attr", "is_dir",
               "extra", "comment", "name_bytes", "date_time"}
OPT_KEYS = {"comment", "cd_offset_delta", "entries_count_override", "prefix"}
REAL_METHODS = (0, 8, 12, 14)
CAPS = ({"member:file", "member:dir", "method:stored", "method:deflate", "method:bzip2", "method:lzma", "method:other(forged)",
         "flag_bits", "flag:data_descriptor", "password(zipcrypto)", "file_size", "compress_size", "crc", "external_attr",
         "extra", "member:comment", "name_bytes", "date_time", "zip64", "comment", "cd_offset_delta", "entries_count_override",
         "prefix"})

FILE_ATTR = 0o100644 << 16
DIR_ATTR = (0o40755 << 16) | 0x10
LIMIT32 = 0xFFFFFFFF
DEFAULT_DATE = (1980, 1, 1, 0, 0, 0)

_CRC_TABLE = []
for _i in range(256):
    _c = _i
    for _ in range(8):
        _c = (_c >> 1) ^ 0xEDB88320 if _c & 1 else _c >> 1
    _CRC_TABLE.append(_c)


def zipcrypto_encrypt(password: bytes, plain: bytes, check_byte: int, seed: int = 0) -> bytes:
    """traditional PKWARE encryption (APPNOTE 6.1): 12-byte encryption header (11 deterministic filler bytes + check byte)
    followed by the data, all enciphered with the three rolling keys"""
    k0, k1, k2 = 0x12345678, 0x23456789, 0x34567890
    tab = _CRC_TABLE

    def update(c):
        nonlocal k0, k1, k2
        k0 = tab[(k0 ^ c) & 0xFF] ^ (k0 >> 8)
        k1 = ((k1 + (k0 & 0xFF)) * 134775813 + 1) & 0xFFFFFFFF
        k2 = tab[(k2 ^ (k1 >> 24)) & 0xFF] ^ (k2 >> 8)

    for c in password:
        update(c)
    header = bytes(((seed >> (8 * (i % 4))) + 37 * i + 11) & 0xFF for i in range(11)) + bytes([check_byte & 0xFF])
    out = bytearray()
    for p in header + plain:
        t = (k2 | 2) & 0xFFFF
        out.append(p ^ (((t * (t ^ 1)) >> 8) & 0xFF))
        update(p)
    return bytes(out)


def _compress(data: bytes, method: int) -> bytes:
    if method == 8:
        c = zlib.compressobj(zlib.Z_DEFAULT_COMPRESSION, zlib.DEFLATED, -15)
        return c.compress(data) + c.flush()
    if method == 12:
        c = bz2.BZ2Compressor()
        return c.compress(data) + c.flush()
    if method == 14:
        # APPNOTE 5.8: 2 bytes LZMA SDK version, 2 bytes properties size, properties, raw LZMA1 stream (with EOS marker,
        # announced by general purpose bit 1)
        props = lzma._encode_filter_properties({"id": lzma.FILTER_LZMA1})
        c = lzma.LZMACompressor(lzma.FORMAT_RAW, filters=[lzma._decode_filter_properties(lzma.FILTER_LZMA1, props)])
        return struct.pack("<BBH", 9, 4, len(props)) + props + c.compress(data) + c.flush()
    return data


def _dos_datetime(dt):
    y, mo, d, h, mi, s = dt
    if not (1980 <= y <= 2107 and 1 <= mo <= 12 and 1 <= d <= 31 and 0 <= h < 24 and 0 <= mi < 60 and 0 <= s < 60):
        raise ValueError(f"date_time {dt} not representable in a DOS timestamp")
    return (h << 11) | (mi << 5) | (s // 2), ((y - 1980) << 9) | (mo << 5) | d


def _norm(m):
    unknown = set(m) - MEMBER_KEYS
    if unknown:
        raise NotImplementedError(f"zip member keys {sorted(unknown)}")
    is_dir = bool(m.get("is_dir"))
    data = m.get("data") or b""
    if not isinstance(data, (bytes, bytearray)):
        raise ValueError("zip member data must be bytes")
    if is_dir and data:
        raise ValueError("a directory entry has no data")
    flags = int(m.get("flag_bits") or 0)
    if m.get("name_bytes") is not None:
        name_b = bytes(m["name_bytes"])
    else:
        name = m.get("name")
        if not isinstance(name, str):
            raise ValueError("zip member needs a str name (or name_bytes)")
        if is_dir and not name.endswith("/"):
            name += "/"
        try:
            name_b = name.encode("ascii")
        except UnicodeEncodeError:
            name_b = name.encode("utf-8", "surrogateescape")
            flags |= 0x800
    if len(name_b) > 0xFFFF:
        raise ValueError("zip name longer than 65535 bytes")
    method = int(m.get("method") or 0)
    if not 0 <= method <= 0xFFFF:
        raise ValueError("zip method is a 16-bit field")
    return is_dir, bytes(data), flags, name_b, method


def honest(members, opts=None) -> bool:
    o = dict(opts or {})
    if set(o) - OPT_KEYS:
        raise NotImplementedError(f"zip opts {sorted(set(o) - OPT_KEYS)}")
    if o.get("cd_offset_delta") or o.get("entries_count_override") is not None:
        return False
    for m in members:
        is_dir, data, flags, name_b, method = _norm(m)
        if any(m.get(k) is not None for k in ("file_size", "compress_size", "crc")):
            return False
        if method not in REAL_METHODS or (is_dir and method != 0):
            return False
        allowed = 0x800 | 0x8 | (0x1 if m.get("password") is not None else 0)
        if (flags & ~allowed) or m.get("name_bytes") is not None:
            return False
    return True


def zipforge(members, opts=None) -> bytes:
    o = dict(opts or {})
    if set(o) - OPT_KEYS:
        raise NotImplementedError(f"zip opts {sorted(set(o) - OPT_KEYS)}")
    out = bytearray(o.get("prefix") or b"")
    central = bytearray()
    count = 0
    for m in members:
        is_dir, data, flags, name_b, method = _norm(m)
        dostime, dosdate = _dos_datetime(tuple(m.get("date_time") or DEFAULT_DATE))
        real_crc = zlib.crc32(data) & 0xFFFFFFFF
        crc = real_crc if m.get("crc") is None else int(m["crc"]) & 0xFFFFFFFF
        payload = _compress(data, method)
        if method == 14:
            flags |= 0x02
        if m.get("password") is not None:
            flags |= 0x01
            check = (dostime >> 8) if flags & 0x08 else (crc >> 24)
            payload = zipcrypto_encrypt(bytes(m["password"]), payload, check, seed=real_crc)
        usize = len(data) if m.get("file_size") is None else int(m["file_size"])
        csize = len(payload) if m.get("compress_size") is None else int(m["compress_size"])
        if usize < 0 or csize < 0:
            raise ValueError("negative sizes are not expressible")
        offset = len(out)
        version = {12: 46, 14: 63}.get(method, 20)
        extra_user = bytes(m.get("extra") or b"")
        ext_attr = m.get("external_attr")
        if ext_attr is None:
            ext_attr = DIR_ATTR if is_dir else FILE_ATTR
        comment = bytes(m.get("comment") or b"")

        # ---- local file header (a ZIP64 extra in the local header must hold BOTH sizes)
        big_sizes = usize >= LIMIT32 or csize >= LIMIT32
        descriptor = bool(flags & 0x08)
        if big_sizes:
            version = max(version, 45)
            l_extra = struct.pack("<HHQQ", 1, 16, 0 if descriptor else usize, 0 if descriptor else csize) + extra_user
            l_usize = l_csize = LIMIT32
        else:
            l_extra = extra_user
            l_usize, l_csize = (0, 0) if descriptor else (usize, csize)
        if len(l_extra) > 0xFFFF:
            raise ValueError("extra field longer than 65535 bytes")
        out += struct.pack("<4sHHHHHIIIHH", b"PK\x03\x04", version, flags, method, dostime, dosdate,
                           0 if descriptor else crc, l_csize, l_usize, len(name_b), len(l_extra))
        out += name_b + l_extra + payload
        if descriptor:
            out += struct.pack("<4sIQQ" if big_sizes else "<4sIII", b"PK\x07\x08", crc, csize, usize)

        # ---- central directory header (ZIP64 extra holds only the fields that overflow, in the order usize, csize, offset)
        z64 = b""
        c_usize, c_csize, c_offset = usize, csize, offset
        if usize >= LIMIT32:
            z64 += struct.pack("<Q", usize)
            c_usize = LIMIT32
        if csize >= LIMIT32:
            z64 += struct.pack("<Q", csize)
            c_csize = LIMIT32
        if offset >= LIMIT32:
            z64 += struct.pack("<Q", offset)
            c_offset = LIMIT32
        c_extra = (struct.pack("<HH", 1, len(z64)) + z64 if z64 else b"") + extra_user
        c_version = max(version, 45) if z64 else version
        if len(c_extra) > 0xFFFF or len(comment) > 0xFFFF:
            raise ValueError("extra field / comment longer than 65535 bytes")
        central += struct.pack("<4sHHHHHHIIIHHHHHII", b"PK\x01\x02", (3 << 8) | c_version, c_version, flags, method, dostime,
                               dosdate, crc, c_csize, c_usize, len(name_b), len(c_extra), len(comment), 0, 0,
                               ext_attr & 0xFFFFFFFF, c_offset)
        central += name_b + c_extra + comment
        count += 1

    cd_offset = len(out)
    cd_size = len(central)
    out += central
    archive_comment = o.get("comment") or b""
    if isinstance(archive_comment, str):
        archive_comment = archive_comment.encode("utf-8")
    if len(archive_comment) > 0xFFFF:
        raise ValueError("archive comment longer than 65535 bytes")
    n = count if o.get("entries_count_override") is None else int(o["entries_count_override"])
    cd_field = cd_offset + int(o.get("cd_offset_delta") or 0)
    if n < 0 or cd_field < 0:
        raise ValueError("negative count / offset are not expressible")
    if n >= 0xFFFF or cd_field >= LIMIT32 or cd_size >= LIMIT32:
        z64_pos = len(out)
        out += struct.pack("<4sQHHIIQQQQ", b"PK\x06\x06", 44, (3 << 8) | 45, 45, 0, 0, n, n, cd_size, cd_field)
        out += struct.pack("<4sIQI", b"PK\x06\x07", 0, z64_pos, 1)
    out += struct.pack("<4sHHHHIIH", b"PK\x05\x06", 0, 0, min(n, 0xFFFF), min(n, 0xFFFF), min(cd_size, LIMIT32),
                       min(cd_field, LIMIT32), len(archive_comment))
    out += archive_comment
    return bytes(out)


def zip_honest(members, compression=zipfile.ZIP_STORED) -> bytes:
    """the plain helper: zipfile writes the members (keys name, data, is_dir, optional method / external_attr / date_time /
    comment / extra); `compression` is used for members without "method".  Deterministic (fixed timestamps)."""
    allowed = {"name", "data", "is_dir", "method", "external_attr", "date_time", "comment", "extra"}
    bio = io.BytesIO()
    with zipfile.ZipFile(bio, "w", compression=compression) as z:
        for m in members:
            if set(m) - allowed:
                raise NotImplementedError(f"zip_honest member keys {sorted(set(m) - allowed)}")
            name = m["name"]
            is_dir = bool(m.get("is_dir"))
            if is_dir and not name.endswith("/"):
                name += "/"
            if is_dir and m.get("data"):
                raise ValueError("a directory entry has no data")
            zi = zipfile.ZipInfo(name, date_time=tuple(m.get("date_time") or DEFAULT_DATE))
            if zi.filename != name:
                raise NotImplementedError(f"zipfile rewrites the name {name!r} to {zi.filename!r}; use zipforge")
            zi.compress_type = zipfile.ZIP_STORED if is_dir else (m["method"] if m.get("method") is not None else compression)
            zi.external_attr = m["external_attr"] if m.get("external_attr") is not None else (DIR_ATTR if is_dir else FILE_ATTR)
            zi.create_system = 3
            zi.comment = bytes(m.get("comment") or b"")
            zi.extra = bytes(m.get("extra") or b"")
            z.writestr(zi, bytes(m.get("data") or b""))
    return bio.getvalue()
