"""Unique class-tagged tokens: <Class letter><5 consonants>. VERIF_SEED only permutes the consonant alphabet."""
from __future__ import annotations

import os
import random
import re

CONS = "bcdfghjklmnpqrstvwxz"
TOKEN_FIND = re.compile(r"[A-Z][bcdfghjklmnpqrstvwxz]{5}")


class Tokens:
    def __init__(self, seed: int | None = None):
        if seed is None:
            seed = int(os.environ.get("VERIF_SEED", "0") or 0)
        a = list(CONS)
        random.Random(seed).shuffle(a)
        self.alpha = a
        self.n = {}
        self.all = []

    def new(self, cls: str) -> str:
        i = self.n.get(cls, 0)
        self.n[cls] = i + 1
        # index -> 5 consonants (base 20), offset so that consecutive tokens differ in every position pattern
        k = i * 7919 + ord(cls) * 104729
        s = ""
        for _ in range(5):
            s += self.alpha[k % 20]
            k //= 20
        t = cls + s
        self.all.append(t)
        return t


def find_tokens(text: str) -> list:
    return TOKEN_FIND.findall(text or "")
