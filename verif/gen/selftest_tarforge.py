"""Self-test of verif.gen.tarforge.   PYTHONPATH=/verif /venv/bin/python -B -m verif.gen.selftest_tarforge

Independent readers: tarfile (whole archives, all formats / compressions), gzip / bz2 / lzma (the compression layer) and a
small header-block parser written here from the POSIX ustar layout (octal and GNU base-256 numbers, checksum).
WRITER-INVALID = an independent reader rejects or disagrees with an honest archive, or a forged field did not land.
EXTRACTOR-DISAGREES = the library's read_archive differs from the ground truth on a valid archive.
"""
from __future__ import annotations

import bz2
import gzip
import io
import itertools
import lzma
import os
import shutil
import subprocess
import sys
import tarfile
import tempfile

from verif.gen import tarforge as T
from verif.gen.tokens import Tokens, find_tokens

COUNTS = {"OK": 0, "WRITER-INVALID": 0, "EXTRACTOR-DISAGREES": 0, "FORGED-OK": 0}
DISAGREE = []
FMTS = ("ustar", "pax", "gnu")


def line(status, name, detail=""):
    COUNTS[status] += 1
    if status == "EXTRACTOR-DISAGREES":
        DISAGREE.append((name, detail))
    print(f"{status:20s} {name}" + (f"   {detail}" if detail else ""))


def short(x, n=200):
    s = repr(x)
    return s if len(s) <= n else s[:n] + "..."


# ------------------------------------------------------------------------------------------------ header block parser
def num_field(b: bytes) -> int:
    if b[0] in (0x80, 0xFF):
        n = int.from_bytes(b[1:], "big")
        return n if b[0] == 0x80 else n - 256 ** (len(b) - 1)
    s = b.split(b"\x00")[0].strip()
    return int(s, 8) if s else 0


def parse_block(b: bytes) -> dict:
    assert len(b) == 512
    stored = num_field(b[148:156])
    calc = sum(b[:148]) + 8 * 32 + sum(b[156:])
    cut = lambda x: x.split(b"\x00")[0]        # noqa: E731
    return {"name": cut(b[0:100]), "mode": num_field(b[100:108]), "uid": num_field(b[108:116]), "gid": num_field(b[116:124]),
            "size": num_field(b[124:136]), "mtime": num_field(b[136:148]), "chksum_ok": stored == calc, "type": b[156:157],
            "linkname": cut(b[157:257]), "magic": b[257:265], "uname": cut(b[265:297]), "gname": cut(b[297:329]),
            "devmajor": b[329:337], "devminor": b[337:345], "prefix": cut(b[345:500]), "pad": b[500:512]}


def uncompress(blob: bytes, compression):
    if compression == "gz":
        return gzip.decompress(blob)
    if compression == "bz2":
        return bz2.decompress(blob)
    if compression == "xz":
        return lzma.decompress(blob, format=lzma.FORMAT_XZ)
    return blob


def tf_read(blob: bytes, mode="r:*"):
    """-> [(name, type letter, size, linkname, data or None)]"""
    rev = {v: k for k, v in T.TYPES.items()}
    out = []
    with tarfile.open(fileobj=io.BytesIO(blob), mode=mode) as tf:
        for m in tf.getmembers():
            data = None
            if m.isreg():
                f = tf.extractfile(m)
                data = f.read() if f is not None else None
            out.append((m.name, rev.get(m.type, repr(m.type)), m.size, m.linkname, data))
    return out


def expected(members):
    out = []
    for m in members:
        t = m.get("type") or "REG"
        n = m["name"]
        if t == "DIR":
            n = n.rstrip("/")               # tarfile normalises directory names on reading
        data = bytes(m.get("data") or b"") if t in T.DATA_TYPES else None
        out.append((n, t, len(data) if data is not None else 0, m.get("linkname") or "", data))
    return out


def lib_read_archive(blob, path):
    from sharepoint2text.parsing.extractors.archive_extractor import read_archive
    return [(r.get_metadata().filename, r.get_full_text()) for r in read_archive(io.BytesIO(blob), path)]


HOSTILE_NAMES = ["/abs.txt", "//h/abs.txt", "../up.txt", "a/../../up.txt", "..\\up.txt", "a\\b.txt", "C:\\x\\c.txt", "C:rel.txt",
                 "\\\\h\\s\\unc.txt", "", ".", "..", "a//b.txt", "./a.txt", ".hidden.txt", "__MACOSX/a.txt", "a" * 251 + ".txt",
                 "a" * 100, "a" * 101, "d/" * 60 + "f.txt", "p" * 155 + "/" + "n" * 100, "p" * 156 + "/" + "n" * 100,
                 "ü.txt", "日本語/ファイル.txt", "e\u0301.txt", "\U0001F600.txt", " lead.txt", "trail.txt ", "a\nb.txt", "a:b.txt", "a*?.txt",
                 "x\udcff.txt", "d" * 300 + "/" + "f" * 300 + ".txt"]


def all_types(tk: Tokens):
    return [{"name": "r.txt", "type": "REG", "data": tk.new("B").encode()},
            {"name": "dir", "type": "DIR"},
            {"name": "dir/in.txt", "type": "REG", "data": (tk.new("B") + " " + tk.new("B")).encode()},
            {"name": "sym.txt", "type": "SYM", "linkname": "r.txt"},
            {"name": "hard.txt", "type": "LNK", "linkname": "r.txt"},
            {"name": "chr.txt", "type": "CHR"},
            {"name": "blk.txt", "type": "BLK", "devmajor": 8, "devminor": 1},
            {"name": "fifo.txt", "type": "FIFO"},
            {"name": "old.txt", "type": "AREG", "data": tk.new("B").encode()},
            {"name": "cont.txt", "type": "CONT", "data": tk.new("B").encode()},
            {"name": "empty.txt", "type": "REG", "data": b""},
            {"name": "big.txt", "type": "REG", "data": bytes(range(256)) * 9},
            {"name": "exact-block.txt", "type": "REG", "data": b"B" * 512},
            {"name": "z.txt", "type": "REG", "data": tk.new("B").encode()}]


def reference_tar(members, fmt) -> bytes:
    """the same members written by tarfile.open('w').addfile - an independent path through tarfile"""
    bio = io.BytesIO()
    with tarfile.open(fileobj=bio, mode="w", format=T.FORMATS[fmt], encoding="utf-8", errors="surrogateescape") as tf:
        for m in members:
            t = m.get("type") or "REG"
            data = bytes(m.get("data") or b"")
            ti = tarfile.TarInfo(m["name"])
            ti.type = T.TYPES[t]
            ti.size = len(data)
            ti.linkname = m.get("linkname") or ""
            ti.mode = {"DIR": 0o755, "SYM": 0o777}.get(t, 0o644)
            if t in ("CHR", "BLK"):
                ti.devmajor, ti.devminor = m.get("devmajor", 1), m.get("devminor", 3)
            tf.addfile(ti, io.BytesIO(data) if t in T.DATA_TYPES else None)
    return bio.getvalue()


# ------------------------------------------------------------------------------------------------ checks
def check_honest(tk: Tokens):
    valid = []
    members = all_types(tk)
    for fmt in FMTS:
        raw = None
        for comp in T.COMPRESSIONS:
            name = f"honest all member types fmt={fmt} compression={comp}"
            try:
                assert T.honest(members)
                blob = T.tarforge(members, comp, fmt)
                assert blob == T.tarforge(members, comp, fmt), "not deterministic"
                inner = uncompress(blob, comp)
                if comp is None:
                    raw = blob
                assert inner == raw, "compressed payload differs from the plain tar"
                assert len(inner) % T.RECORD == 0 and inner.endswith(bytes(1024)), "end-of-archive blocks / record padding"
                got = tf_read(blob)
                assert got == expected(members), f"tarfile reads {short(got)} want {short(expected(members))}"
                explicit = tf_read(blob, "r:" + (comp or "tar")) if comp else tf_read(blob, "r:")
                assert explicit == got
                line("OK", name, f"{len(blob)} bytes; tarfile + {comp or 'no'} decompressor agree with the ground truth")
                valid.append((name, members, blob, "t.tar" + ("." + comp if comp else "")))
            except Exception as e:
                line("WRITER-INVALID", name, f"{type(e).__name__}: {e}")
        try:
            ref = reference_tar(members, fmt)
            line("OK" if ref == raw else "WRITER-INVALID", f"honest fmt={fmt}: byte-identical to tarfile.open('w').addfile output", "" if ref == raw else f"{len(ref)} vs {len(raw)}")
        except Exception as e:
            line("WRITER-INVALID", f"reference tar fmt={fmt}", f"{type(e).__name__}: {e}")
    # hand-built header block == tarfile's block, field by field, for every type (ustar and gnu magic)
    bad = []
    for m in members:
        t = m.get("type") or "REG"
        data = bytes(m.get("data") or b"")
        for fmt, magic in (("ustar", b"ustar\x0000"), ("gnu", b"ustar  \x00")):
            want = T.member_bytes(m, fmt)[:512]
            hname = m["name"] + ("/" if t == "DIR" and not m["name"].endswith("/") else "")      # tar convention for directories
            mine = T.raw_header(hname.encode(), T.TYPES[t], len(data), (m.get("linkname") or "").encode(),
                                {"DIR": 0o755, "SYM": 0o777}.get(t, 0o644), 0, b"", magic,
                                m.get("devmajor", 1) if t in ("CHR", "BLK") else None, m.get("devminor", 3) if t in ("CHR", "BLK") else None)
            if mine != want:
                bad.append((m["name"], fmt, {k: (v, parse_block(want)[k]) for k, v in parse_block(mine).items() if v != parse_block(want)[k]}))
            pb = parse_block(want)
            if not pb["chksum_ok"] or pb["size"] != len(data) or pb["type"] != T.TYPES[t] or pb["name"] != hname.encode():
                bad.append((m["name"], fmt, "block parser disagrees", pb))
    line("OK" if not bad else "WRITER-INVALID", "raw_header() == TarInfo.tobuf() for every member type (ustar, gnu); block parser confirms fields + checksum", short(bad) if bad else "")
    # empty archive
    for fmt, comp in itertools.product(FMTS, T.COMPRESSIONS):
        try:
            blob = T.tarforge([], comp, fmt)
            assert uncompress(blob, comp) == bytes(T.RECORD) and tf_read(blob) == []
        except Exception as e:
            line("WRITER-INVALID", f"empty archive fmt={fmt} compression={comp}", f"{type(e).__name__}: {e}")
            break
    else:
        line("OK", "empty archives (all formats x compressions): one zero record, tarfile lists nothing")
        valid.append(("empty archive", [], T.tarforge([], None, "ustar"), "t.tar"))
    return valid


def check_names(tk: Tokens):
    for fmt in FMTS:
        ok = refused = 0
        refused_names = []
        for nm in HOSTILE_NAMES:
            for t in ("REG", "DIR", "SYM"):
                m = [{"name": nm, "type": t, "data": tk.new("B").encode() if t == "REG" else b"", "linkname": nm if t == "SYM" else ""},
                     {"name": "after.txt", "data": b"x"}]
                try:
                    blob = T.tarforge(m, None, fmt)
                except NotImplementedError:
                    refused += 1
                    if nm not in refused_names:
                        refused_names.append(nm)
                    continue
                try:
                    got = tf_read(blob)
                    want = expected(m)
                    if t == "REG" and nm.endswith("/"):
                        pass
                    if got != want:
                        raise AssertionError(f"tarfile: {short(got)} want {short(want)}")
                    ok += 1
                except Exception as e:
                    line("WRITER-INVALID", f"hostile name {nm[:40]!r} as {t} fmt={fmt}", f"{type(e).__name__}: {e}")
        # ustar: no valid prefix/name split for these four; as a SYM *linkname* (100 bytes, no prefix) two more do not fit
        exp_refused = {"ustar": {"a" * 251 + ".txt", "a" * 101, "p" * 156 + "/" + "n" * 100, "d" * 300 + "/" + "f" * 300 + ".txt",
                                 "d/" * 60 + "f.txt", "p" * 155 + "/" + "n" * 100}, "pax": set(), "gnu": set()}[fmt]
        good = set(refused_names) == exp_refused and ok + refused == 3 * len(HOSTILE_NAMES) and refused == {"ustar": 14}.get(fmt, 0)
        line("OK" if good else "WRITER-INVALID", f"hostile names fmt={fmt}: {ok} read back verbatim by tarfile, {refused} refused with NotImplementedError",
             f"refused: {[n[:12] + '...' if len(n) > 15 else n for n in refused_names]}")
    for fmt in FMTS:
        m = [{"name": nm, "data": tk.new("B").encode()} for nm in HOSTILE_NAMES if fmt != "ustar" or len(nm) <= 100] + [{"name": "dup.txt", "data": b"1"}, {"name": "dup.txt", "data": b"2"}]
        try:
            for comp in T.COMPRESSIONS:
                assert tf_read(T.tarforge(m, comp, fmt)) == expected(m)
            line("OK", f"all {len(m)} expressible hostile names (+ duplicate) in one archive fmt={fmt}, every compression")
        except Exception as e:
            line("WRITER-INVALID", f"hostile names in one archive fmt={fmt}", f"{type(e).__name__}: {e}")
    for bad in (lambda: T.tarforge([{"name": "a\x00b"}]), lambda: T.tarforge([{"name": "a", "type": "SOCK"}]), lambda: T.tarforge([{"name": "a", "uid": 5}]),
                lambda: T.tarforge([], "zst"), lambda: T.tarforge([], None, "v7")):
        try:
            bad()
            line("WRITER-INVALID", "inexpressible input accepted silently")
        except NotImplementedError as e:
            line("OK", f"NotImplementedError for inexpressible input ({short(str(e), 70)})")
    try:
        T.tarforge([{"name": "d", "type": "DIR", "data": b"x"}])
        line("WRITER-INVALID", "DIR with data accepted")
    except ValueError:
        line("OK", "DIR member with data raises ValueError (size_override is the way to forge)")


def check_forged(tk: Tokens):
    t = tk.new("B").encode()
    for fmt in FMTS:
        for typ, val in itertools.product(("REG", "DIR", "SYM", "LNK", "CHR", "FIFO"), (0, 1, 511, 512, 513, 10 ** 6, 8 ** 11 - 1, 8 ** 11, 2 ** 40, -1)):
            m = [{"name": "f.txt", "type": typ, "data": t if typ == "REG" else b"", "linkname": "x" if typ in ("SYM", "LNK") else "", "size_override": val},
                 {"name": "after.txt", "data": b"after"}]
            name = f"forged size_override={val} type={typ} fmt={fmt}"
            try:
                assert not T.honest(m)
                blob = T.tarforge(m, None, fmt)
                # locate the main header block of f.txt: the first block whose name field is f.txt
                blocks = [blob[i:i + 512] for i in range(0, len(blob), 512)]
                hname = b"f.txt/\x00" if typ == "DIR" else b"f.txt\x00"
                hb = next(b for b in blocks if b[:len(hname)] == hname and b[257:262] == b"ustar")
                pb = parse_block(hb)
                in_pax = fmt == "pax" and val >= 8 ** 11
                if in_pax:
                    assert (b" size=%d\n" % val) in blob[:2048] and pb["chksum_ok"], "pax size record"
                else:
                    assert pb["size"] == val and pb["chksum_ok"], f"header block says size={pb['size']} chksum_ok={pb['chksum_ok']}"
                # the data blocks still hold the real data, then the next member's header follows
                pos = blob.index(hb) + 512
                if typ == "REG":
                    assert blob[pos:pos + len(t)] == t and blob[pos + 512:pos + 517] == b"after", "data block / following header"
                else:
                    assert blob[pos:pos + 9] == b"after.txt", "following header"
                with tarfile.open(fileobj=io.BytesIO(blob)) as tf:
                    first = tf.next()
                    assert first.size == val or (val < 0), f"tarfile sees size {first.size}"
                line("FORGED-OK", name, "pax record" if in_pax else ("base-256" if (val >= 8 ** 11 or val < 0) else "octal"))
            except Exception as e:
                line("WRITER-INVALID", name, f"{type(e).__name__}: {e}")


def check_library(tk: Tokens, valid):
    def want_of(members):
        return [(os.path.basename(m["name"]), find_tokens(bytes(m.get("data") or b"").decode("utf-8", "replace"))) for m in members
                if (m.get("type") or "REG") in T.DATA_TYPES and m["name"].endswith(".txt") and not os.path.basename(m["name"]).startswith(".")
                and not m["name"].startswith("__MACOSX/")]

    def compare(name, members, blob, path):
        try:
            got = [(os.path.basename(n or ""), find_tokens(x)) for n, x in lib_read_archive(blob, path)]
            if got == want_of(members):
                line("OK", name + " [read_archive]")
            else:
                line("EXTRACTOR-DISAGREES", name + " [read_archive]", f"got {short(got)} want {short(want_of(members))}")
        except Exception as e:
            line("EXTRACTOR-DISAGREES", name + " [read_archive]", f"{type(e).__name__}: {e} (cause {e.__cause__!r})"[:300])

    t = tk.new("B")
    for fmt, comp in itertools.product(FMTS, T.COMPRESSIONS):
        m = [{"name": "a.txt", "data": t.encode()}]
        compare(f"simplest: one txt member fmt={fmt} compression={comp}", m, T.tarforge(m, comp, fmt), "t.tar" + ("." + comp if comp else ""))
    for typ in ("DIR", "SYM", "LNK", "CHR", "BLK", "FIFO", "AREG", "CONT"):
        m = [{"name": "x.txt", "type": typ, "linkname": "a.txt" if typ in ("SYM", "LNK") else "", "data": t.encode() if typ in T.DATA_TYPES else b""},
             {"name": "a.txt", "data": t.encode()}]
        compare(f"simplest: {typ} member named x.txt + regular a.txt", m, T.tarforge(m), "t.tar")
    for nm in ("ü.txt", "\U0001F600.txt", "a\\b.txt", "/abs.txt", "../up.txt", "a" * 251 + ".txt"):
        for fmt in ("pax", "gnu"):
            m = [{"name": nm, "data": t.encode()}]
            compare(f"simplest: name {nm[:20]!r} fmt={fmt}", m, T.tarforge(m, None, fmt), "t.tar")
    m = [{"name": "a.txt", "data": b""}, {"name": "b.txt", "data": t.encode()}]
    compare("simplest: empty txt + txt", m, T.tarforge(m), "t.tar")
    # a tar whose first member has an empty / long name has no "ustar" at offset 257 of a *plain* first header only for v7; check pax/gnu long name first
    for name, members, blob, path in valid:
        compare(name, members, blob, path)


def check_libarchive(valid):
    """optional third reader: bsdtar (libarchive) lists the honest archives (names and types)"""
    exe = next((c for c in (shutil.which("bsdtar"), "/root/miniconda/bin/bsdtar") if c and os.path.exists(c)), None)
    if exe is None:
        line("OK", "bsdtar (libarchive) not found: third reader not used")
        return
    bad = []
    env = dict(os.environ, LC_ALL="C.UTF-8")
    letter = {"REG": "-", "AREG": "-", "CONT": "-", "DIR": "d", "SYM": "l", "LNK": "h", "CHR": "c", "BLK": "b", "FIFO": "p"}
    for name, members, blob, path in valid:
        with tempfile.TemporaryDirectory(prefix="sp2t-verif-sttar-") as td:
            p = os.path.join(td, path)
            with open(p, "wb") as fh:
                fh.write(blob)
            r1 = subprocess.run([exe, "-tvf", p], capture_output=True, env=env)
        rows = r1.stdout.decode().splitlines()
        want = [(letter[m.get("type") or "REG"], m["name"] + ("/" if (m.get("type") == "DIR") else "")) for m in members]
        got = []
        for row, m in zip(rows, members):
            f = row.split()
            nm = row.split(" -> ")[0].split(" link to ")[0].split()[-1] if f else ""
            got.append((row[:1], nm))
        if r1.returncode or len(rows) != len(members) or got != want:
            bad.append((name, r1.returncode, got[:4], r1.stderr[:100]))
    line("OK" if not bad else "WRITER-INVALID", f"libarchive ({exe}) lists {len(valid)} honest archives with the same names and types", short(bad, 400) if bad else "")


def main():
    tk = Tokens(0)
    valid = check_honest(tk)
    check_libarchive(valid)
    check_names(tk)
    check_forged(tk)
    check_library(tk, valid)
    print()
    print("SUMMARY selftest_tarforge: " + "  ".join(f"{k}={v}" for k, v in COUNTS.items()))
    if DISAGREE:
        print(f"EXTRACTOR-DISAGREES cases ({len(DISAGREE)}), archives are valid for tarfile:")
        for n, d in DISAGREE:
            print(f"  - {n}: {d[:260]}")
    if COUNTS["WRITER-INVALID"]:
        print("WRITER-INVALID present: the writer (or this self-test) has a bug")
    return 0


if __name__ == "__main__":
    sys.exit(main())
