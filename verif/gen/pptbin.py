"""Reference writer for PowerPoint 97-2003 presentations ([MS-PPT] + [MS-ODRAW]) inside a compound file.

    ppt(doc, images=None, opts=None) -> bytes
        doc = ["doc", meta, [["unit", blocks, extras], ...]]     one unit = one slide
        unit mapping: first ["h"] -> title placeholder; ["p"] (and further ["h"]) -> paragraphs; ["img", key] -> picture shape
                      (BLIP in the "Pictures" stream, BSE in the drawing group); extras "notes": [tok...] -> notes page;
                      inlines: ["t", tok], ["tab"] -> \\t, ["br"] -> \\x0b (soft break).  Anything else: NotImplementedError.
                      meta title/author/subject/keywords/description -> \\x05SummaryInformation; meta footer -> slide footer
                      (HeadersFootersContainer instance 3), meta header -> notes/handout header (instance 4).
        opts: "layout": "ppt" (default)  as PowerPoint saves: title/body text in SlideListWithText, shapes point to it with
                                         OutlineTextRefAtom; text boxes keep their text inside the slide drawing
                        "lo"             as LibreOffice Impress saves: every text inside the shapes' ClientTextbox, the
                                         SlideListWithText holds only SlidePersistAtoms
              "p_mode": "body" (default) all paragraphs in ONE body placeholder, separated by \\r (text type 1)
                        "textbox"        one text box shape per paragraph, text inside the drawing (text type 4, "other")
                        "slwt_other"     one text box per paragraph, text (type 4) in SlideListWithText, referenced by index
              "text_atom": "chars" (default, TextCharsAtom UTF-16LE) | "bytes" (TextBytesAtom) | "auto" (bytes when possible)
              "master_text": True (default) master placeholders carry PowerPoint's prompt texts ("Click to edit Master ...")
              "current_user": True (default) write the "Current User" stream
              "encrypted": True | "keep_docprops"   the markers of an RC4-CryptoAPI encrypted file: CurrentUserAtom.headerToken,
                        UserEditAtom.encryptSessionPersistIdRef + CryptSession10Container, "EncryptedSummary" stream instead
                        of the property sets (with "keep_docprops": fDocProps set, property sets stay, no EncryptedSummary).
                        Records stay in clear: this is a detection shell, not a cipher.
              "summary": {...} extra SummaryInformation / DocumentSummaryInformation properties; "no_summary": True
              "cfb": {...} options passed through to cfb.cfb
    Stream layout of "PowerPoint Document": DocumentContainer, MainMaster, [notes master], Slide, [Notes], ..., PersistDirectoryAtom,
    UserEditAtom - the persist object directory and the "Current User" stream point at real offsets.
"""
from __future__ import annotations

import struct

from verif.gen import cfb as _cfb
from verif.gen.cfb import oa_container as box
from verif.gen.cfb import oa_rec as atom

CAPS_PPT = {"unit", "multiunit", "h", "p", "t", "tab", "br", "img", "extra:notes", "meta:title", "meta:author", "meta:subject",
            "meta:keywords", "meta:description", "meta:header", "meta:footer"}

# record types
RT_Document, RT_DocumentAtom, RT_EndDocumentAtom, RT_Slide, RT_SlideAtom, RT_Notes, RT_NotesAtom = 1000, 1001, 1002, 1006, 1007, 1008, 1009
RT_Environment, RT_SlidePersistAtom, RT_MainMaster, RT_DrawingGroup, RT_Drawing = 1010, 1011, 1016, 1035, 1036
RT_FontCollection, RT_ColorSchemeAtom, RT_PlaceholderAtom = 2005, 2032, 3011
RT_OutlineTextRefAtom, RT_TextHeaderAtom, RT_TextCharsAtom, RT_TextMasterStyleAtom = 3998, 3999, 4000, 4003
RT_TextBytesAtom, RT_TextSIExceptionAtom, RT_FontEntityAtom, RT_CString, RT_Kinsoku, RT_KinsokuAtom = 4008, 4009, 4023, 4026, 4040, 4050
RT_HeadersFooters, RT_HeadersFootersAtom, RT_SlideListWithText, RT_UserEditAtom, RT_CurrentUserAtom = 4057, 4058, 4080, 4085, 4086
RT_PersistDirectoryAtom, RT_CryptSession10Container = 6002, 12052
TX_TITLE, TX_BODY, TX_NOTES, TX_OTHER = 0, 1, 2, 4
PT_MasterTitle, PT_MasterBody, PT_MasterNotesSlideImage, PT_MasterNotesBody = 1, 2, 5, 6
PT_NotesSlideImage, PT_NotesBody, PT_Title, PT_Body = 0x0B, 0x0C, 0x0D, 0x0E
SL_TitleBody, SL_TitleOnly, SL_Blank, SL_MasterTitle = 0x01, 0x07, 0x10, 0x02
MASTER_ID = 0x80000000
COLOR_SCHEME = bytes.fromhex("ffffff00000000008080800000000000bbe0e300333399000099990099cc0000")
MASTER_TITLE_TEXT = "Click to edit Master title style"
MASTER_BODY_TEXT = "Click to edit Master text styles\rSecond level\rThird level\rFourth level\rFifth level"
# ClientAnchor rectangles (top, left, right, bottom) in master units (576 per inch) on a 5760 x 4320 slide
ANCHOR_TITLE, ANCHOR_BODY = (173, 288, 5472, 893), (1008, 288, 5472, 3859)
ANCHOR_NOTES_IMAGE, ANCHOR_NOTES_BODY = (432, 720, 3600, 2592), (2736, 432, 3888, 5328)


# ---------------------------------------------------------------------------------------------------------------------
# text
# ---------------------------------------------------------------------------------------------------------------------
def _inline_text(inlines) -> str:
    out = []
    for x in inlines:
        k = x[0]
        if k == "t":
            if not isinstance(x[1], str) or any(c in x[1] for c in "\r\n\x0b\x0c\x00"):
                raise NotImplementedError("text run with control characters")
            out.append(x[1])
        elif k == "tab":
            out.append("\t")
        elif k == "br":
            out.append("\x0b")
        else:
            raise NotImplementedError("inline %r in a PPT text" % (k,))
    return "".join(out)


def _text_atoms(text: str, ttype: int, index: int, mode: str) -> bytes:
    """TextHeaderAtom (recInstance = index of the text on its slide) + TextCharsAtom | TextBytesAtom"""
    head = atom(0, index, RT_TextHeaderAtom, struct.pack("<I", ttype))
    if mode not in ("chars", "bytes", "auto"):
        raise NotImplementedError("text_atom %r" % (mode,))
    if mode != "chars":
        try:
            return head + atom(0, 0, RT_TextBytesAtom, text.encode("latin-1"))
        except UnicodeEncodeError:
            if mode == "bytes":
                raise NotImplementedError("TextBytesAtom cannot hold characters above U+00FF")
    return head + atom(0, 0, RT_TextCharsAtom, text.encode("utf-16-le"))


# ---------------------------------------------------------------------------------------------------------------------
# OfficeArt shapes
# ---------------------------------------------------------------------------------------------------------------------
def _opt(props) -> bytes:
    props = sorted(props, key=lambda p: p[0] & 0x3FFF)
    return atom(3, len(props), 0xF00B, b"".join(struct.pack("<HI", pid, val) for pid, val in props))


def _anchor(rect) -> bytes:
    return atom(0, 0, 0xF010, struct.pack("<hhhh", *rect))


def _placeholder(position: int, pid: int) -> bytes:
    return box(0xF011, [atom(0, 0, RT_PlaceholderAtom, struct.pack("<iBBH", position, pid, 0, 0))])


def _shape(spid: int, shape_type: int, flags: int, props, rect=None, client_data: bytes = b"", textbox: bytes | None = None) -> bytes:
    parts = [atom(2, shape_type, 0xF00A, struct.pack("<II", spid, flags)), _opt(props)]
    if rect is not None:
        parts.append(_anchor(rect))
    if client_data:
        parts.append(client_data)
    if textbox is not None:
        parts.append(box(0xF00D, [textbox]))
    return box(0xF004, parts)


_BG_PROPS = [(0x0181, 0x08000000), (0x0183, 0x08000005), (0x0193, 0x008B9F8E), (0x0194, 0x0068BDDE), (0x01BF, 0x00120012),
             (0x01FF, 0x00080000), (0x0304, 0x00000009), (0x033F, 0x00010001)]


class _Drawing:
    """one OfficeArtDgContainer (drawing id = cluster id): group shape, background shape, then the content shapes"""

    def __init__(self, dgid: int):
        self.dgid = dgid
        self.base = dgid << 10
        self.next = 2                      # 0 = group (patriarch), 1 = background
        self.shapes = []

    def spid(self) -> int:
        s = self.base + self.next
        self.next += 1
        return s

    def add(self, shape: bytes):
        self.shapes.append(shape)

    @property
    def count(self) -> int:               # shapes except the patriarch, as PowerPoint counts them in OfficeArtFDG.csp
        return len(self.shapes) + 1

    @property
    def last_spid(self) -> int:
        return self.base + self.next - 1

    def container(self) -> bytes:
        group = box(0xF004, [atom(1, 0, 0xF009, b"\0" * 16), atom(2, 0, 0xF00A, struct.pack("<II", self.base, 0x0005))])
        background = _shape(self.base + 1, 1, 0x0C00, _BG_PROPS)
        dg = box(0xF002, [atom(0, self.dgid, 0xF008, struct.pack("<II", self.count, self.last_spid)),
                          box(0xF003, [group] + self.shapes), background])
        return box(RT_Drawing, [dg])


def _placeholder_shape(dr: _Drawing, pid: int, position: int, rect, textbox, master_spid: int | None, master: bool = False) -> int:
    spid = dr.spid()
    if master:
        props = [(0x007F, 0x00050001), (0x0080, spid), (0x0181, 0x08000004), (0x0183, 0x08000000), (0x01BF, 0x00110001),
                 (0x01C0, 0x08000001), (0x01FF, 0x00090001), (0x0201, 0x08000002)]
        flags = 0x0A00
    else:
        props = [(0x007F, 0x00040000), (0x0080, spid), (0x01BF, 0x00010000), (0x01FF, 0x00010000)]
        flags = 0x0A00
        if master_spid is not None:
            props.append((0x0301, master_spid))
            flags = 0x0220                                      # fHaveMaster | fHaveAnchor
    dr.add(_shape(spid, 1, flags, props, rect, _placeholder(position, pid), textbox))
    return spid


def _textbox_shape(dr: _Drawing, rect, textbox: bytes):
    spid = dr.spid()
    props = [(0x0080, spid), (0x0085, 0), (0x00BF, 0x00080008), (0x01BF, 0x00100000), (0x01FF, 0x00080000)]
    dr.add(_shape(spid, 202, 0x0A00, props, rect, b"", textbox))


def _picture_shape(dr: _Drawing, rect, pib: int):
    dr.add(_shape(dr.spid(), 75, 0x0A00, [(0x4104, pib), (0x01FF, 0x00080000)], rect))


# ---------------------------------------------------------------------------------------------------------------------
# fixed pieces
# ---------------------------------------------------------------------------------------------------------------------
def _text_master_style(ttype: int) -> bytes:
    """one level, no overridden paragraph / character properties (types >= 5 carry the level number explicitly)"""
    lvl = (struct.pack("<H", 0) if ttype >= 5 else b"") + struct.pack("<II", 0, 0)
    return atom(0, ttype, RT_TextMasterStyleAtom, struct.pack("<H", 1) + lvl)


def _environment() -> bytes:
    font = atom(0, 0, RT_FontEntityAtom, "Arial".encode("utf-16-le").ljust(64, b"\0") + bytes([0, 0, 4, 0x22]))
    return box(RT_Environment, [box(RT_Kinsoku, [atom(0, 3, RT_KinsokuAtom, struct.pack("<I", 0))], inst=2),
                                box(RT_FontCollection, [font]),
                                atom(0, 0, RT_TextSIExceptionAtom, struct.pack("<IHHH", 7, 0, 0x0409, 0)),
                                _text_master_style(TX_OTHER)])


def _drawing_group(drawings: list, bse: list) -> bytes:
    clusters = b"".join(struct.pack("<II", d.dgid, d.next) for d in drawings)
    fdgg = atom(0, 0, 0xF006, struct.pack("<IIII", max(d.last_spid for d in drawings), len(drawings) + 1, sum(d.count for d in drawings),
                                          len(drawings)) + clusters)
    parts = [fdgg]
    if bse:
        parts.append(box(0xF001, bse, inst=len(bse)))
    parts.append(_opt([(0x0181, 0x08000004), (0x0183, 0x08000000), (0x01BF, 0x00100010), (0x01C0, 0x08000001), (0x01FF, 0x00080008), (0x0201, 0x08000002)]))
    parts.append(atom(0, 4, 0xF11E, struct.pack("<IIII", 0x08000004, 0x08000001, 0x08000002, 0x100000F7)))
    return box(RT_DrawingGroup, [box(0xF000, parts)])


def _slide_atom(geom: int, placeholders, master_ref: int, notes_ref: int, flags: int) -> bytes:
    ph = bytes(placeholders).ljust(8, b"\0")
    return atom(2, 0, RT_SlideAtom, struct.pack("<I", geom) + ph + struct.pack("<IIHH", master_ref, notes_ref, flags, 0))


def _cstring(inst: int, s: str) -> bytes:
    return atom(0, inst, RT_CString, s.encode("utf-16-le"))


def _crypt_session(keep_docprops: bool) -> bytes:
    """[MS-OFFCRYPTO] 2.3.5.1 RC4 CryptoAPI EncryptionHeader + verifier with dummy salt / verifier values"""
    flags = 0x04 | (0x08 if keep_docprops else 0)
    csp = "Microsoft Enhanced Cryptographic Provider v1.0\0".encode("utf-16-le")
    header = struct.pack("<IIIIIIII", flags, 0, 0x6801, 0x8004, 128, 1, 0, 0) + csp
    verifier = struct.pack("<I", 16) + bytes(range(0x20, 0x30)) + bytes(range(0x50, 0x60)) + struct.pack("<I", 20) + bytes(range(0x90, 0xA4))
    return atom(0xF, 0, RT_CryptSession10Container, struct.pack("<HHII", 2, 2, flags, len(header)) + header + verifier)


# ---------------------------------------------------------------------------------------------------------------------
def _read_unit(u, images):
    if u[0] != "unit":
        raise NotImplementedError("unit kind %r in a presentation" % (u[0],))
    title, paras, pics = None, [], []
    for b in u[1]:
        k = b[0]
        if k == "h":
            if b[1] not in (1, 2, 3):
                raise NotImplementedError("heading level %r" % (b[1],))
            t = _inline_text(b[2])
            if title is None:
                title = t
            else:
                paras.append(t)
        elif k == "p":
            paras.append(_inline_text(b[1]))
        elif k == "img":
            if images is None or b[1] not in images:
                raise KeyError("no image %r" % (b[1],))
            pics.append(b[1])
        else:
            raise NotImplementedError("block %r on a PPT slide" % (k,))
    extras = u[2] or {}
    for k, v in extras.items():
        if k != "notes" and v:
            raise NotImplementedError("extra:" + k)
    notes = list(extras.get("notes") or [])
    for t in notes:
        if not isinstance(t, str) or any(c in t for c in "\r\n\x0b\x0c\x00"):
            raise NotImplementedError("notes paragraph with control characters")
    return title, paras, pics, notes


def ppt_streams(doc, images=None, opts: dict | None = None) -> dict:
    """{stream name: bytes} of the presentation (without the compound file around it)"""
    opts = opts or {}
    if doc[0] != "doc":
        raise ValueError("not an ADM document")
    meta = doc[1] or {}
    for k in meta:
        if "meta:" + k not in CAPS_PPT:
            raise NotImplementedError("meta:" + k)
    layout = opts.get("layout", "ppt")
    p_mode = opts.get("p_mode", "body")
    tmode = opts.get("text_atom", "chars")
    if layout not in ("ppt", "lo"):
        raise NotImplementedError("layout %r" % (layout,))
    if p_mode not in ("body", "textbox", "slwt_other"):
        raise NotImplementedError("p_mode %r" % (p_mode,))
    if layout == "lo" and p_mode == "slwt_other":
        raise NotImplementedError("p_mode slwt_other needs layout ppt")
    encrypted = opts.get("encrypted")
    if encrypted not in (None, False, True, "keep_docprops"):
        raise NotImplementedError("encrypted %r" % (encrypted,))
    units = [_read_unit(u, images) for u in doc[2]]
    any_notes = any(u[3] for u in units)

    # ---- persist ids / drawing ids -------------------------------------------------------------------------------
    pid = [2]

    def new_pid():
        pid[0] += 1
        return pid[0]
    DOC_PID, MASTER_PID = 1, 2
    notes_master_pid = new_pid() if any_notes else 0
    drawings = []

    def new_drawing():
        d = _Drawing(len(drawings) + 1)
        drawings.append(d)
        return d

    # ---- pictures --------------------------------------------------------------------------------------------------
    pictures = b""
    bse, pib_of = [], {}
    refs = {}
    for _, _, pics, _ in units:
        for key in pics:
            refs[key] = refs.get(key, 0) + 1
    for _, _, pics, _ in units:
        for key in pics:
            if key not in pib_of:
                r, bt, uid = _cfb.blip(images[key])
                bse.append(_cfb.fbse(bt, uid, len(r), len(pictures), b"", refs[key]))
                pictures += r
                pib_of[key] = len(bse)

    # ---- main master -----------------------------------------------------------------------------------------------
    with_master_text = opts.get("master_text", True)
    md = new_drawing()
    m_title = _placeholder_shape(md, PT_MasterTitle, 0, ANCHOR_TITLE,
                                 _text_atoms(MASTER_TITLE_TEXT, TX_TITLE, 0, "auto") if with_master_text else None, None, master=True)
    m_body = _placeholder_shape(md, PT_MasterBody, 1, ANCHOR_BODY,
                                _text_atoms(MASTER_BODY_TEXT, TX_BODY, 0, "auto") if with_master_text else None, None, master=True)
    main_master = box(RT_MainMaster, [_slide_atom(SL_TitleBody, [PT_MasterTitle, PT_MasterBody], 0, 0, 0)] +
                      [_text_master_style(t) for t in (0, 1, 2, 5, 6, 7, 8)] +
                      [md.container(), atom(0, 1, RT_ColorSchemeAtom, COLOR_SCHEME)])
    objects = [(MASTER_PID, main_master)]
    if any_notes:
        nd = new_drawing()
        _placeholder_shape(nd, PT_MasterNotesSlideImage, 0, ANCHOR_NOTES_IMAGE, None, None, master=True)
        _placeholder_shape(nd, PT_MasterNotesBody, 1, ANCHOR_NOTES_BODY,
                           _text_atoms(MASTER_BODY_TEXT, TX_NOTES, 0, "auto") if with_master_text else None, None, master=True)
        objects.append((notes_master_pid, box(RT_Notes, [atom(1, 0, RT_NotesAtom, struct.pack("<IHH", 0, 0, 0)), nd.container(),
                                                         atom(0, 1, RT_ColorSchemeAtom, COLOR_SCHEME)])))

    # ---- slides and notes pages --------------------------------------------------------------------------------------
    slwt_slides, slwt_notes = [], []
    last_slide_id = 0
    for i, (title, paras, pics, notes) in enumerate(units):
        slide_id = 256 + i
        last_slide_id = slide_id
        slide_pid = new_pid()
        notes_pid = new_pid() if notes else 0
        dr = new_drawing()
        outline = []                       # texts that go to SlideListWithText (layout "ppt")
        inline_count = [0]

        def text_for(text, ttype):
            """-> content of the shape's ClientTextbox"""
            if layout == "lo" or (ttype == TX_OTHER and p_mode == "textbox"):
                idx = min(inline_count[0], 5) if layout == "lo" else 0      # Impress numbers the texts of a slide, PowerPoint writes 0
                inline_count[0] += 1
                return _text_atoms(text, ttype, idx, tmode)
            outline.append(_text_atoms(text, ttype, len(outline), tmode))
            return atom(0, 0, RT_OutlineTextRefAtom, struct.pack("<i", len(outline) - 1))
        body = p_mode == "body" and bool(paras)
        if body:
            geom, phs = SL_TitleBody, [PT_Title, PT_Body]
        elif title is not None:
            geom, phs = SL_TitleOnly, [PT_Title]
        else:
            geom, phs = SL_Blank, []
        if PT_Title in phs:
            _placeholder_shape(dr, PT_Title, 0, ANCHOR_TITLE, text_for(title, TX_TITLE) if title is not None else None, m_title)
        if body:
            _placeholder_shape(dr, PT_Body, 1, ANCHOR_BODY, text_for("\r".join(paras), TX_BODY), m_body)
        y = 1008
        non_outline = bool(pics)
        if not body:
            for t in paras:
                _textbox_shape(dr, (y, 288, 5472, y + 400), text_for(t, TX_OTHER))
                y += 450
                non_outline = True
        for key in pics:
            _picture_shape(dr, (y, 288, 288 + 1200, y + 900), pib_of[key])
            y += 950
        if len(outline) > 6:
            raise NotImplementedError("more than 6 outline texts on one slide (TextHeaderAtom.recInstance is limited to 0..5)")
        slide = [_slide_atom(geom, phs, MASTER_ID, slide_id if notes else 0, 0x0007), dr.container(), atom(0, 1, RT_ColorSchemeAtom, COLOR_SCHEME)]
        objects.append((slide_pid, box(RT_Slide, slide)))
        slwt_slides.append(atom(0, 0, RT_SlidePersistAtom, struct.pack("<IIiII", slide_pid, 4 if non_outline else 0, len(outline), slide_id, 0)) +
                           b"".join(outline))
        if notes:
            nd = new_drawing()
            _placeholder_shape(nd, PT_NotesSlideImage, 0, ANCHOR_NOTES_IMAGE, None, None)
            _placeholder_shape(nd, PT_NotesBody, 1, ANCHOR_NOTES_BODY, _text_atoms("\r".join(notes), TX_NOTES, 0, tmode), None)
            objects.append((notes_pid, box(RT_Notes, [atom(1, 0, RT_NotesAtom, struct.pack("<IHH", slide_id, 0, 0)), nd.container(),
                                                      atom(0, 1, RT_ColorSchemeAtom, COLOR_SCHEME)])))
            slwt_notes.append(atom(0, 0, RT_SlidePersistAtom, struct.pack("<IIiII", notes_pid, 4, 0, slide_id, 0)))

    # ---- document container ------------------------------------------------------------------------------------------
    doc_atom = atom(1, 0, RT_DocumentAtom, struct.pack("<iiiiiiIIHHBBBB", 5760, 4320, 4320, 5760, 5, 10, notes_master_pid, 0, 1, 0, 0, 0, 0, 1))
    children = [doc_atom, _environment(), _drawing_group(drawings, bse),
                box(RT_SlideListWithText, [atom(0, 0, RT_SlidePersistAtom, struct.pack("<IIiII", MASTER_PID, 0, 0, MASTER_ID, 0))], inst=1)]
    if meta.get("footer"):
        children.append(box(RT_HeadersFooters, [atom(0, 0, RT_HeadersFootersAtom, struct.pack("<HH", 0, 0x0020)), _cstring(2, meta["footer"])], inst=3))
    if meta.get("header"):
        children.append(box(RT_HeadersFooters, [atom(0, 0, RT_HeadersFootersAtom, struct.pack("<HH", 0, 0x0010)), _cstring(1, meta["header"])], inst=4))
    if slwt_slides:
        children.append(box(RT_SlideListWithText, slwt_slides, inst=0))
    if slwt_notes:
        children.append(box(RT_SlideListWithText, slwt_notes, inst=2))
    children.append(atom(0, 0, RT_EndDocumentAtom, b""))
    objects.insert(0, (DOC_PID, box(RT_Document, children)))
    crypt_pid = 0
    if encrypted:
        crypt_pid = new_pid()
        objects.append((crypt_pid, _crypt_session(encrypted == "keep_docprops")))

    # ---- stream: persist objects, persist directory, user edit -------------------------------------------------------
    objects.sort(key=lambda o: o[0])
    stream = b""
    offsets = []
    for p, data in objects:
        offsets.append(len(stream))
        stream += data
    if [p for p, _ in objects] != list(range(1, len(objects) + 1)):
        raise AssertionError("persist ids must be consecutive")
    directory = b""
    for start in range(0, len(offsets), 0xFFF):
        part = offsets[start:start + 0xFFF]
        directory += struct.pack("<I", (len(part) << 20) | (start + 1)) + struct.pack("<%dI" % len(part), *part)
    dir_offset = len(stream)
    stream += atom(0, 0, RT_PersistDirectoryAtom, directory)
    edit_offset = len(stream)
    edit = struct.pack("<IHBBIIIIHH", last_slide_id, 0, 0, 3, 0, dir_offset, DOC_PID, len(objects) + 1, 1, 0)
    if encrypted:
        edit += struct.pack("<I", crypt_pid)
    stream += atom(0, 0, RT_UserEditAtom, edit)

    out = {"PowerPoint Document": stream}
    if opts.get("current_user", True):
        user = "verif"
        out["Current User"] = atom(0, 0, RT_CurrentUserAtom, struct.pack("<IIIHHBBH", 0x14, 0xF3D1C4DF if encrypted else 0xE391C05F, edit_offset,
                                                                         len(user), 0x03F4, 3, 0, 0) + user.encode("ascii") +
                                   struct.pack("<I", 8) + user.encode("utf-16-le"))
    if pictures:
        out["Pictures"] = pictures
    if encrypted is True:
        out["EncryptedSummary"] = _cfb._dummy(256, 7)
    elif not opts.get("no_summary"):
        summ = _cfb.adm_summary(meta, opts.get("summary"))
        summ.setdefault("slides", len(units))
        summ.setdefault("notes", sum(1 for u in units if u[3]))
        out.update(_cfb.summary_streams(summ))
    return out


def ppt(doc, images=None, opts: dict | None = None) -> bytes:
    opts = opts or {}
    o = {"clsid": {"": _cfb.CLSID_PPT}}
    o.update(opts.get("cfb") or {})
    return _cfb.cfb(ppt_streams(doc, images, opts), o)
